import FrappyDrive.Util
import FrappyModel.Spec.C08
import FrappyModel.Generated.C08
/- line-protocol glue for C08 (not part of any theorem) -/
namespace Frappy.Drive.C08
open Lean Frappy.Drive Frappy.Activate Frappy.Spec.C08

def parseEntry (j : Json) : R Entry := do
  match (← arr j) with
  | [.str "v", n, t] => return .val (← n.getInt?) (← t.getNat?)
  | [.str "e", n, t] => return .err (← n.getNat?) (← t.getNat?)
  | [.str "v", n] => return .val (← n.getInt?) 0
  | [.str "e", n] => return .err (← n.getNat?) 0
  | _ => throw s!"bad entry {j.compress}"

def entryJson : Entry → Json
  | .val v t => jarr [Json.str "v", jint v, jnat t]
  | .err k t => jarr [Json.str "e", jnat k, jnat t]

def mkMod (l : Activate.Name) : R Mod :=
  if h : colon ∉ l then pure ⟨l, h⟩ else throw s!"module name with a colon: {String.ofList l}"

def parseMod (j : Json) : R Mod := do mkMod (← j.getStr?).toList

def nameJson (l : Activate.Name) : Json := Json.str (String.ofList l)

/-- a specifier as the dispatcher reads it: nothing = whole node; no colon = a module;
otherwise `modulename, exportedname = specifier.split(':', 1)` -/
def parseSpec (spec : Activate.Name) : R Scope := do
  if spec.isEmpty then return .all
  if spec.contains colon then
    let m ← mkMod (spec.takeWhile (fun ch => ch != colon))
    return .par m ((spec.dropWhile (fun ch => ch != colon)).drop 1)
  else
    return .mod (← mkMod spec)

def parseScope (j : Json) : R Scope := do
  if j.isNull then return .all
  parseSpec (← j.getStr?).toList

def scopeJson : Scope → Json
  | .all => Json.null
  | s => nameJson s.key

/-- the specifier of a `read` / `change`: `modulename, pname = specifier, 'value'` (`'target'` for a change), or
`specifier.split(':', 1)` -/
def parseRwSpec (w : Bool) (spec : Activate.Name) : R (Mod × Par) := do
  if spec.contains colon then
    let m ← mkMod (spec.takeWhile (fun ch => ch != colon))
    return (m, (spec.dropWhile (fun ch => ch != colon)).drop 1)
  else
    return ((← mkMod spec), (if w then "target" else "value").toList)

def parseReq (j : Json) : R Req := do
  match (← arr j) with
  | [.str "read", s, e] => do
    let (m, p) ← parseRwSpec false (← s.getStr?).toList
    return .rw false m p (← parseEntry e)
  | [.str "change", s, e] => do
    let (m, p) ← parseRwSpec true (← s.getStr?).toList
    return .rw true m p (← parseEntry e)
  | [.str "activate", s] => return .activate (← parseScope s)
  | [.str "deactivate", s] => return .deactivate (← parseScope s)
  | [.str "bad", a, s] => return .malformed (← a.getStr?).toList (← s.getStr?).toList
  | [.str "ident"] => return .ident
  | [.str "disconnect"] => return .disconnect
  | _ => throw s!"bad request {j.compress}"

def reqJson : Req → Json
  | .activate s => jarr [Json.str "activate", scopeJson s]
  | .deactivate s => jarr [Json.str "deactivate", scopeJson s]
  | .ident => jarr [Json.str "ident"]
  | .disconnect => jarr [Json.str "disconnect"]
  | .rw w m p e => jarr [Json.str (if w then "change" else "read"), nameJson (pkey m p), entryJson e]
  | .malformed a s => jarr [Json.str "bad", nameJson a, nameJson s]

def parseObs (j : Json) : R Obs := do
  match (← arr j) with
  | [.str "reqStart", c, r] => return .reqStart (← c.getNat?) (← parseReq r)
  | [.str "reply", c, r, ok] => return .reply (← c.getNat?) (← parseReq r) (← ok.getBool?)
  | [.str "deliver", c, m, p, e] => return .deliver (← c.getNat?) (← parseMod m) (← p.getStr?).toList (← parseEntry e)
  | [.str "emit", u, m, p, e] => return .emit (← u.getNat?) (← parseMod m) (← p.getStr?).toList (← parseEntry e)
  | [.str "emitDone", u] => return .emitDone (← u.getNat?)
  | _ => throw s!"bad obs {j.compress}"

def obsJson : Obs → Json
  | .reqStart c r => jarr [Json.str "reqStart", jnat c, reqJson r]
  | .reply c r ok => jarr [Json.str "reply", jnat c, reqJson r, Json.bool ok]
  | .deliver c m p e => jarr [Json.str "deliver", jnat c, nameJson m.val, nameJson p, entryJson e]
  | .emit u m p e => jarr [Json.str "emit", jnat u, nameJson m.val, nameJson p, entryJson e]
  | .emitDone u => jarr [Json.str "emitDone", jnat u]

def parseTid (j : Json) : R Tid := do
  match (← arr j) with
  | [.str "h", c] => return .h (← c.getNat?)
  | [.str "u", k] => return .u (← k.getNat?)
  | _ => throw s!"bad thread {j.compress}"

def parseLk (j : Json) : R Lk := do
  match j with
  | .str "disp" => return .disp
  | .str "sub" => return .sub
  | _ => match (← arr j) with
    | [.str "upd", m] => return .upd (← parseMod m)
    | [.str "acc", m] => return .acc (← parseMod m)
    | _ => throw s!"bad lock {j.compress}"

def parseLabel (j : Json) : R Label := do
  match (← arr j) with
  | [.str "acquire", l] => return .acquire (← parseLk l)
  | [.str "release", l] => return .release (← parseLk l)
  | [.str "send", c] => return .send (← c.getNat?)
  | [.str "recv"] => return .recv
  | [.str "end"] => return .fin
  | _ => throw s!"bad label {j.compress}"

/-- association list → total function -/
def lookupD {α β : Type} [BEq α] (l : List (α × β)) (d : β) (a : α) : β :=
  match l.find? (fun x => x.1 == a) with
  | some x => x.2
  | none => d

structure Setup where
  cfg : Cfg
  cache : Mod → Par → Entry
  items : List (Mod × Par)

def parseSetup (j : Json) : R Setup := do
  let mods ← (← fldArr j "mods").mapM (fun x => do
    match (← arr x) with
    | [m, ps] => return ((← parseMod m), (← (← arr ps).mapM (fun x => do return (← x.getStr?).toList)))
    | _ => throw "bad module")
  let conns ← fldNats j "conns"
  let cache ← (← fldArr j "cache").mapM (fun x => do
    match (← arr x) with
    | [m, p, e] => return (((← parseMod m), (← p.getStr?).toList), (← parseEntry e))
    | _ => throw "bad cache item")
  let broken ← match j.getObjVal? "logFails" with
    | .ok x => (do return (← (← x.getArr?).toList.mapM (·.getNat?)))
    | .error _ => pure []
  let omitL ← match j.getObjVal? "omitWithin" with
    | .ok x => (do (← arr x).mapM (fun y => do
        match (← arr y) with
        | [m, p, w] => return (((← parseMod m), (← p.getStr?).toList), (← w.getNat?))
        | _ => throw "bad omitWithin item"))
    | .error _ => pure []
  -- the parameter table of ALL modules of the node: [module, exported name, readonly, constant, has a read_ function]
  let parL ← match j.getObjVal? "params" with
    | .ok x => (do (← arr x).mapM (fun y => do
        match (← arr y) with
        | [m, p, ro, co, hr] =>
          return (((← parseMod m), (← p.getStr?).toList), (⟨(← ro.getBool?), (← co.getBool?), (← hr.getBool?)⟩ : ParInfo))
        | _ => throw "bad params item"))
    | .error _ => pure []
  let look : Mod → Par → Option ParInfo := fun m p => (parL.find? (fun x => x.1 == (m, p))).map (·.2)
  let cfg : Cfg := ⟨mods.map (·.1), lookupD mods [], conns, fun c => broken.contains c, fun m p => lookupD omitL 0 (m, p),
    rwKindOf look⟩
  return ⟨cfg, fun m p => lookupD cache (.err 0 0) (m, p), mods.flatMap (fun x => x.2.map (fun p => (x.1, p)))⟩

/-- run the invisible actions of the scheduler's thread `t` (inside a call the acting model thread is the connection's
updater slot: `actor`) -/
def runInvisible (cfg : Cfg) : Nat → State → Tid → State
  | 0, σ, _ => σ
  | n + 1, σ, t =>
    let a := actor σ t
    if finished σ a then σ else
    match nextVisible σ a with
    | some _ => σ
    | none => match step cfg σ ⟨a, 0⟩ with
      | some σ' => runInvisible cfg n σ' t
      | none => σ

structure RS where
  σ : State
  parked : List (Tid × Label)
  /-- the dispatcher's tables after every completed operation: (index of the `reply` / `emitDone` event, tables) -/
  tabs : List (Nat × Json) := []

/-- `_active_connections` and the non-empty entries of `_subscriptions`, over the candidate keys `keys` -/
def tablesJson (cfg : Cfg) (keys : List Activate.Name) (σ : State) : Json :=
  Json.mkObj [
    ("active", jnats (cfg.conns.filter (fun c => σ.active c))),
    ("subs", jarr ((keys.filterMap (fun k =>
      let l := cfg.conns.filter (fun c => σ.subs k c)
      if l.isEmpty then none else some (jarr [nameJson k, jnats l])))))]

def completes : Obs → Bool
  | .reply _ _ _ => true
  | .emitDone _ => true
  | _ => false

/-- snapshots for the events appended between `σ` and `σ'` (no action both changes a table and appends such an event,
and the invisible actions change no table: the tables of `σ'` are the tables at the event) -/
def newTabs (cfg : Cfg) (keys : List Activate.Name) (σ σ' : State) : List (Nat × Json) :=
  let n := σ.trace.length
  (((σ'.trace.drop n).zipIdx).filter (fun x => completes x.1)).map (fun x => (n + x.2, tablesJson cfg keys σ'))

/-- one entry of the scheduler trace: thread `t` has arrived at a yield point labelled `l`; this means it has
executed the effect of the label it was parked at and everything up to the new yield point -/
def replayEntry (cfg : Cfg) (keys : List Activate.Name) (rs : RS) (t : Tid) (l : Label) : Except String RS := do
  let σ1 ← match rs.parked.find? (fun x => x.1 == t) with
    | some (_, l0) =>
      let arg := match l0 with | .send c => c | _ => 0
      match step cfg rs.σ ⟨actor rs.σ t, arg⟩ with
      | some σ' => pure σ'
      | none => throw s!"model thread is blocked at {repr l0}"
    | none => pure rs.σ
  let σ2 := runInvisible cfg 64 σ1 t
  if labelFits σ2 (actor σ2 t) l then
    return ⟨σ2, (t, l) :: rs.parked.filter (fun x => !(x.1 == t)), rs.tabs ++ newTabs cfg keys rs.σ σ2⟩
  else
    throw s!"model expects {repr (nextVisible σ2 (actor σ2 t))}, implementation did {repr l}"

def replayAll (cfg : Cfg) (keys : List Activate.Name) : RS → Nat → List (Tid × Label) → RS × Option (Nat × String)
  | rs, _, [] => (rs, none)
  | rs, i, (t, l) :: rest =>
    match replayEntry cfg keys rs t l with
    | .ok rs' => replayAll cfg keys rs' (i + 1) rest
    | .error e => (rs, some (i, e))

/-- is some unfinished thread able to move -/
def someEnabled (cfg : Cfg) (σ : State) (ts : List Tid) : Bool :=
  ts.any (fun t => match t with
    | .h c => (stepH cfg σ c).isSome
    | .u k => match σ.upc k with
      | .sending _ _ _ (x :: _) => (stepUG cfg σ k x).isSome
      | _ => (stepUG cfg σ k 0).isSome)

def bad (x : Option Nat) : Json := jopt jnat x

def handle (j : Json) : R Json := do
  let k ← fldStr j "k"
  match k with
  | "replay" =>
    let su ← parseSetup j
    let hs ← (← fldArr j "handlers").mapM (fun x => do
      match (← arr x) with
      | [c, rs] => return ((← c.getNat?), (← (← arr rs).mapM parseReq))
      | _ => throw "bad handler")
    let us ← (← fldArr j "updaters").mapM (fun x => do
      match (← arr x) with
      | [u, as] => return ((← u.getNat?), (← (← arr as).mapM (fun a => do
          match (← arr a) with
          | [m, p, e] => return ((← parseMod m), (← p.getStr?).toList, (← parseEntry e))
          | _ => throw "bad assignment")))
      | _ => throw "bad updater")
    let sched ← (← fldArr j "sched").mapM (fun x => do
      match (← arr x) with
      | [t, l] => return ((← parseTid t), (← parseLabel l))
      | _ => throw "bad schedule entry")
    let σ0 := init (lookupD hs []) (lookupD us []) su.cache
    let tids : List Tid := hs.map (fun x => Tid.h x.1) ++ us.map (fun x => Tid.u x.1)
    -- candidate keys of the subscription table: every module, every exported parameter, every scope named in a script
    let reqKeys := hs.flatMap (fun x => x.2.filterMap (fun r => match r with
      | .activate s => if s == .all then none else some s.key
      | _ => none))
    let keys := (su.cfg.mods.map (·.val) ++ su.items.map (fun x => pkey x.1 x.2) ++ reqKeys).eraseDups
    let (rs, stuck) := replayAll su.cfg keys ⟨σ0, [], []⟩ 0 sched
    -- flush: threads parked at their final label finish
    let σe := rs.parked.foldl (fun σ x => match x.2 with
      | .fin => (step su.cfg σ ⟨x.1, 0⟩).getD σ
      | _ => σ) rs.σ
    let tabs := rs.tabs ++ newTabs su.cfg keys rs.σ σe
    let allDone := tids.all (finished σe)
    let dead := !allDone && !someEnabled su.cfg σe (tids ++ hs.map (fun x => Tid.u (own x.1)))
    return Json.mkObj [
      ("stuck", match stuck with | some (i, _) => jnat i | none => Json.null),
      ("why", match stuck with | some (_, e) => Json.str e | none => Json.null),
      ("trace", jarr (σe.trace.map obsJson)),
      ("cache", jarr (su.items.map (fun x => jarr [nameJson x.1.val, nameJson x.2, entryJson (σe.cache x.1 x.2)]))),
      ("tabs", jarr (tabs.map (fun x => jarr [jnat x.1, x.2]))),
      ("tables", tablesJson su.cfg keys σe),
      ("done", Json.bool allDone),
      ("deadlock", Json.bool dead)]
  | "judge" =>
    let su ← parseSetup j
    let tr ← (← fldArr j "trace").mapM parseObs
    -- the node's cache at the end of the run as the harness read it from the real objects (`final`); without it the cache
    -- is reconstructed from the stores in the trace
    let now ← match j.getObjVal? "final" with
      | .ok x => (do
          let l ← (← arr x).mapM (fun y => do
            match (← arr y) with
            | [m, p, e] => return (((← parseMod m), (← p.getStr?).toList), (← parseEntry e))
            | _ => throw "bad final item")
          pure (fun m p => lookupD l (cacheAfter su.cache tr m p) (m, p)))
      | .error _ => pure (cacheAfter su.cache tr)
    let q := quiescentBadNow su.cfg now tr
    return Json.mkObj [
      ("silent", bad (silentMon.firstBad silentMon.init 0 tr)),
      ("snapshot", bad ((snapMon su.cfg su.cache).firstBad (snapMon su.cfg su.cache).init 0 tr)),
      ("noloss", bad ((lossMon su.cfg).firstBad (lossMon su.cfg).init 0 tr)),
      ("exported", bad ((tr.zipIdx.find? (fun x => !exportedOk su.cfg x.1)).map (·.2))),
      ("quiet", Json.bool (quietB tr)),
      ("quiescent", match q with | some (c, m, p) => jarr [jnat c, nameJson m.val, nameJson p] | none => Json.null),
      ("cache", jarr (su.items.map (fun x => jarr [nameJson x.1.val, nameJson x.2, entryJson (cacheAfter su.cache tr x.1 x.2)])))]
  | _ => throw s!"C08: unknown verb {k}"

end Frappy.Drive.C08
