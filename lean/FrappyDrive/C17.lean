import FrappyDrive.Util
import FrappyModel.Spec.C17
/- line-protocol glue for C17 (not part of any theorem).

Values of parameters travel as text (`V := String`, Python `repr`).  The external functions of the model
(`json.load`, `json.dump`, the datatypes' `import_value` / `export_value` / `validate`) are sent with each
request as finite tables recorded from the real functions; a lookup that misses yields a marked result that
cannot agree with the implementation.  Python's `==` on decoded JSON is `pyEq`.  File contents are hex strings. -/
namespace Frappy.Drive.C17
open Lean Frappy.Drive Frappy.Persist Frappy.Spec.C17

abbrev JVn := JV JsonNumber
abbrev V := String

/-! ### hex -/
def hexVal (c : Char) : Nat :=
  if '0' ≤ c ∧ c ≤ '9' then c.toNat - '0'.toNat
  else if 'a' ≤ c ∧ c ≤ 'f' then c.toNat - 'a'.toNat + 10
  else 0

def unhexAux : List Char → List UInt8
  | a :: b :: rest => UInt8.ofNat (hexVal a * 16 + hexVal b) :: unhexAux rest
  | _ => []

def unhex (s : String) : Bytes := unhexAux s.toList

def hexDigit (n : Nat) : Char := if n < 10 then Char.ofNat (48 + n) else Char.ofNat (87 + n)
def hex (b : Bytes) : String := String.ofList (b.flatMap (fun x => [hexDigit (x.toNat / 16), hexDigit (x.toNat % 16)]))

def optHex (j : Json) : R (Option Bytes) := if j.isNull then pure none else (fun s => some (unhex s)) <$> j.getStr?
def jbytes : Option Bytes → Json
  | none => Json.null
  | some b => Json.str (hex b)

/-! ### JSON values -/
instance : Inhabited JVn := ⟨.null⟩
partial def toJV : Json → JVn
  | .null => .null
  | .bool b => .bool b
  | .num n => .num n
  | .str s => .str s
  | .arr a => .arr (a.toList.map toJV)
  | .obj o => .obj (o.toList.map (fun (k, v) => (k, toJV v)))

/-- top level of a decoded file: an object travels as a list of pairs (keeps the order of the file) -/
def topJV (j : Json) : R JVn := do
  let kind ← fldStr j "kind"
  if kind == "obj" then
    let pairs ← fldArr j "pairs"
    let kv ← pairs.mapM (fun p => do
      match ← arr p with
      | [k, v] => return ((← k.getStr?), toJV v)
      | _ => throw "bad pair")
    return .obj kv
  else return toJV (← fld j "value")

def normNum (n : JsonNumber) : Int × Nat := Id.run do
  let mut m := n.mantissa
  let mut e := n.exponent
  while e > 0 && m % 10 == 0 do
    m := m / 10
    e := e - 1
  return (m, e)

partial def render : JVn → String
  | .null => "null"
  | .bool b => if b then "true" else "false"
  | .num n => let (m, e) := normNum n; s!"{m}e-{e}"
  | .str s => (Json.str s).compress
  | .arr l => "[" ++ ",".intercalate (l.map render) ++ "]"
  | .obj kv => "{" ++ ",".intercalate (kv.map (fun (k, v) => (Json.str k).compress ++ ":" ++ render v)) ++ "}"

def isNan : JVn → Bool
  | .obj [("__f__", .str "nan")] => true
  | _ => false

/-- Python `==` on what `json.load` returns / `export_value` produces -/
partial def pyEq : JVn → JVn → Bool
  | .null, .null => true
  | .bool a, .bool b => a == b
  | .bool a, .num n => normNum n == ((if a then 1 else 0), 0)
  | .num n, .bool a => normNum n == ((if a then 1 else 0), 0)
  | .num a, .num b => normNum a == normNum b
  | .str a, .str b => a == b
  | .arr a, .arr b => a.length == b.length && (a.zip b).all (fun (x, y) => pyEq x y)
  | .obj a, .obj b =>
    !isNan (.obj a) && a.length == b.length &&
      a.all (fun (k, x) => match b.lookup k with
        | some y => pyEq x y
        | none => false)
  | _, _ => false

def sameDict (a b : Dict JsonNumber) : Bool := pyEq (.obj a) (.obj b)

/-! ### tables -/
structure Tables where
  parse : List (String × Option JVn)          -- hex ↦ decoded (none = ValueError / RecursionError)
  ser : List (String × List Bytes)            -- rendered dict ↦ chunks
  imp : List ((String × String) × Option V)   -- (name, rendered json) ↦ value
  exp : List ((String × V) × JVn)
  wval : List ((String × V) × Option V)

def missing : String := "<<oracle table miss>>"

def parseTables (j : Json) : R Tables := do
  let parse ← (← fldArr j "parse").mapM (fun e => do
    let h ← fldStr e "hex"
    let d ← fld e "dec"
    return (h, ← if d.isNull then pure none else some <$> topJV d))
  let ser ← (← fldArr j "ser").mapM (fun e => do
    let d ← topJV (← fld e "dict")
    let chunks ← fldStrs e "chunks"
    return (render d, chunks.map unhex))
  let imp ← (← fldArr j "imp").mapM (fun e => do
    return ((← fldStr e "name", render (toJV (← fld e "json"))), ← optStr (← fld e "val")))
  let exp ← (← fldArr j "exp").mapM (fun e => do
    return ((← fldStr e "name", ← fldStr e "val"), toJV (← fld e "json")))
  let wval ← (← fldArr j "wval").mapM (fun e => do
    return ((← fldStr e "name", ← fldStr e "val"), ← optStr (← fld e "res")))
  return ⟨parse, ser, imp, exp, wval⟩

def mkEnv (t : Tables) : Env String JsonNumber V :=
  { tgt := "T", tmp := "T.tmp",
    parse := fun b => (t.parse.lookup (hex b)).getD (some (.str missing)),
    ser := fun d => (t.ser.lookup (render (.obj d))).getD [missing.toUTF8.toList],
    same := sameDict,
    imp := fun n j => (t.imp.lookup (n, render j)).getD (some missing),
    exp := fun n v => (t.exp.lookup (n, v)).getD (.str missing),
    wval := fun n v => (t.wval.lookup (n, v)).getD (some missing) }

/-! ### requests -/
def parseFault (j : Json) : R (Option Fault) :=
  if j.isNull then pure none else do
    let after ← (← fldArr j "after").mapM (fun e => do
      match ← arr e with
      | [c, b] => return (unhex (← c.getStr?), ← b.getBool?)
      | _ => throw "bad after-write")
    return some ⟨← fldNat j "idx", unhex (← fldStr j "part"), after, ← fldBool j "cleanup"⟩

def parseParam (j : Json) : R (Param V) := do
  return { name := ← fldStr j "name", persistent := ← fldBool j "persistent", auto := ← fldBool j "auto",
           given := ← fldBool j "given", hasWrite := ← fldBool j "hasWrite", driver := ← fldBool j "driver", value := ← fldStr j "value" }

def parsePairs (j : Json) : R (List (String × V)) := do
  (← arr j).mapM (fun p => do
    match ← arr p with
    | [k, v] => return ((← k.getStr?), (← v.getStr?))
    | _ => throw "bad pair")

def parseAct (j : Json) : R (Act V × Option Fault) := do
  let f ← parseFault (← fld j "fault")
  match ← fldStr j "a" with
  | "set" => return (.set (← fldStr j "name") (← fldStr j "val"), f)
  | "save" => return (.save, f)
  | "writeInit" => return (.writeInit, f)
  | "load" => return (.load, f)
  | "factoryReset" => return (.factoryReset, f)
  | "seterr" => return (.seterr (← fldStr j "name"), f)
  | a => throw s!"bad action {a}"

/-- an element of a history: an action of the module, or `{"a": "wipe", "depth": k}`: the tree below the `k`-th directory
on the way from the log directory (`k = 0`) to the persistent file is removed -/
def parsePAct (tgt : Path) (j : Json) : R (PAct V) := do
  if (← fldStr j "a") == "wipe" then
    return .wipe ((parentDir tgt).take (← fldNat j "depth"))
  let (a, f) ← parseAct j
  return .act a f

/-- canonical names: the file derived from equipment id and module name is `T`, its temporary neighbour `T.tmp` -/
def nameOf (tgt : Path) (p : Path) : String :=
  if p = tgt then "T" else if p = tmpFile tgt then "T.tmp" else "/".intercalate p

def mapOp (f : Path → String) : FsOp Path → FsOp String
  | .openTrunc p => .openTrunc (f p)
  | .write p c => .write (f p) c
  | .close p => .close (f p)
  | .rename a b => .rename (f a) (f b)
  | .remove p => .remove (f p)

def jpairs (l : List (String × V)) : Json := jarr (l.map (fun (k, v) => jarr [Json.str k, Json.str v]))

def opJson : FsOp String → List Json
  | .openTrunc p => [Json.str "open", Json.str p]
  | .write p c => [Json.str "write", Json.str p, Json.str (hex c)]
  | .close p => [Json.str "close", Json.str p]
  | .rename s d => [Json.str "rename", Json.str s, Json.str d]
  | .remove p => [Json.str "remove", Json.str p]

def evJson (e : Ev String) : Json := jarr (opJson e.op ++ (if e.failed then [Json.str "FAULT"] else []))

/-- `dirs`: which of the directories from the log directory down to the directory of the file exist -/
def stepJson (tgt : Path) (o : StepOut Path JsonNumber V) (fs : FS Path) (dirs : List Path) : Json :=
  Json.mkObj [("evs", jarr (o.evs.map (fun e => evJson ⟨mapOp (nameOf tgt) e.op, e.failed⟩))), ("writes", jpairs o.writes),
    ("raised", Json.bool o.raised),
    ("values", jpairs (o.ms.params.map (fun p => (p.name, p.value)))), ("writeDict", jpairs o.ms.writeDict),
    ("hooks", jstrs o.ms.hooks),
    ("target", jbytes (fs tgt)), ("tmp", jbytes (fs (tmpFile tgt))),
    ("dirs", jarr ((prefixes (parentDir tgt)).map (fun d => Json.bool (decide (d ∈ dirs)))))]

def runHist (env : Env Path JsonNumber V) : PWorld JsonNumber V → List (PAct V) → List Json
  | _, [] => []
  | w, a :: rest =>
    let (o, w') := PWorld.step env w a
    stepJson env.tgt o w'.fs w'.dirs :: runHist env w' rest

def parsePath (j : Json) : R Path := do (← arr j).mapM (·.getStr?)
def jpath (p : Path) : Json := jstrs p

def parseObs (j : Json) : R (StartObs V) := do
  return { name := ← fldStr j "name", persistent := ← fldBool j "persistent", given := ← fldBool j "given",
           init := ← fldStr j "init", actual := ← fldStr j "actual" }

def parseReloadObs (j : Json) : R (ReloadObs V) := do
  return { name := ← fldStr j "name", persistent := ← fldBool j "persistent", hasWrite := ← fldBool j "hasWrite",
           before := ← fldStr j "before", held := ← fldStrs j "held", actual := ← fldStr j "actual" }

def handle (j : Json) : R Json := do
  let k ← fldStr j "k"
  match k with
  | "hist" =>
    -- start-up followed by a history; answers one object per step (step 0 = start-up)
    -- `eq`, `mod`: equipment id and module name (the place of the file is derived from them, `Small/PersistPlace`);
    -- `dirs0`: which directories exist before, from the log directory down to the directory of the file
    let eq := (j.getObjValAs? String "eq").toOption.getD "eq"
    let mod := (j.getObjValAs? String "mod").toOption.getD "m"
    let env := (mkEnv (← parseTables (← fld j "tables"))).placed eq mod
    let ps ← (← fldArr j "params").mapM parseParam
    let wd0 ← parsePairs (← fld j "wd0")
    let file ← optHex (← fld j "file")
    let stale ← optHex (← fld j "stale")
    let f0 ← parseFault (← fld j "fault")
    let acts ← (← fldArr j "acts").mapM (parsePAct env.tgt)
    let chain := prefixes (parentDir env.tgt)
    let have0 ← match j.getObjVal? "dirs0" with
      | .ok d => (← arr d).mapM (·.getBool?)
      | .error _ => pure (chain.map (fun _ => true))
    let ds0 := (chain.zip have0).filterMap (fun (d, b) => if b then some d else none)
    let fs0 : FS Path := fun p => if p = env.tgt then file else if p = env.tmp then stale else none
    let (o, ds1) := startUpAt env ds0 ps wd0 fs0 f0
    let fs1 := applyEvs fs0 o.evs
    return Json.mkObj [("steps", jarr (stepJson env.tgt o fs1 ds1 :: runHist env ⟨o.ms, fs1, ds1⟩ acts))]
  | "place" =>
    -- where the file of module `mod` of the node with equipment id `eq` lives (components below the log directory)
    let tgt := persistentFile (← fldStr j "eq") (← fldStr j "mod")
    return Json.mkObj [("file", jpath tgt), ("tmp", jpath (tmpFile tgt)), ("chain", jarr ((prefixes (parentDir tgt)).map jpath))]
  | "judge_place" =>
    -- one call that met no I/O failure: `tree` = every regular file below the log directory afterwards
    let eq ← fldStr j "eq"; let mod ← fldStr j "mod"
    let tree ← (← fldArr j "tree").mapM (fun e => do
      match ← arr e with
      | [p, c] => return ((← parsePath p), unhex (← c.getStr?))
      | _ => throw "bad tree entry")
    let o : PlaceObs := ⟨← fldBool j "raised", ← fldNat j "ops", tree⟩
    return Json.mkObj [("ok", Json.bool (savedWhereverB eq mod (unhex (← fldStr j "new")) o)),
                       ("stray", jarr ((strayFiles eq mod tree).map jpath)), ("file", jpath (persistentFile eq mod))]
  | "judge_snapshots" =>
    let old ← optHex (← fld j "old"); let new ← fldStr j "new"
    let snaps ← (← fldArr j "snaps").mapM optHex
    return Json.mkObj [("bad", jopt jnat (judgeSnapshots old (unhex new) snaps 0))]
  | "judge_litter" =>
    return Json.mkObj [("ok", Json.bool (noLitterB (← fldStr j "target") (← fldStrs j "listing")))]
  | "judge_retry" =>
    let new ← fldStr j "new"; let mid ← optHex (← fld j "mid"); let fin ← optHex (← fld j "fin")
    return Json.mkObj [("ok", Json.bool (retriedB (unhex new) mid fin (← fldNat j "ops2")))]
  | "judge_restore" =>
    -- `saved` is a list of alternatives (old snapshot, new snapshot): one of them must be restored entirely
    let alts ← (← fldArr j "saved").mapM parsePairs
    let restored ← parsePairs (← fld j "restored")
    return Json.mkObj [("ok", Json.bool (alts.any (fun s => restoresB s restored)))]
  | "judge_start" =>
    let t ← parseTables (← fld j "tables")
    let env := mkEnv t
    let file ← optHex (← fld j "file")
    let obs ← (← fldArr j "obs").mapM parseObs
    return Json.mkObj [("bad", jstrs (judgeStart env.parse env.imp file obs))]
  | "judge_reload" =>
    -- one call of loadParameters() in a running module: `file` = the file when it was called
    let env := mkEnv (← parseTables (← fld j "tables"))
    let file ← optHex (← fld j "file")
    let obs ← (← fldArr j "obs").mapM parseReloadObs
    return Json.mkObj [("restores", jstrs (judgeReloadRestores env.parse env.imp env.wval file obs)),
                       ("thisrun", jstrs (judgeReloadFromThisRun obs))]
  | _ => throw s!"C17: unknown verb {k}"

end Frappy.Drive.C17
