import FrappyDrive.Util
import FrappyModel.Spec.C14
import FrappyModel.Generated.C14
/- line-protocol glue for C14 -/
namespace Frappy.Drive.C14
open Lean Frappy.Drive Frappy.SM Frappy.States Frappy.Spec.C14

def parseStatus (j : Json) : R Status := do
  match ← arr j with
  | [c, t] => return (← c.getNat?, ← t.getStr?)
  | _ => throw "bad status"

def optStatus (j : Json) : R (Option Status) := if j.isNull then pure none else some <$> parseStatus j

def parseAttrs (j : Json) : R Attrs := do
  (← arr j).mapM fun p => do
    match ← arr p with
    | [k, v] => return (← k.getNat?, ← v.getInt?)
    | _ => throw "bad attr"

def parseReq (j : Json) : R Req := do
  match ← arr j with
  | [.str "start", s, cl, kw, ovr] => return .start (← s.getNat?) (← optNat cl) (← parseAttrs kw) (← optStatus ovr)
  | [.str "stop", st] => return .stop (← parseStatus st)
  | _ => throw s!"bad request {j.compress}"

def parseRet (j : Json) : R Ret :=
  match j with
  | .str "retry" => pure .retry
  | .str "finish" => pure .finish
  | .str "bad" => pure .bad
  | .str "raise" => pure .raise
  | _ => do
    match ← arr j with
    | [.str "next", s] => return .next (← s.getNat?)
    | _ => throw s!"bad ret {j.compress}"

def parseOutcome (j : Json) : R Outcome := do
  return { posts := ← (← fldArr j "posts").mapM parseReq, fin := ← optStatus (← fld j "fin"), ret := ← parseRet (← fld j "ret") }

def parseKind (j : Json) : R IKind :=
  match j with
  | .str "error" => pure .error
  | .str "stop" => pure .stop
  | .str "restart" => pure .restart
  | _ => throw "bad kind"

def optSid (j : Json) : R (Option Sid) := optNat j

def parseEv (j : Json) : R Ev := do
  match ← arr j with
  | [.str "post", r] => return .post (← parseReq r)
  | [.str "reqstart"] => return .reqStart
  | [.str "reqstop"] => return .reqStop
  | [.str "reqdone", b] => return .reqDone (← b.getBool?)
  | [.str "take"] => return .take
  | [.str "cb"] => return .cycleBegin
  | [.str "ce", a, p] => return .cycleEnd (← a.getBool?) (← p.getBool?)
  | [.str "call", s, i] => return .call (← s.getNat?) (← i.getBool?)
  | [.str "cleanup", c] => return .cleanup (← c.getNat?)
  | [.str "ret", r, f] => return .ret (← parseRet r) (← optStatus f)
  | [.str "int", k] => return .interrupt (← parseKind k)
  | [.str "enter", s] => return .enter (← optSid s)
  | [.str "pickup", s, cl, snap] => return .pickup (← s.getNat?) (← optNat cl) (← parseAttrs snap)
  | [.str "status", st] => return .status (← parseStatus st)
  | [.str "raised"] => return .raised
  | _ => throw s!"bad event {j.compress}"

def jstatus (st : Status) : Json := jarr [jnat st.1, Json.str st.2]
def jattrs (a : Attrs) : Json := jarr (a.map fun p => jarr [jnat p.1, jint p.2])
def jreq : Req → Json
  | .start s cl kw ovr => jarr [Json.str "start", jnat s, jopt jnat cl, jattrs kw, jopt jstatus ovr]
  | .stop st => jarr [Json.str "stop", jstatus st]
def jret : Ret → Json
  | .next s => jarr [Json.str "next", jnat s]
  | .retry => Json.str "retry"
  | .finish => Json.str "finish"
  | .bad => Json.str "bad"
  | .raise => Json.str "raise"
def jkind : IKind → Json
  | .error => Json.str "error"
  | .stop => Json.str "stop"
  | .restart => Json.str "restart"
def jev : Ev → Json
  | .post r => jarr [Json.str "post", jreq r]
  | .reqStart => jarr [Json.str "reqstart"]
  | .reqStop => jarr [Json.str "reqstop"]
  | .reqDone b => jarr [Json.str "reqdone", Json.bool b]
  | .take => jarr [Json.str "take"]
  | .cycleBegin => jarr [Json.str "cb"]
  | .cycleEnd a p => jarr [Json.str "ce", Json.bool a, Json.bool p]
  | .call s i => jarr [Json.str "call", jnat s, Json.bool i]
  | .cleanup c => jarr [Json.str "cleanup", jnat c]
  | .ret r f => jarr [Json.str "ret", jret r, jopt jstatus f]
  | .interrupt k => jarr [Json.str "int", jkind k]
  | .enter s => jarr [Json.str "enter", jopt jnat s]
  | .pickup s cl snap => jarr [Json.str "pickup", jnat s, jopt jnat cl, jattrs snap]
  | .status st => jarr [Json.str "status", jstatus st]
  | .raised => jarr [Json.str "raised"]

def parseOp (j : Json) : R Op := do
  match ← arr j with
  | [.str "cycle"] => return .cycle
  | [.str "req", r] => return .req (← parseReq r)
  | _ => throw s!"bad op {j.compress}"

/-- the cleanup id that stands for the mixin's default cleanup `HasStates.on_cleanup` (no `cleanup=` given to `start_machine`) -/
def defaultClean : Cid := 2

/-- number of scripted user function calls (state and cleanup functions) in a history -/
def userCalls (tr : List Ev) : Nat :=
  (tr.filter fun e => match e with | .call _ _ => true | .cleanup c => c != defaultClean | _ => false).length

/-- `HasStates.on_cleanup` (states.py 152-186): dispatches on the class of `cleanup_reason` — an exception: `on_error`
    calls `final_status(ERROR, repr(reason))` and returns `None`; `Start`: `on_restart`, `Stop`: `on_stop`, both return `None`.  The reason is that of the interruption that called the cleanup. -/
def onCleanup (tr : List Ev) : Outcome :=
  match tr.reverse.find? (fun e => match e with | .interrupt _ => true | _ => false) with
  | some (.interrupt .error) => { posts := [], fin := some (Generated.C14.errorCode, "<reason>"), ret := .bad }
  | _ => { posts := [], fin := none, ret := .bad }

def lookupNat {α : Type} (tab : List (Nat × α)) (k : Nat) : Option α := (tab.find? (·.1 == k)).map (·.2)

structure Setup where
  cfg : Cfg
  idle : Status

def parseSetup (j : Json) : R Setup := do
  let ml ← fldNat j "maxloops"
  let hs ← fldBool j "hasStates"
  let stat ← (← fldArr j "statusOf").mapM fun p => do
    match ← arr p with
    | [s, st] => return ((← s.getNat?), (← parseStatus st))
    | _ => throw "bad statusOf"
  let labels ← (← fldArr j "labels").mapM fun p => do
    match ← arr p with
    | [s, l] => return ((← s.getNat?), (← l.getStr?))
    | _ => throw "bad label"
  let rules : Rules := { statusOf := lookupNat stat, label := fun s => (lookupNat labels s).getD "",
                         busy := Generated.C14.busyCode, error := Generated.C14.errorCode }
  let idle ← parseStatus (← fld j "idle")
  return { cfg := { maxloops := ml, hasStates := hs, rules := rules }, idle := idle }

/-- the scripted program: the `n`-th call of a user function (state or cleanup) behaves as `script[n]`;
    past the end of the script a state function returns `Retry` and a cleanup function `None` -/
def scripted (script : Array Outcome) (env : List (Nat × List Req)) : Prog :=
  { state := fun tr _ => script.getD (userCalls tr - 1) { posts := [], fin := none, ret := .retry },
    clean := fun tr c => if c = defaultClean then onCleanup tr
                         else script.getD (userCalls tr - 1) { posts := [], fin := none, ret := .bad },
    env := fun n => (lookupNat env n).getD [] }

def jviol (v : Nat × Clause) : Json := jarr [jnat v.1, Json.str v.2.name]

def handle (j : Json) : R Json := do
  let k ← fldStr j "k"
  let su ← parseSetup j
  match k with
  | "run" =>
    let script ← (← fldArr j "script").mapM parseOutcome
    let env ← (← fldArr j "env").mapM fun p => do
      match ← arr p with
      | [n, rs] => return ((← n.getNat?), (← (← arr rs).mapM parseReq))
      | _ => throw "bad env"
    let ops ← (← fldArr j "ops").mapM parseOp
    let σ := run su.cfg (scripted script.toArray env) (SM.initial su.idle) ops
    return Json.mkObj [("trace", jarr (σ.trace.map jev)),
                       ("bad", jarr ((judge su.idle su.cfg.maxloops su.cfg.hasStates su.cfg.rules σ.trace).map jviol))]
  | "judge" =>
    let tr ← (← fldArr j "trace").mapM parseEv
    return Json.mkObj [("bad", jarr ((judge su.idle su.cfg.maxloops su.cfg.hasStates su.cfg.rules tr).map jviol))]
  | "isbusy" =>
    -- `Drivable.isBusy(status)` for a list of status codes
    let codes ← (← fldArr j "codes").mapM fun c => c.getNat?
    return Json.mkObj [("busy", jarr (codes.map fun c => Json.bool (isBusy su.cfg.rules (c, ""))))]
  | "judge_isbusy" =>
    let table ← (← fldArr j "table").mapM fun p => do
      match ← arr p with
      | [c, b] => return ((← c.getNat?), (← b.getBool?))
      | _ => throw "bad table"
    return Json.mkObj [("bad", jarr ((busyPredicateBad su.cfg.rules table).map jnat))]
  | "getstatus" =>
    -- a sequence of `get_status(st_<s>, default_code)` lookups on one fresh module instance: results and `statusMap`
    let qs ← (← fldArr j "lookups").mapM fun p => do
      match ← arr p with
      | [s, d] => return ((← s.getNat?), (← optNat d))
      | _ => throw "bad lookup"
    let res := lookups su.cfg.rules [] qs
    let cache := res.2.mergeSort (fun a b => a.1 ≤ b.1)
    return Json.mkObj [("results", jarr (res.1.map (jopt jstatus))),
                       ("cache", jarr (cache.map fun p => jarr [jnat p.1, jopt jstatus p.2]))]
  | _ => throw s!"C14: unknown verb {k}"

end Frappy.Drive.C14
