import FrappyDrive.Util
import FrappyDrive.FloatInst
import FrappyModel.Datatypes.Types
/-
Line-protocol encoding of datatype trees and values (shared glue; not part of any theorem).

values (`PVal`):  `null` | `true/false` | integer | `{"f": <64-bit pattern>}` | `"str"` | `{"b": "<hex>"}` |
                  `{"t": [..]}` (tuple) | `[..]` (list) | `{"d": [[key, value], ..]}` (dict) | `{"e": [name, value]}`
JSON values (`JVal`): the same encoding restricted to null/bool/integer/float/str/list/dict.
datatype trees:   `{"t": "double", "min": f, "max": f, "ar": f, "rr": f}`, `{"t": "int", "min": i, "max": i}`,
                  `{"t": "scaled", "scale": f, "min": f, "max": f, "ar": f, "rr": f}`, `{"t": "bool"}`,
                  `{"t": "enum", "members": [[name, value], ..]}`, `{"t": "string", "min": n, "max": n, "utf8": b}`,
                  `{"t": "blob", "min": n, "max": n}`, `{"t": "array", "elem": T, "min": n, "max": n}`,
                  `{"t": "tuple", "elems": [T, ..]}`, `{"t": "struct", "members": [[name, T], ..], "optional": [..], "client": b}`
-/
namespace Frappy.Drive
open Lean

def floatOfJson (j : Json) : R Float := do
  let b ← fldNat j "f"
  return Float.ofBits b.toUInt64

def floatToJson (x : Float) : Json := Json.mkObj [("f", jnat x.toBits.toNat)]

def hexDigit (c : Char) : R Nat :=
  if '0' ≤ c ∧ c ≤ '9' then pure (c.toNat - '0'.toNat)
  else if 'a' ≤ c ∧ c ≤ 'f' then pure (c.toNat - 'a'.toNat + 10)
  else throw s!"bad hex digit {c}"

def hexDecode : List Char → R (List UInt8)
  | [] => pure []
  | [_] => throw "odd hex length"
  | a :: b :: rest => do
    let x ← hexDigit a; let y ← hexDigit b
    return (x * 16 + y).toUInt8 :: (← hexDecode rest)

def hexEncode (b : List UInt8) : String :=
  let d (n : Nat) : Char := if n < 10 then Char.ofNat (n + 48) else Char.ofNat (n + 87)
  String.ofList (b.flatMap (fun x => [d (x.toNat / 16), d (x.toNat % 16)]))

partial def pvalOfJson (j : Json) : R (PVal Float) :=
  match j with
  | .null => pure .none
  | .bool b => pure (.bool b)
  | .num _ => do return .int (← j.getInt?)
  | .str s => pure (.str s)
  | .arr a => do return .list (← a.toList.mapM pvalOfJson)
  | .obj _ =>
    match j.getObjVal? "f", j.getObjVal? "b", j.getObjVal? "t", j.getObjVal? "d", j.getObjVal? "e" with
    | .ok _, _, _, _, _ => do return .float (← floatOfJson j)
    | _, .ok h, _, _, _ => do return .bytes (← hexDecode (← h.getStr?).toList)
    | _, _, .ok t, _, _ => do return .tuple (← (← arr t).mapM pvalOfJson)
    | _, _, _, .ok d, _ => do
      let items ← (← arr d).mapM (fun kv => do
        match ← arr kv with
        | [k, v] => return ((← k.getStr?), (← pvalOfJson v))
        | _ => throw "bad dict item")
      return .dict items
    | _, _, _, _, .ok e => do
      match ← arr e with
      | [n, v] => return .enum (← n.getStr?) (← v.getInt?)
      | _ => throw "bad enum"
    | _, _, _, _, _ => throw s!"bad value {j.compress}"

partial def pvalToJson : PVal Float → Json
  | .none => .null
  | .bool b => .bool b
  | .int i => jint i
  | .float x => floatToJson x
  | .str s => .str s
  | .bytes b => Json.mkObj [("b", .str (hexEncode b))]
  | .tuple l => Json.mkObj [("t", jarr (l.map pvalToJson))]
  | .list l => jarr (l.map pvalToJson)
  | .dict d => Json.mkObj [("d", jarr (d.map (fun (k, v) => jarr [.str k, pvalToJson v])))]
  | .enum n v => Json.mkObj [("e", jarr [.str n, jint v])]

partial def jvalOfJson (j : Json) : R (JVal Float) :=
  match j with
  | .null => pure .null
  | .bool b => pure (.bool b)
  | .num _ => do return .int (← j.getInt?)
  | .str s => pure (.str s)
  | .arr a => do return .arr (← a.toList.mapM jvalOfJson)
  | .obj _ =>
    match j.getObjVal? "f", j.getObjVal? "d" with
    | .ok _, _ => do return .num (← floatOfJson j)
    | _, .ok d => do
      let items ← (← arr d).mapM (fun kv => do
        match ← arr kv with
        | [k, v] => return ((← k.getStr?), (← jvalOfJson v))
        | _ => throw "bad dict item")
      return .obj items
    | _, _ => throw s!"not a JSON value {j.compress}"

partial def jvalToJson : JVal Float → Json
  | .null => .null
  | .bool b => .bool b
  | .int i => jint i
  | .num x => floatToJson x
  | .str s => .str s
  | .arr l => jarr (l.map jvalToJson)
  | .obj d => Json.mkObj [("d", jarr (d.map (fun (k, v) => jarr [.str k, jvalToJson v])))]

def optPVal (j : Json) : R (Option (PVal Float)) :=
  if j.isNull then pure none else some <$> pvalOfJson j

partial def dtypeOfJson (j : Json) : R (DType Float) := do
  let t ← fldStr j "t"
  let ff (k : String) : R Float := do floatOfJson (← fld j k)
  match t with
  | "double" => return .double (← ff "min") (← ff "max") (← ff "ar") (← ff "rr")
  | "int" => return .int (← fldInt j "min") (← fldInt j "max")
  | "scaled" => return .scaled (← ff "scale") (← ff "min") (← ff "max") (← ff "ar") (← ff "rr")
  | "bool" => return .bool
  | "enum" =>
    let ms ← (← fldArr j "members").mapM (fun kv => do
      match ← arr kv with
      | [k, v] => return ((← k.getStr?), (← v.getInt?))
      | _ => throw "bad enum member")
    return .enum ms
  | "string" => return .string (← fldNat j "min") (← fldNat j "max") (← fldBool j "utf8")
  | "blob" => return .blob (← fldNat j "min") (← fldNat j "max")
  | "array" => return .array (← dtypeOfJson (← fld j "elem")) (← fldNat j "min") (← fldNat j "max")
  | "tuple" => return .tuple (← (← fldArr j "elems").mapM dtypeOfJson)
  | "struct" =>
    let ms ← (← fldArr j "members").mapM (fun kv => do
      match ← arr kv with
      | [k, v] => return ((← k.getStr?), (← dtypeOfJson v))
      | _ => throw "bad struct member")
    return .struct ms (← fldStrs j "optional") (← fldBool j "client")
  | _ => throw s!"unknown datatype kind {t}"

partial def dtypeToJson : DType Float → Json
  | .double mn mx ar rr => Json.mkObj [("t", "double"), ("min", floatToJson mn), ("max", floatToJson mx),
      ("ar", floatToJson ar), ("rr", floatToJson rr)]
  | .int mn mx => Json.mkObj [("t", "int"), ("min", jint mn), ("max", jint mx)]
  | .scaled s mn mx ar rr => Json.mkObj [("t", "scaled"), ("scale", floatToJson s), ("min", floatToJson mn),
      ("max", floatToJson mx), ("ar", floatToJson ar), ("rr", floatToJson rr)]
  | .bool => Json.mkObj [("t", "bool")]
  | .enum ms => Json.mkObj [("t", "enum"), ("members", jarr (ms.map (fun (k, v) => jarr [.str k, jint v])))]
  | .string mn mx u => Json.mkObj [("t", "string"), ("min", jnat mn), ("max", jnat mx), ("utf8", .bool u)]
  | .blob mn mx => Json.mkObj [("t", "blob"), ("min", jnat mn), ("max", jnat mx)]
  | .array e mn mx => Json.mkObj [("t", "array"), ("elem", dtypeToJson e), ("min", jnat mn), ("max", jnat mx)]
  | .tuple es => Json.mkObj [("t", "tuple"), ("elems", jarr (es.map dtypeToJson))]
  | .struct ms opt c => Json.mkObj [("t", "struct"),
      ("members", jarr (ms.map (fun (k, v) => jarr [.str k, dtypeToJson v]))),
      ("optional", jstrs opt), ("client", .bool c)]

end Frappy.Drive
