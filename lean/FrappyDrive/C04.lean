import FrappyDrive.Util
import FrappyDrive.DTypes
import FrappyModel.Spec.C04
import FrappyModel.Generated.C04
/- line-protocol glue for C04 (and the node parser shared with C06).
Wire values (`J`) and Python-side values (`V`) travel as canonical strings made by the harness; the
datatype / hook oracles are tables of results of the REAL datatype methods, looked up by the model. -/
namespace Frappy.Drive.C04
open Lean Frappy.Drive Frappy.Node Frappy.Spec.C04

abbrev JJ := String
abbrev VV := String

def predef : Predef :=
  Generated.C04.predefined.map (fun e => (e.1, match e.2 with
    | .parameter => Kind.parameter
    | .command => Kind.command))

def clsOfKey : String → Option ErrCls
  | "noSuchModule" => some .noSuchModule
  | "noSuchParameter" => some .noSuchParameter
  | "noSuchCommand" => some .noSuchCommand
  | "readOnly" => some .readOnly
  | "wrongType" => some .wrongType
  | "rangeError" => some .rangeError
  | "protocol" => some .protocol
  | "internal" => some .internal
  | _ => none

def keyOfCls : ErrCls → String
  | .noSuchModule => "noSuchModule" | .noSuchParameter => "noSuchParameter" | .noSuchCommand => "noSuchCommand"
  | .readOnly => "readOnly" | .wrongType => "wrongType" | .rangeError => "rangeError"
  | .protocol => "protocol" | .internal => "internal" | .other s => s

/-- SECoP class name ↦ model class, through the generated table -/
def clsOfName (s : String) : ErrCls :=
  match Generated.C04.errorNames.find? (fun e => e.2 == s) with
  | some e => (clsOfKey e.1).getD (.other s)
  | none => .other s

def nameOfCls (c : ErrCls) : String :=
  match c with
  | .other s => s
  | c => match Generated.C04.errorNames.find? (fun e => e.1 == keyOfCls c) with
    | some e => e.2
    | none => keyOfCls c

/-! ### oracle tables -/

def sep : String := "\x01"
def mkKey (parts : List String) : String := sep.intercalate parts
def optKey : Option String → String
  | some s => "S" ++ s
  | none => "N"

abbrev Table (α : Type) := List (String × α)
def Table.get {α : Type} (t : Table α) (k : String) : Option α := (t.find? (fun e => e.1 == k)).map (·.2)

structure Tables where
  accept : Table (Except Node.Err VV) := []      -- mod, attr, j, prev
  reval : Table (Except Node.Err VV) := []       -- mod, attr, v
  convert : Table (Except Node.Err VV) := []     -- mod, attr, raw
  exportT : Table JJ := []                   -- mod, attr, v
  cmdaccept : Table (Except Node.Err VV) := []   -- mod, attr, j
  cmdconvert : Table (Except Node.Err VV) := []  -- mod, attr, raw
  cmdexport : Table JJ := []                -- mod, attr, v
  le : Table Bool := []
  lt : Table Bool := []
  split : Table (VV × VV) := []
  chk : Table CheckRes := []                -- mod, attr, id, v

def miss (what key : String) : Node.Err := ⟨.internal, s!"ORACLE-MISS {what} {key.replace sep "|"}"⟩

def parseErr (a : List Json) : R Node.Err :=
  match a with
  | [_, .str cls, .str ident] => pure ⟨clsOfName cls, ident⟩
  | _ => throw "bad error"

def parseRes (j : Json) : R (Except Node.Err VV) := do
  let a ← arr j
  match a with
  | [.str "ok", .str v] => return .ok v
  | .str "err" :: _ => return .error (← parseErr a)
  | _ => throw s!"bad result {j.compress}"

def strs (j : Json) : R (List String) := do (← arr j).mapM (fun x => x.getStr?)
def optS (j : Json) : R (Option String) := optStr j

def parseTable {α : Type} (j : Json) (k : String) (nkey : Nat) (keyf : List Json → R String) (valf : List Json → R α) :
    R (Table α) := do
  match j.getObjVal? k with
  | .error _ => return []
  | .ok t =>
    (← arr t).mapM (fun row => do
      let r ← arr row
      return (← keyf (r.take nkey), ← valf (r.drop nkey)))

def keyStrs (l : List Json) : R String := do return mkKey (← l.mapM (fun x => x.getStr?))

def one {α : Type} (f : Json → R α) : List Json → R α := fun l => match l with | [x] => f x | _ => throw "bad row"

def parseTables (j : Json) : R Tables := do
  let accept ← parseTable j "accept" 4 (fun l => match l with
      | [m, a, p, prev] => do return mkKey [← m.getStr?, ← a.getStr?, ← p.getStr?, optKey (← optS prev)]
      | _ => throw "bad accept key") (one parseRes)
  let reval ← parseTable j "reval" 3 keyStrs (one parseRes)
  let rawKey : List Json → R String := fun l => match l with
      | [m, a, raw] => do return mkKey [← m.getStr?, ← a.getStr?, optKey (← optS raw)]
      | _ => throw "bad raw key"
  let convert ← parseTable j "convert" 3 rawKey (one parseRes)
  let exportT ← parseTable j "export" 3 keyStrs (one (·.getStr?))
  let cmdaccept ← parseTable j "cmdaccept" 3 keyStrs (one parseRes)
  let cmdconvert ← parseTable j "cmdconvert" 3 rawKey (one parseRes)
  let cmdexport ← parseTable j "cmdexport" 3 keyStrs (one (·.getStr?))
  let le ← parseTable j "le" 2 keyStrs (one (·.getBool?))
  let lt ← parseTable j "lt" 2 keyStrs (one (·.getBool?))
  let split ← parseTable j "split" 1 keyStrs (fun l => match l with
      | [.str a, .str b] => pure (a, b)
      | _ => throw "bad split")
  let chk ← parseTable j "chk" 4 (fun l => match l with
      | [m, a, i, v] => do return mkKey [← m.getStr?, ← a.getStr?, toString (← i.getNat?), ← v.getStr?]
      | _ => throw "bad chk key") (one (fun x => match x with
      | .str "pass" => pure CheckRes.pass
      | .str "stop" => pure CheckRes.stop
      | .arr a => do return CheckRes.raise (← parseErr a.toList)
      | _ => throw "bad chk"))
  return { accept, reval, convert, exportT, cmdaccept, cmdconvert, cmdexport, le, lt, split, chk }

def lookR (t : Table (Except Node.Err VV)) (what key : String) : Except Node.Err VV := (t.get key).getD (.error (miss what key))

def mkDt (t : Tables) (mod attr : String) (datainfo : JJ) : DtOps JJ VV where
  accept := fun j prev => lookR t.accept "accept" (mkKey [mod, attr, j, optKey prev])
  revalidate := fun v => lookR t.reval "reval" (mkKey [mod, attr, v])
  convert := fun raw => lookR t.convert "convert" (mkKey [mod, attr, optKey raw])
  exportV := fun v => (t.exportT.get (mkKey [mod, attr, v])).getD ("ORACLE-MISS export " ++ v)
  datainfo := datainfo

/-! ### the node -/

def parseExp (j : Json) : R ExportSetting := do
  match ← arr j with
  | [.str "no"] => return .no
  | [.str "auto"] => return .auto
  | [.str "custom", .str s] => return .custom s
  | _ => throw "bad export setting"

def parseProps (j : Json) : R (List (String × JJ)) := do
  match j.getObjVal? "props" with
  | .error _ => return []
  | .ok p => (← arr p).mapM (fun row => do
      match ← arr row with
      | [.str k, .str v] => return (k, v)
      | _ => throw "bad prop")

def parseCheck (j : Json) : R Check :=
  match j with
  | .str "limits" => pure .limits
  | _ => do return .hook (← j.getNat?)

/-- one class of the MRO as far as one parameter is concerned: `[declares <p>_min, declares <p>_max, declares <p>_limits,
defines check_<p>]` (the layout of C18) -/
def parseLayer (j : Json) : R Frappy.ExtParams.Layer := do
  match (← arr j) with
  | [a, b, c, d] => return { declMin := ← a.getBool?, declMax := ← b.getBool?, declLimits := ← c.getBool?, ownCheck := ← d.getBool? }
  | _ => throw "bad layer"

/-- the chain of check functions: computed by the model from the class layout (`layers`, MRO order) when the harness
gives one (generated classes); else taken as data (`checks`; shipped configurations of C06) -/
def parseChecks (j : Json) : R (List Check) := do
  match j.getObjVal? "layers" with
  | .ok (.arr ls) => return chainOf (← ls.toList.mapM parseLayer) 0
  | _ => (← fldArr j "checks").mapM parseCheck

def parseAcc (t : Tables) (mod : String) (j : Json) : R (Acc JJ VV) := do
  let kind ← fldStr j "kind"
  let attr ← fldStr j "attr"
  let exp ← parseExp (← fld j "exp")
  let datainfo ← fldStr j "datainfo"
  let props ← parseProps j
  if kind == "param" then
    let re ← fld j "readerror"
    let readerror ← if re.isNull then pure none else do
      match ← arr re with
      | [.str cls, .str ident] => pure (some (Node.Err.mk (clsOfName cls) ident))
      | _ => throw "bad readerror"
    return .param {
      attr, exp, limitHead := ← optS (← fld j "limitHead"),
      isLimitsPair := (match j.getObjVal? "isLimitsPair" with | .ok (.bool b) => b | _ => false),
      readonly := ← fldBool j "readonly",
      constant := ← optS (← fld j "constant"), dt := mkDt t mod attr datainfo,
      entry := ⟨← fldStr j "value", readerror⟩, checks := ← parseChecks j,
      hasRead := ← fldBool j "hasRead", hasWrite := ← fldBool j "hasWrite", props }
  else
    let hasArg ← fldBool j "hasArg"
    let hasRes ← fldBool j "hasRes"
    return .command {
      attr, exp, datainfo, props,
      arg := if hasArg then some ⟨fun p => lookR t.cmdaccept "cmdaccept" (mkKey [mod, attr, p])⟩ else none,
      res := if hasRes then some ⟨fun raw => lookR t.cmdconvert "cmdconvert" (mkKey [mod, attr, optKey raw]),
                                  fun v => (t.cmdexport.get (mkKey [mod, attr, v])).getD ("ORACLE-MISS cmdexport " ++ v)⟩
             else none }

def parseModule (t : Tables) (j : Json) : R (Module JJ VV) := do
  let name ← fldStr j "name"
  let mro ← match j.getObjVal? "mro" with
    | .error _ => pure []
    | .ok a => (← arr a).mapM (fun row => do
        match ← arr row with
        | [.str c, .bool f] => return (ClassInfo.mk c f)
        | _ => throw "bad mro entry")
  return { name, exported := ← fldBool j "exported", accs := ← (← fldArr j "accs").mapM (parseAcc t name),
           props := ← parseProps j, mro }

def parseNode (t : Tables) (j : Json) : R (Node JJ VV) := do (← fldArr j "modules").mapM (parseModule t)

/-! ### requests, driver behaviour, observations -/

def parseDrv (j : Json) : R (DriverResult VV) :=
  match j with
  | .str "none" => pure .none
  | .str "done" => pure .done
  | .arr a => match a.toList with
    | [.str "value", .str v] => pure (.value v)
    | .str "raise" :: rest => do return .raise (← parseErr (Json.null :: rest))
    | _ => throw "bad drv"
  | _ => throw "bad drv"

def mkEnv (t : Tables) (drv : DriverResult VV) : Env VV where
  drv := fun _ => drv
  chk := fun m a i v => (t.chk.get (mkKey [m, a, toString i, v])).getD (.raise (miss "chk" (mkKey [m, a, toString i, v])))
  le := fun a b => (t.le.get (mkKey [a, b])).getD false
  lt := fun a b => (t.lt.get (mkKey [a, b])).getD false
  split := fun v => (t.split.get v).getD ("ORACLE-MISS split", "ORACLE-MISS split")

def parseReq (j : Json) : R (Request JJ VV) := do
  match ← arr j with
  | [.str "change", spec, .str p] => return .change (parseSpec (← optS spec)) p
  | [.str "do", spec, data] => return .do_ (parseSpec (← optS spec)) (← optS data)
  | [.str "read", spec, .bool b] => return .read (parseSpec (← optS spec)) b
  | [.str "assign", .str m, .str a, raw] => return .assign m a (← optS raw)
  | _ => throw s!"bad request {j.compress}"

def replyJson : Reply JJ → Json
  | .changed j => jarr [Json.str "changed", Json.str j]
  | .done j => jarr [Json.str "done", jopt Json.str j]
  | .read j => jarr [Json.str "reply", Json.str j]
  | .error c => jarr [Json.str "error", Json.str (nameOfCls c)]

def callJson : DriverCall VV → Json
  | .write m p v => jarr [Json.str "write", Json.str m, Json.str p, Json.str v]
  | .read m p => jarr [Json.str "read", Json.str m, Json.str p]
  | .cmd m c a => jarr [Json.str "cmd", Json.str m, Json.str c, jopt Json.str a]

def msgJson : Msg JJ → Json
  | .update m w j => jarr [Json.str "update", Json.str m, Json.str w, Json.str j]
  | .errorUpdate m w c => jarr [Json.str "error_update", Json.str m, Json.str w, Json.str (nameOfCls c)]

def cacheJson (c : Cache VV) : Json :=
  jarr (c.flatMap (fun me => me.2.map (fun ae =>
    jarr [Json.str me.1, Json.str ae.1, Json.str ae.2.value, jopt (fun e : Node.Err => Json.str (nameOfCls e.cls)) ae.2.readerror])))

def checkJson : Check → Json
  | .limits => Json.str "limits"
  | .hook i => jnat i

/-- the check chains of the node as the model has them: `[module, attribute, chain]` -/
def chainsJson (n : Node JJ VV) : Json :=
  jarr (n.flatMap (fun m => m.accs.filterMap (fun a => match a with
    | .param p => some (jarr [Json.str m.name, Json.str p.attr, jarr (p.checks.map checkJson)])
    | .command _ => none)))

def outJson (o : Outcome JJ VV) : Json :=
  Json.mkObj [("reply", replyJson o.reply), ("calls", jarr (o.calls.map callJson)),
              ("emits", jarr (o.emits.map msgJson)), ("after", cacheJson (cache o.node))]

def parseReply (j : Json) : R (Reply JJ) := do
  match ← arr j with
  | [.str "changed", .str v] => return .changed v
  | [.str "done", v] => return .done (← optS v)
  | [.str "reply", .str v] => return .read v
  | [.str "error", .str c] => return .error (clsOfName c)
  | _ => throw s!"bad reply {j.compress}"

def parseCall (j : Json) : R (DriverCall VV) := do
  match ← arr j with
  | [.str "write", .str m, .str p, .str v] => return .write m p v
  | [.str "read", .str m, .str p] => return .read m p
  | [.str "cmd", .str m, .str c, a] => return .cmd m c (← optS a)
  | _ => throw s!"bad call {j.compress}"

def parseMsg (j : Json) : R (Msg JJ) := do
  match ← arr j with
  | [.str "update", .str m, .str w, .str v] => return .update m w v
  | [.str "error_update", .str m, .str w, .str c] => return .errorUpdate m w (clsOfName c)
  | _ => throw s!"bad msg {j.compress}"

/-- rows `[mod, attr, value, readerror class | null]` -/
def parseCacheRows (j : Json) : R (List (String × String × VV × Option String)) := do
  (← arr j).mapM (fun row => do
    match ← arr row with
    | [.str m, .str a, .str v, e] => return (m, a, v, ← optS e)
    | _ => throw "bad cache row")

/-- the node with the cache the implementation had (the identity of a stored error is not observed: its class is) -/
def withCache (n : Node JJ VV) (rows : List (String × String × VV × Option String)) : Node JJ VV :=
  rows.foldl (fun n r => setEntry n r.1 r.2.1 ⟨r.2.2.1, r.2.2.2.map (fun c => ⟨clsOfName c, ""⟩)⟩) n

def stripIdent (c : Cache VV) : Cache VV :=
  c.map (fun me => (me.1, me.2.map (fun ae => (ae.1, { ae.2 with readerror := ae.2.readerror.map (fun e => ⟨e.cls, ""⟩) }))))

def runSteps (n : Node JJ VV) : List (Env VV × Request JJ VV) → List (Outcome JJ VV) := run predef n

/-- rows `[step, mod, attr, payload, previous, {"ok": value} | {"err": class}]` of the accept oracle, for parameters
whose datatype tree is given in `dtrees` (`[mod, attr, tree]`): first row the datatype model (C01) disagrees with -/
def checkAcceptRows (j : Json) : R (Option (Nat × String)) := do
  let trees ← match j.getObjVal? "dtrees" with
    | .error _ => pure []
    | .ok t => (← arr t).mapM (fun row => do
        match ← arr row with
        | [.str m, .str a, tree] => return (mkKey [m, a], ← dtypeOfJson tree)
        | _ => throw "bad dtree row")
  let rows ← match j.getObjVal? "acceptck" with
    | .error _ => pure []
    | .ok t => arr t
  for row in rows do
    match ← arr row with
    | [step, .str m, .str a, payload, prev, res] =>
      match (trees.find? (fun e => e.1 == mkKey [m, a])).map (·.2) with
      | none => pure ()
      | some dt =>
        let jv ← jvalOfJson payload
        let pv ← optPVal prev
        let impl : Except Frappy.Err (PVal Float) ← match res.getObjVal? "ok", res.getObjVal? "err" with
          | .ok v, _ => do pure (.ok (← pvalOfJson v))
          | _, .ok (.str "RangeError") => pure (.error .range)
          | _, .ok (.str "WrongType") => pure (.error .wrongType)
          | _, .ok (.str c) => pure (.error (.other c))
          | _, _ => throw "bad accept result"
        if !(acceptFaithfulB dt jv pv impl) then
          let model := match Frappy.Datatypes.acceptWire dt jv pv with
            | .ok v => (pvalToJson v).compress
            | .error .range => "RangeError"
            | .error .wrongType => "WrongType"
            | .error (.other c) => c
          return some (← step.getNat?, s!"accept-oracle {m}.{a}: the datatype model says {model}, the implementation {res.compress}")
    | _ => throw "bad acceptck row"
  return none

/-! ### forwarded writes (`Node/Forward.lean`): values of struct parameters travel as `d␂key␃value␂key␃value…` (keys sorted),
so that the member is put into / taken out of the struct HERE -/

open Frappy.Node.Forward in
def fsep : String := "\x02"
def kvsep : String := "\x03"

def structParts (s : String) : Option (List (String × String)) :=
  match s.splitOn fsep with
  | "d" :: rest => some (rest.map (fun seg => match seg.splitOn kvsep with
      | [k, v] => (k, v)
      | _ => (seg, "MALFORMED")))
  | _ => none

def structStr (l : List (String × String)) : String :=
  fsep.intercalate ("d" :: l.map (fun kv => kv.1 ++ kvsep ++ kv.2))

def fwdOps (closest : Table VV) : Forward.ValOps VV where
  get := fun s k => (structParts s).bind (fun l => (l.find? (fun kv => kv.1 == k)).map (·.2))
  set := fun s k x => match structParts s with
    | some l => structStr (if l.any (fun kv => kv.1 == k) then l.map (fun kv => if kv.1 == k then (k, x) else kv) else l ++ [(k, x)])
    | none => "NOT-A-STRUCT " ++ s
  closest := fun m a v => (closest.get (mkKey [m, a, v])).getD ("ORACLE-MISS closest " ++ v)

def parseBody (j : Json) : R Forward.Body :=
  match j with
  | .str "absent" => pure .absent
  | .str "driver" => pure .driver
  | .arr a => match a.toList with
    | [.str "toStruct", .str s, .str k] => pure (.toStruct s k)
    | [.str "toIndex", .str i] => pure (.toIndex i)
    | [.str "toMembers", .arr ms] => do
      return .toMembers (← ms.toList.mapM (fun e => do
        match ← arr e with
        | [.str k, .str a] => return (k, a)
        | _ => throw "bad member"))
    | _ => throw "bad body"
  | _ => throw "bad body"

/-- rows `[module, attribute, body]`; an attribute not listed has no `write_` method -/
def parseBodies (j : Json) : R (String → String → Forward.Body) := do
  let rows ← (← arr j).mapM (fun row => do
    match ← arr row with
    | [.str m, .str a, b] => return (mkKey [m, a], ← parseBody b)
    | _ => throw "bad body row")
  return fun m a => ((rows.find? (fun e => e.1 == mkKey [m, a])).map (·.2)).getD .absent

def fwdFuel : Nat := 8

def parseObs (n : Node JJ VV) (o : Json) : R (Node JJ VV × Obs JJ VV) := do
  let before ← parseCacheRows (← fld o "before")
  let after ← parseCacheRows (← fld o "after")
  let nb := withCache n before
  let na := withCache n after
  return (nb, ⟨← parseReply (← fld o "reply"), ← (← fldArr o "calls").mapM parseCall,
    ← (← fldArr o "emits").mapM parseMsg, stripIdent (cache nb), stripIdent (cache na)⟩)

def handle (j : Json) : R Json := do
  let k ← fldStr j "k"
  match k with
  | "history" =>
    let t ← parseTables (← fld j "oracle")
    let n ← parseNode t (← fld j "node")
    let steps ← (← fldArr j "steps").mapM (fun s => do
      return (mkEnv t (← parseDrv (← fld s "drv")), ← parseReq (← fld s "req")))
    return Json.mkObj [("outs", jarr ((runSteps n steps).map outJson)), ("before", cacheJson (cache n)),
      ("chains", chainsJson n), ("wf", Json.bool (wfB predef n))]
  | "judge" =>
    -- every recorded exchange of the implementation against the specification, on the implementation's own cache
    let t ← parseTables (← fld j "oracle")
    let n ← parseNode t (← fld j "node")
    let steps ← fldArr j "steps"
    let mut i := 0
    let mut bad : Option (Nat × String) := none
    for s in steps do
      let req ← parseReq (← fld s "req")
      let o ← fld s "obs"
      let before ← parseCacheRows (← fld o "before")
      let after ← parseCacheRows (← fld o "after")
      let nb := withCache n before
      let na := withCache n after
      let obs : Obs JJ VV := ⟨← parseReply (← fld o "reply"), ← (← fldArr o "calls").mapM parseCall,
        ← (← fldArr o "emits").mapM parseMsg, stripIdent (cache nb), stripIdent (cache na)⟩
      let env := mkEnv t .none
      if bad.isNone && !(requestOKB predef env nb req obs) then
        let why := match req with
          | .change spec p => match changeVerdict predef env nb spec p with
            | .refuse c => "refuse " ++ nameOfCls c
            | .allow m a hw _ w => s!"allow {m}.{a} write={hw} value={w}"
            | .allowDo .. => "?"
          | .do_ spec d => match (doVerdict predef nb spec d : Verdict VV) with
            | .refuse c => "refuse " ++ nameOfCls c
            | .allowDo m a arg => s!"allow {m}.{a} arg={arg}"
            | .allow .. => "?"
          | .read .. => "read-only"
          | .assign .. => "assignment: no driver call"
        bad := some (i, why)
      i := i + 1
    if bad.isNone then
      bad ← checkAcceptRows j
    return Json.mkObj [("bad", jopt (fun b : Nat × String => jarr [jnat b.1, Json.str b.2]) bad)]
  | "lockrun" =>
    -- the events of the real wrappers (acquire / check / call / move / release per thread) replayed on the lock-discipline system
    let acts ← (← fldArr j "acts").mapM (fun a => do
      match ← arr a with
      | [.str "acquire", t] => return AccessLock.Act.acquire (← t.getNat?)
      | [.str "release", t] => return AccessLock.Act.release (← t.getNat?)
      | [.str "check", t, v] => return AccessLock.Act.check (← t.getNat?) (← v.getInt?)
      | [.str "call", t, v] => return AccessLock.Act.call (← t.getNat?) (← v.getInt?)
      | [.str "move", t, v] => return AccessLock.Act.move (← t.getNat?) (← v.getInt?)
      | _ => throw s!"bad act {a.compress}")
    match AccessLock.run (AccessLock.init (← fldInt j "max")) acts with
    | none => return Json.mkObj [("ok", Json.bool false), ("calls", Json.null)]
    | some s => return Json.mkObj [("ok", Json.bool true),
        ("calls", jarr (s.calls.map (fun c => jarr [jint c.1, jint c.2]))),
        ("within", Json.bool (decide (∀ c ∈ s.calls, c.1 ≤ c.2)))]
  | "judge_call" =>
    -- one driver call of the real code against the limits in force at that moment (the node as it was then)
    let t ← parseTables (← fld j "oracle")
    let n ← parseNode t (← fld j "node")
    let m ← fldStr j "m"
    match findModule n m with
    | none => throw "judge_call: no such module"
    | some mod => return Json.mkObj [("ok", Json.bool (callWithinLimitsB (mkEnv t .none) mod (← fldStr j "attr") (← fldStr j "v")))]
  | "serial" =>
    -- the handler sections of a run with several connections: one request at a time (a run of the change-section
    -- system restricted to begin / finish)
    let acts ← (← fldArr j "acts").mapM (fun a => do
      match ← arr a with
      | [.str "begin", t] => return (ChangeSection.Act.begin (← t.getNat?) : ChangeSection.Act Unit Unit)
      | [.str "finish", t] => return ChangeSection.Act.finish (← t.getNat?)
      | _ => throw s!"bad act {a.compress}")
    return Json.mkObj [("ok", Json.bool (ChangeSection.run (fun _ _ => none) (ChangeSection.init ()) acts).isSome)]
  | "changerun" =>
    -- the events of the real change path (acquire / merge / call / direct / store / release per thread) replayed on the
    -- change-section system, with the datatype model of C01 as merge function; and every driver call a request caused
    -- judged on its own: payload merged into the value cached at the moment of the call
    let dt ← dtypeOfJson (← fld j "dtree")
    let cur ← pvalOfJson (← fld j "init")
    let acts ← (← fldArr j "acts").mapM (fun a => do
      match ← arr a with
      | [.str "begin", t] => return ChangeSection.Act.begin (← t.getNat?)
      | [.str "finish", t] => return ChangeSection.Act.finish (← t.getNat?)
      | [.str "acquire", t] => return ChangeSection.Act.acquire (← t.getNat?)
      | [.str "release", t] => return ChangeSection.Act.release (← t.getNat?)
      | [.str "merge", t, p] => return ChangeSection.Act.merge (← t.getNat?) (← jvalOfJson p)
      | [.str "call", t] => return ChangeSection.Act.call (← t.getNat?)
      | [.str "direct", t] => return ChangeSection.Act.direct (← t.getNat?)
      | [.str "store", t, v] => return ChangeSection.Act.store (← t.getNat?) (← pvalOfJson v)
      | _ => throw s!"bad act {a.compress}")
    let observed ← (← fldArr j "calls").mapM (fun c => do
      match ← arr c with
      | [t, p, cur, v] => return (← t.getNat?, ← jvalOfJson p, ← pvalOfJson cur, ← pvalOfJson v)
      | _ => throw s!"bad call {c.compress}")
    let verdicts := observed.map (fun c => callMergesCurrentB dt c.2.1 c.2.2.1 c.2.2.2)
    let expected := observed.map (fun c => match mergeC01 dt c.2.1 c.2.2.1 with
      | some w => pvalToJson w
      | none => Json.str "refused")
    match ChangeSection.run (mergeC01 dt) (ChangeSection.init cur) acts with
    | none => return Json.mkObj [("ok", Json.bool false), ("same", Json.null), ("calls", jarr (verdicts.map Json.bool)),
        ("expected", jarr expected)]
    | some s =>
      -- the calls the system predicts are the calls the driver saw (thread, value given, value cached at that moment)
      let same := s.calls.length == observed.length &&
        (s.calls.zip observed).all (fun (m, o) => m.thread == o.1 && PVal.same m.value o.2.2.2 && PVal.same m.current o.2.2.1)
      return Json.mkObj [("ok", Json.bool true), ("same", Json.bool same), ("calls", jarr (verdicts.map Json.bool)),
        ("expected", jarr expected), ("final", pvalToJson s.cur)]
  | "fwd" =>
    -- change requests on a module with generated (forwarding) write methods: the model, on the cache the implementation had
    let t ← parseTables (← fld j "oracle")
    let closest ← parseTable (← fld j "oracle") "closest" 3 keyStrs (one (·.getStr?))
    let n ← parseNode t (← fld j "node")
    let bodies ← parseBodies (← fld j "bodies")
    let outs ← (← fldArr j "steps").mapM (fun s => do
      let (nb, _) ← parseObs n (← fld s "obs")
      match ← parseReq (← fld s "req") with
      | .change spec p =>
        let o := Forward.handleChangeFwd predef fwdFuel (mkEnv t (← parseDrv (← fld s "drv"))) (fwdOps closest) bodies nb spec p
        return Json.mkObj [("calls", jarr (o.calls.map callJson)),
          ("err", jopt (fun e : Node.Err => Json.str (nameOfCls e.cls)) o.err), ("exhausted", Json.bool o.exhausted)]
      | _ => return Json.null)
    return Json.mkObj [("outs", jarr outs), ("wf", Json.bool (wfB predef n))]
  | "judge_fwd" =>
    -- the same requests as the implementation served them, against the specification of the write path
    let t ← parseTables (← fld j "oracle")
    let closest ← parseTable (← fld j "oracle") "closest" 3 keyStrs (one (·.getStr?))
    let n ← parseNode t (← fld j "node")
    let bodies ← parseBodies (← fld j "bodies")
    let mut i := 0
    let mut bad : Option (Nat × String × Option (String × Nat)) := none
    for s in (← fldArr j "steps") do
      let (nb, obs) ← parseObs n (← fld s "obs")
      match ← parseReq (← fld s "req") with
      | .change spec p' =>
        let vd := forwardVerdict predef fwdFuel (mkEnv t .none) (fwdOps closest) bodies nb spec p'
        if bad.isNone && !(forwardExchangeOKB vd obs) then
          -- for the report: which parameter of the path objects, and how many driver-written write methods come before it
          let where_ : Option (String × Nat) := match target "target" spec with
            | some (m, a) => match lookupParam predef nb m a with
              | .ok (mod, p) => match p.dt.accept p' (some p.entry.value) with
                | .ok v =>
                  let c : Forward.Ctx JJ VV := ⟨mkEnv t .none, fwdOps closest, mod, bodies mod.name⟩
                  let l := pathList fwdFuel c p.attr v
                  match l.findIdx? (fun av => (visitVerdict c av.1 av.2).isSome) with
                  | some k => some ((l.getD k ("?", "?")).1, ((l.take k).filter (fun av => c.body av.1 == .driver)).length)
                  | none => none
                | .error _ => none
              | .error _ => none
            | none => none
          let why := match vd with
            | .refuse c => "refuse " ++ nameOfCls c ++ (match where_ with
                | some (a, k) => s!" (the objection comes from {a}, the {k + 1}. parameter with a driver-written write method on the path would be next)"
                | none => "")
            | .allow calls => "allow, driver calls " ++ (jarr (calls.map callJson)).compress
          bad := some (i, why, where_)
      | _ => pure ()
      i := i + 1
    return Json.mkObj [("bad", jopt (fun b : Nat × String × Option (String × Nat) =>
      jarr [jnat b.1, Json.str b.2.1, jopt (fun w : String × Nat => jarr [Json.str w.1, jnat w.2]) b.2.2]) bad)]
  | _ => throw s!"C04: unknown verb {k}"

end Frappy.Drive.C04
