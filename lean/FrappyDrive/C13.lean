import FrappyDrive.Util
import FrappyModel.Spec.C13
import FrappyModel.Generated.C13
/- line-protocol glue for C13 (not part of any theorem) -/
namespace Frappy.Drive.C13
open Lean Frappy.Drive Frappy.Poller Frappy.Spec.C13

def consts : Consts := ⟨Generated.C13.waitCap, Generated.C13.startupWait⟩

def parseOutcome (s : String) : R Outcome :=
  match s with
  | "ok" => pure .ok | "secop" => pure .secop | "silent" => pure .silent
  | "comm" => pure .comm | "exc" => pure .exc
  | _ => throw s!"bad outcome {s}"

/-- `"d"` = doPoll, `"i"` = initialReads, `["w", p]` = `write_<p>` called by writeInitParams (in the start-up round or
behind it), a number = `read_<p>` -/
def parseFn (j : Json) : R Fn :=
  match j with
  | .str "d" => pure .doPoll
  | .str "i" => pure .init
  | .arr #[.str "w", p] => do return .write (← p.getNat?)
  | _ => do return .read (← j.getNat?)

def fnJson : Fn → Json
  | .doPoll => Json.str "d"
  | .init => Json.str "i"
  | .write p => jarr [Json.str "w", jnat p]
  | .read p => jnat p

def parseExt (j : Json) : R Ext := do
  match (← arr j) with
  | [.str "ui", m, i] => return .updateInterval (← m.getNat?) (← i.getNat?)
  | [.str "fp", m, fl, fi] => return .setFastPoll (← m.getNat?) (← fl.getBool?) (← fi.getNat?)
  | [.str "tr", m, imm] => return .trigger (← m.getNat?) (← imm.getBool?)
  | [.str "ta"] => return .triggerAll
  | _ => throw s!"bad ext {j.compress}"

def parseTouch (j : Json) : R Touch := do
  match (← arr j) with
  | [m, p, s] => return ⟨← m.getNat?, ← p.getNat?, ← s.getNat?⟩
  | _ => throw "bad touch"

def parseEvent (j : Json) : R Event := do
  match (← arr j) with
  | [t, m, f, d] => return ⟨← t.getNat?, ← m.getNat?, ← parseFn f, ← d.getNat?⟩
  | _ => throw "bad event"

def eventJson (e : Event) : Json := jarr [jnat e.t, jnat e.m, fnJson e.f, jnat e.d]

structure CallRec where
  d : Nat
  out : Outcome
  touch : List Touch
  ext : List Ext
  takes : List Nat
  deriving Inhabited

def parseCall (j : Json) : R CallRec := do
  return ⟨← fldNat j "d", ← parseOutcome (← fldStr j "o"),
          ← (← fldArr j "t").mapM parseTouch, ← (← fldArr j "x").mapM parseExt, ← fldNats j "k"⟩

def parseWake (j : Json) : R (List (Nat × List Ext)) := do
  (← arr j).mapM (fun b => do return (← fldNat b "d", ← (← fldArr b "x").mapM parseExt))

def mkEnv (advs : Array Nat) (calls : Array CallRec) (wakes : Array (List (Nat × List Ext)))
    (gaps : Array (List Ext)) : Env where
  adv k := advs.getD k 0
  dur k := (calls.getD k default).d
  out k := (calls.getD k default).out
  touch k := (calls.getD k default).touch
  ext k := (calls.getD k default).ext
  wake k := wakes.getD k []
  gap k := gaps.getD k []
  takes k := (calls.getD k default).takes

def initStamp (ms : List (List (Nat × Nat))) : Nat → Nat → Nat :=
  fun m p => match ms[m]? with
    | some l => match l.find? (fun e => e.1 = p) with
      | some e => e.2
      | none => 0
    | none => 0

/-- iterate `turn` while recorded clock reads are left (each turn consumes at least one) -/
def loopTurns (env : Env) (nReads : Nat) : Nat → PollState → Array Event → Array Json → PollState × Array Event × Array Json
  | 0, σ, acc, dbg => (σ, acc, dbg)
  | fuel + 1, σ, acc, dbg =>
    if σ.nRead ≥ nReads then (σ, acc, dbg)
    else
      let r := turn consts env σ
      let d := jarr [jnat σ.clock, jnat r.σ.clock, jnat σ.nWait, Json.bool σ.trig, Json.bool σ.toPoll.isSome,
                     jarr (σ.mods.map (fun m => jarr [jnat m.interval, jnat m.lastMain, jnat m.lastSlow]))]
      loopTurns env nReads fuel r.σ (acc ++ r.evs.toArray) (dbg.push d)

/-- `["pi", t, v]` = `pollinterval := v` at `t`, `["fp", t, flag, v]` = `setFastPoll(flag, v)` at `t` -/
def parseCmd (j : Json) : R Cmd := do
  match (← arr j) with
  | [.str "pi", t, v] => return .setInterval (← t.getNat?) (← v.getNat?)
  | [.str "fp", t, fl, v] => return .setFast (← t.getNat?) (← fl.getBool?) (← v.getNat?)
  | _ => throw s!"bad cmd {j.compress}"

/-- `[kind, inner, outer]`, kind one of `none plain handler commonFirst commonRest` -/
def parseDecl (j : Json) : R PollFlags.Decl := do
  match (← arr j) with
  | [.str k, i, o] =>
    let kind ← match k with
      | "none" => pure PollFlags.Kind.none | "plain" => pure .plain | "handler" => pure .handler
      | "commonFirst" => pure .commonFirst | "commonRest" => pure .commonRest
      | _ => throw s!"bad kind {k}"
    return ⟨kind, ← i.getBool?, ← o.getBool?⟩
  | _ => throw s!"bad decl {j.compress}"

def pendingOf (ms : List (List Nat)) : Nat → List Nat := fun m => ms[m]?.getD []

def parseMod (j : Json) : R (Mod × List (Nat × Nat) × List Nat) := do
  let iv ← fldNat j "interval"
  let stamps ← (← fldArr j "stamps").mapM (fun x => do
    match (← arr x) with
    | [p, s] => return (← p.getNat?, ← s.getNat?)
    | _ => throw "bad stamp")
  -- the polled parameters are those the model of the poll flag computation yields for the declared read functions
  let en ← fldBool j "enabled"
  let decls ← (← fldArr j "decls").mapM parseDecl
  let pi ← fldNat j "pollinterval"
  if iv ≠ pi then throw "a thread starts with PollInfo.interval = pollinterval"
  -- `given`: per parameter, whether the configuration (or the parameter definition) gives it a value; the model computes
  -- from it what is in the module's `writeDict` when the thread starts
  let given ← (← fldArr j "given").mapM (·.getBool?)
  return (startMod en (← fldNat j "slow") (if en then PollFlags.polledIdx 0 decls else []) pi, stamps, givenIdx 0 given)

/-- the parameters the poller may read are computed by the specification (`mayPoll`) from how the class declares
its read functions; a module with polling disabled has none -/
def parseModInfo (j : Json) : R ModInfo := do
  let en ← fldBool j "enabled"
  let decls ← (← fldArr j "decls").mapM parseDecl
  return ⟨en, ← fldNat j "slow", if en then mayPoll 0 decls else [], ← fldNat j "pollinterval",
          ← (← fldArr j "cmds").mapM parseCmd⟩

def parseTrace (j : Json) : R Trace := do
  return { mods := ← (← fldArr j "mods").mapM parseModInfo
           evs := ← (← fldArr j "evs").mapM parseEvent
           touches := ← (← fldArr j "touches").mapM parseTouch
           loopStart := ← fldNat j "loopStart"
           tEnd := ← fldNat j "tEnd"
           alive := ← fldBool j "alive"
           eps := ← fldNat j "eps" }

/-- diagnostics for a failed clause (glue): the worst main gap as (module, a, b, limit) -/
def worstMain (tr : Trace) : List Json :=
  let S := sweepOf tr
  (enabledIdx tr.mods).flatMap (fun i =>
    match tr.mods[i]? with
    | none => []
    | some mi =>
      let starts := (startsOf tr.evs i).filter (fun t => tr.loopStart ≤ t)
      let bad := (pairs (starts ++ [tr.tEnd])).filter (fun ab => ab.2 > mainLimit S mi ab.1 ab.2)
      let first := if (starts ++ [tr.tEnd]).head! > tr.loopStart + S then
          [jarr [jnat i, jnat tr.loopStart, jnat (starts ++ [tr.tEnd]).head!, jnat (tr.loopStart + S)]] else []
      first ++ (bad.take 2).map (fun ab => jarr [jnat i, jnat ab.1, jnat ab.2, jnat (mainLimit S mi ab.1 ab.2)]))

def worstSlow (tr : Trace) : List Json :=
  let S := sweepOf tr
  let N := nPolled tr.mods
  (enabledIdx tr.mods).flatMap (fun i =>
    match tr.mods[i]? with
    | none => []
    | some mi => mi.polled.flatMap (fun p =>
      let pts := tr.loopStart :: ((refreshes tr i p).filter (fun t => tr.loopStart < t ∧ t < tr.tEnd)) ++ [tr.tEnd]
      let bad := (pairs pts).filter (fun ab => ab.2 > ab.1 + slowLimit S N mi)
      (bad.take 1).map (fun ab => jarr [jnat i, jnat p, jnat ab.1, jnat ab.2, jnat (slowLimit S N mi)])))

/-- diagnostics (glue): the first offending call of every (module, function), at most four -/
def badNoPoll (tr : Trace) : List Json :=
  let bad := tr.evs.filter (fun e => !decide (NoPollNeverRead { tr with evs := [e] }))
  let firsts := bad.foldl (fun acc e => if acc.any (fun x => x.m = e.m ∧ x.f = e.f) then acc else acc ++ [e]) []
  (firsts.take 4).map eventJson

def handle (j : Json) : R Json := do
  let k ← fldStr j "k"
  match k with
  | "run" =>
    let ms ← (← fldArr j "mods").mapM parseMod
    let advs ← fldNats j "adv"
    let calls ← (← fldArr j "calls").mapM parseCall
    let wakes ← (← fldArr j "waits").mapM parseWake
    let gaps ← (← fldArr j "gaps").mapM (fun g => do (← arr g).mapM parseExt)
    let env := mkEnv advs.toArray calls.toArray wakes.toArray gaps.toArray
    let σ0 : PollState := startState (← fldNat j "clock") (ms.map (·.1)) (initStamp (ms.map (·.2.1)))
      (pendingOf (ms.map (·.2.2)))
    let p := prologue consts env σ0
    let (σ, evs, dbg) := loopTurns env advs.length (advs.length + 1) p.σ p.evs.toArray #[]
    let wantDbg := (j.getObjVal? "debug").toOption.isSome
    return Json.mkObj [("evs", jarr ((evs.toList.take calls.length).map eventJson)),
                       ("nevs", jnat evs.size),
                       ("aborted", Json.bool p.aborted),
                       ("loopStart", jnat p.σ.clock),
                       ("nRead", jnat σ.nRead), ("nCall", jnat σ.nCall), ("nWait", jnat σ.nWait),
                       ("clock", jnat σ.clock), ("turns", if wantDbg then Json.arr dbg else Json.null)]
  | "judge" =>
    let tr ← parseTrace j
    let a := survivesB tr; let n := noPollB tr; let g := mainGapB tr; let s := slowRefreshB tr
    return Json.mkObj [("ok", Json.bool (a && n && g && s)),
                       ("alive", Json.bool a), ("nopoll", Json.bool n), ("main_gap", Json.bool g),
                       ("slow_refresh", Json.bool s),
                       ("sweep", jnat (sweepOf tr)), ("npolled", jnat (nPolled tr.mods)),
                       ("intervals", jarr (tr.mods.map (fun mi => jarr (mi.intervals.map (fun e => jarr [jnat e.1, jnat e.2]))))),
                       ("bad_main", jarr (if g then [] else worstMain tr)),
                       ("bad_slow", jarr (if s then [] else worstSlow tr)),
                       ("bad_nopoll", jarr (if n then [] else badNoPoll tr))]
  | "flags" =>
    -- model of the poll flag computation: one Boolean per declared parameter
    let decls ← (← fldArr j "decls").mapM parseDecl
    let given ← (← fldArr j "given").mapM (·.getBool?)
    return Json.mkObj [("flags", jarr (decls.map (fun d => Json.bool (PollFlags.pollFlag d)))),
                       ("polled", jarr ((PollFlags.polledIdx 0 decls).map jnat)),
                       ("pending", jnats (givenIdx 0 given))]
  | _ => throw s!"C13: unknown verb {k}"

end Frappy.Drive.C13
