import FrappyDrive.Util
import FrappyModel.Spec.C19
import FrappyModel.Small.DiscoveryTables
/- line-protocol glue for C19.  Strings travel as arrays of code points, byte strings as arrays of numbers. -/
namespace Frappy.Drive.C19
open Lean Frappy.Drive Frappy.Discovery Frappy.Spec.C19

def tables : Tables := generatedTables

def cps (j : Json) : R Str := do return (← (← arr j).mapM (·.getNat?)).map Char.ofNat
def fldCps (j : Json) (k : String) : R Str := do cps (← fld j k)
def optCps (j : Json) : R (Option Str) := if j.isNull then pure none else some <$> cps j
def jcps (s : Str) : Json := jnats (s.map Char.toNat)

def parseIface (j : Json) : R Iface := do
  match ← arr j with
  | [s, p] => return ⟨← cps s, ← p.getNat?⟩
  | _ => throw "bad iface"

def parseExc (s : String) : Exc :=
  match s with
  | "UnicodeDecodeError" => .unicodeDecodeError
  | "JSONDecodeError" => .jsonDecodeError
  | "ValueError" => .valueError
  | "RecursionError" => .recursionError
  | "TypeError" => .typeError
  | _ => .other

def parseMember (j : Json) : R (Str × Member) := do
  match ← arr j with
  | [k, v] =>
    let key ← cps k
    if v.isNull then return (key, Member.other)
    let s ← cps v
    return (key, .str s)
  | _ => throw "bad member"

/-- `{"err": <class>}` | `{"top": "null"|"bool"|"num"|"str"|"arr"}` | `{"obj": [[key, string|null], …]}` -/
def parseDecoded (j : Json) : R (Except Exc JTop) := do
  if let .ok e := fldStr j "err" then return .error (parseExc e)
  if let .ok t := fldStr j "top" then
    match t with
    | "null" => return .ok .null
    | "bool" => return .ok .bool
    | "num" => return .ok .num
    | "str" => return .ok .str
    | "arr" => return .ok .arr
    | _ => throw "bad top"
  return .ok (.obj (← (← fldArr j "obj").mapM parseMember))

def parseSend (j : Json) : R (Send Nat) := do
  let d ← fld j "dest"
  let payload ← fldNats j "payload"
  if d.isNull then return ⟨payload, .broadcast⟩
  let a ← d.getNat?
  return ⟨payload, .peer a⟩

def sendJson (s : Send Nat) : Json :=
  Json.mkObj [("payload", jnats s.payload), ("dest", match s.dest with | .broadcast => Json.null | .peer a => jnat a)]

/-- an optional list of numbers (absent = empty) -/
def optNats (j : Json) (k : String) : R (List Nat) :=
  match j.getObjVal? k with
  | .ok v => do (← arr v).mapM (·.getNat?)
  | .error _ => pure []

def outcomeJson : Outcome Nat → Json
  | .answered sends => Json.mkObj [("answered", jarr (sends.map sendJson))]
  | .ignored => Json.str "ignored"
  | .unanswerable => Json.str "unanswerable"
  | .died _ => Json.str "died"

def parseNode (j : Json) : R Node := do
  return ⟨← fldCps j "id", firmwareOf (← fldCps j "version"), ← fldCps j "desc", ← (← fldArr j "ifaces").mapM parseIface⟩

def parseStep (j : Json) : R (Step Nat) := do
  return ⟨← fldNat j "addr", ← parseDecoded (← fld j "dec"), ← (← fldArr j "sends").mapM parseSend⟩

def parseReceived (j : Json) : R (Nat × Except Exc JTop) := do
  return (← fldNat j "addr", ← parseDecoded (← fld j "dec"))

def parseEvent (j : Json) : R (Bytes × Nat × Except Exc JTop) := do
  return (← fldNats j "dg", ← fldNat j "addr", ← parseDecoded (← fld j "dec"))

/-- the decoding function handed to the model: the recorded result of `json.loads(bytes.decode())` on the
bytes `recvfrom` returned -/
def decodeOf (evs : List (Bytes × Nat × Except Exc JTop)) (b : Bytes) : Except Exc JTop :=
  match evs.find? (fun e => e.1.take tables.recvBuf == b) with
  | some e => e.2.2
  | none => .error .other

/-- `[[scheme, configured port], bound port | null]` -/
def parseAttempt (j : Json) : R Attempt := do
  match ← arr j with
  | [i, b] =>
    let iface ← parseIface i
    if b.isNull then return ⟨iface, .failed⟩
    let bound ← b.getNat?
    return ⟨iface, .started bound⟩
  | _ => throw "bad attempt"

def srvStateJson (s : SrvState) : Json :=
  Json.mkObj [("interfaces", jarr (s.interfaces.map (fun e => jarr [jcps e.1.scheme, jnat e.1.port, jnat e.2]))),
    ("live", jarr (s.live.map (fun L => jnats L.ports)))]

def handle (j : Json) : R Json := do
  let k ← fldStr j "k"
  match k with
  | "construct" =>
    let L := construct tables (← fldCps j "id") (← fldCps j "version") (← optCps (← fld j "desc"))
      (← (← fldArr j "ifaces").mapM parseIface)
    return Json.mkObj [("enabled", Json.bool L.enabled), ("fw", jcps L.fw), ("desc", jcps L.desc), ("ports", jnats L.ports),
      ("messages", jarr (L.ports.map (fun p => jnats (message tables L.id L.fw L.desc p)))),
      ("budget_message", jnats (message tables L.id L.fw L.desc tables.budgetPort))]
  | "judge_listener" =>
    let n ← parseNode j
    let d ← fldCps j "sent_desc"
    let en ← fldBool j "enabled"
    return Json.mkObj [("ok", Json.bool (listenerOKB n en d)),
      ("enabled_iff_fits", Json.bool (decide (en = true ↔ IdentityFits n))),
      ("minimal", Json.bool (!en || truncationMinimalB n d))]
  | "judge_message" =>
    let n ← parseNode j
    let msg ← fldNats j "payload"
    return Json.mkObj [("ok", Json.bool (wellFormedMessageB n msg)), ("len", jnat msg.length),
      ("read", match readMessage msg with
        | some f => Json.mkObj [("secop", jcps f.secop), ("port", jnat f.port), ("id", jcps f.id), ("fw", jcps f.firmware),
                               ("desc", jcps f.description)]
        | none => Json.null)]
  | "run" =>
    let L := construct tables (← fldCps j "id") (← fldCps j "version") (← optCps (← fld j "desc"))
      (← (← fldArr j "ifaces").mapM parseIface)
    let evs ← (← fldArr j "events").mapM parseEvent
    let unreachable ← optNats j "unreachable"
    let (ann, outs) := run tables L (← fldBool j "startup") (decodeOf evs) (fun a => !unreachable.contains a)
      (evs.map (fun e => Event.datagram e.1 e.2.1))
    return Json.mkObj [("announce", jarr (ann.map sendJson)), ("outcomes", jarr (outs.map outcomeJson))]
  | "judge_run" =>
    let n ← parseNode j
    let startup ← fldBool j "startup"
    let received ← (← fldArr j "received").mapM parseReceived
    let announce ← (← fldArr j "announce").mapM parseSend
    let steps ← (← fldArr j "steps").mapM parseStep
    let unreachable ← optNats j "unreachable"
    let reach : Nat → Bool := fun a => !unreachable.contains a
    return Json.mkObj [("ok", Json.bool (runOKB n startup reach received announce steps)),
      ("why", jopt Json.str (diagnose n startup reach received announce steps))]
  | "server_rounds" =>
    let rounds ← (← fldArr j "rounds").mapM (fun r => do (← arr r).mapM parseAttempt)
    let states := runRounds generatedServerTables tables (← fldCps j "id") (← fldCps j "version")
      (← optCps (← fld j "desc")) .init rounds
    return Json.mkObj [("rounds", jarr (states.map srvStateJson))]
  | "judge_server_round" =>
    -- served: ports on which the node answers; listener/answers/live: ports that are or can be announced
    let served ← fldNats j "served"
    let listener ← fldNats j "listener"
    let answers ← fldNats j "answers"
    let live ← fldNats j "live"
    let answered ← fldBool j "answered"
    let why : Option String :=
      if !announcedServedB served listener then some "responder-announces-port-not-served"
      else if !announcedServedB served live then some "earlier-responder-left-running-with-port-not-served"
      else if !announcedServedB served answers then some "answer-carries-port-not-served"
      else if !answered then some "no-answer-over-udp"
      else none
    return Json.mkObj [("ok", Json.bool why.isNone), ("why", jopt Json.str why)]
  | _ => throw s!"C19: unknown verb {k}"

end Frappy.Drive.C19
