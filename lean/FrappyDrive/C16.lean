import FrappyDrive.Util
import FrappyModel.Spec.C16
import FrappyModel.Timed.CommGlue
/- line-protocol glue for C16 -/
namespace Frappy.Drive.C16
open Lean Frappy.Drive Frappy.Comm Frappy.Spec.C16

def bytesOf (s : String) : Bytes := s.toList.map Char.toNat
def strOf (b : Bytes) : String := String.ofList (b.map Char.ofNat)
def jbytes (b : Bytes) : Json := Json.str (strOf b)
def getBytes (j : Json) : R Bytes := do return bytesOf (← j.getStr?)

def parseReq (j : Json) : R Req := do
  match ← arr j with
  | [cmd, ex, rl, d] => return ⟨← getBytes cmd, ← ex.getBool?, ← rl.getNat?, ← d.getNat?⟩
  | _ => throw "bad req"

def parseKind (s : String) : R Kind :=
  match s with
  | "comm" => pure .comm | "write" => pure .write | "multi" => pure .multi | "poll" => pure .poll
  | _ => throw s!"bad kind {s}"

def parseRes (j : Json) : R Res :=
  match j with
  | .str "err" => pure .err
  | .str "crash" => pure .crash
  | .arr a => do return .ok (← a.toList.mapM getBytes)
  | _ => throw "bad res"

def resJson : Res → Json
  | .ok rs => jarr (rs.map jbytes)
  | .err => Json.str "err"
  | .crash => Json.str "crash"

def parseEv (j : Json) : R TEv := do
  match ← arr j with
  | t :: Json.str k :: rest =>
    let t ← t.getNat?
    let ev ← (match k, rest with
      | "call", [c, kind, reqs] => do return Ev.call (← c.getNat?) (← parseKind (← kind.getStr?)) (← (← arr reqs).mapM parseReq)
      | "chk", [c, v] => do return Ev.chk (← c.getNat?) (← v.getBool?)
      | "now", [c, v] => do return Ev.now (← c.getNat?) (← v.getNat?)
      | "connect", [c, ok, od] => do return Ev.connect (← c.getNat?) (← ok.getBool?) (← od.getBool?)
      | "isconn", [c, v] => do return Ev.isconn (← c.getNat?) (← v.getBool?)
      | "cb", [c, n, keep] => do return Ev.cb (← c.getNat?) (← n.getNat?) (← keep.getBool?)
      | "acq", [c] => do return Ev.acq (← c.getNat?)
      | "rel", [c] => do return Ev.rel (← c.getNat?)
      | "slp", [c, d] => do return Ev.slp (← c.getNat?) (← d.getNat?)
      | "wake", [c] => do return Ev.wake (← c.getNat?)
      | "flush", [c] => do return Ev.flush (← c.getNat?)
      | "send", [c, conn, n, d] => do return Ev.send (← c.getNat?) (← conn.getNat?) (← n.getNat?) (← getBytes d)
      | "recv", [c, Json.str "data", d] => do return Ev.recv (← c.getNat?) (.data (← getBytes d))
      | "recv", [c, Json.str "empty"] => do return Ev.recv (← c.getNat?) .empty
      | "recv", [c, Json.str "closed"] => do return Ev.recv (← c.getNat?) .closed
      | "hclose", [c] => do return Ev.hclose (← c.getNat?)
      | "ret", [c, r] => do return Ev.ret (← c.getNat?) (← parseRes r)
      | "arrive", [conn, tag, d] => do return Ev.arrive (← conn.getNat?) (← optNat tag) (← getBytes d)
      | "devclose", [conn] => do return Ev.devclose (← conn.getNat?)
      | "dopoll", [m] => do return Ev.dopoll (← m.getNat?)
      | "more", [c, n] => do return Ev.more (← c.getNat?) (← n.getNat?)
      | "isend", [c, conn, n, d] => do return Ev.isend (← c.getNat?) (← conn.getNat?) (← n.getNat?) (← getBytes d)
      | "busy", [c] => do return Ev.busy (← c.getNat?)
      | "drop", [c] => do return Ev.drop (← c.getNat?)
      | "idend", [c, ok] => do return Ev.idend (← c.getNat?) (← ok.getBool?)
      | _, _ => throw s!"bad event {j.compress}")
    return ⟨t, ev⟩
  | _ => throw s!"bad event {j.compress}"

def parseIdReq (j : Json) : R IdReq := do
  match ← arr j with
  | [cmd, rl, pat] => return ⟨← getBytes cmd, ← rl.getNat?, ← getBytes pat⟩
  | _ => throw "bad ident entry"

def parseCfg (j : Json) : R Cfg := do
  let ident ← match (j.getObjVal? "ident").toOption with
    | some a => (← arr a).mapM parseIdReq
    | none => pure []
  let retry := ((j.getObjValAs? Bool "retry_first").toOption).getD true
  return { ident := ident, retryFirst := retry, bytesMode := ← fldBool j "bytes", eol := bytesOf (← fldStr j "eol"), timeout := ← fldNat j "timeout",
           waitBefore := ← fldNat j "wait_before", interval := ← fldNat j "interval", gran := ← fldNat j "gran",
           slack := ← fldNat j "slack" }

def pcName (p : Pc) : String := (reprStr p)

/-- the send terminator (`eol_w`; the receive terminator when not given) -/
def parseEolW (j : Json) : R Bytes := do
  match (j.getObjValAs? String "eol_w").toOption with
  | some s => return bytesOf s
  | none => return bytesOf (← fldStr j "eol")

def parseTarget (j : Json) : R (Nat × Nat) := do
  match ← arr j with
  | [h, p] => return (← h.getNat?, ← p.getNat?)
  | _ => throw "bad target"

def planEvJson : PlanEv → Json
  | .slp d => jarr [Json.str "slp", jnat d]
  | .flush => jarr [Json.str "flush"]
  | .send d => jarr [Json.str "send", jbytes d]

def framedJson : Framed → Json
  | .got l r u => Json.mkObj [("line", jbytes l), ("rest", jbytes (r ++ u.flatten))]
  | .pending b => Json.mkObj [("line", Json.null), ("rest", jbytes b)]

def handle (j : Json) : R Json := do
  let k ← fldStr j "k"
  match k with
  | "replay" =>
    let cfg ← parseCfg (← fld j "cfg")
    let cbs ← fldNats j "cbs"
    let evs ← (← fldArr j "events").mapM parseEv
    let s0 : State := { cfg := cfg, cbsReg := cbs }
    match firstRejected s0 0 evs with
    | none => return Json.mkObj [("accepted", Json.bool true)]
    | some i =>
      let s := stateBefore s0 i evs
      let who := ((evs[i]?).bind (·.ev.who)).getD 0
      let kc := s.callers who
      return Json.mkObj [("accepted", Json.bool false), ("at", jnat i), ("who", jnat who),
        ("pc", Json.str (pcName kc.pc)), ("expected_result", resJson (result kc)),
        ("state", Json.mkObj [("isConn", Json.bool s.isConn), ("conn", jopt jnat s.conn), ("owner", jopt jnat s.owner),
          ("chan", jarr (s.chan.map jbytes)), ("eof", Json.bool s.eof), ("lastAttempt", jnat s.lastAttempt),
          ("lastError", Json.bool s.lastError), ("clock", jnat s.clock), ("endT", jnat kc.endT), ("held", jnat kc.held),
          ("cbs", jnats s.cbsReg)])]
  | "judge" =>
    let cfg ← parseCfg (← fld j "cfg")
    let eolW ← parseEolW (← fld j "cfg")
    let cbs ← fldNats j "cbs"
    let evs0 ← (← fldArr j "events").mapM parseEv
    let evs := expandCalls cfg.waitBefore (if cfg.bytesMode then [] else eolW) evs0
    let targets ← match (j.getObjVal? "targets").toOption with
      | some a => do pure (some (← (← arr a).mapM parseTarget))
      | none => pure none
    let pollname := (j.getObjValAs? Nat "pollname").toOption
    let mods := ((j.getObjVal? "mods").toOption.bind (fun m => (m.getArr?).toOption)).map
      (fun a => a.toList.filterMap (fun x => x.getNat?.toOption))
    let within := ((j.getObjValAs? Nat "within").toOption).getD 0
    let clauses : List (String × Bool) := [
      ("multicomm_atomic", multicommAtomicB evs),
      ("exchange_atomic", exchangeAtomicB evs),
      ("delays_honoured", delaysHonouredB evs),
      ("transaction_protected", transactionProtectedB evs),
      ("stale_discarded", staleDiscardedB cfg.bytesMode cfg.eol (joinLines evs0)),
      ("reply_pairing", replyPairingB cfg.bytesMode cfg.eol (joinLines evs0)),
      ("fails_within_timeout", failsWithinTimeoutB cfg evs),
      ("state_visible", stateVisibleB evs),
      ("closed_visible", closedVisibleB evs),
      ("state_not_overwritten", stateNotOverwrittenB evs),
      ("reconnect_rate_limited", rateLimitedB cfg evs),
      ("attempts_atomic", attemptsAtomicB evs),
      ("reconnect_rate_limited_all", rateLimitedAllB cfg evs),
      ("callbacks_once", callbacksOnceB cbs evs),
      ("wait_before_honoured", waitBeforeHonouredB cfg.waitBefore (if cfg.bytesMode then [] else eolW) evs),
      ("command_intact", commandIntactB evs),
      ("reconnect_same_target", match targets with
        | some ts => reconnectSameTargetB ts evs
        | none => true),
      ("polling_resumes", match pollname with
        | some n => pollingResumesB n (mods.getD []) within evs
        | none => true)]
    return Json.mkObj (clauses.map fun (n, b) => (n, Json.bool b))
  | "plan" =>     -- what one StringIO.communicate puts on the wire (the model's transcription)
    let w ← fldNat j "wait_before"
    return jarr ((commPlan w (bytesOf (← fldStr j "eol_w")) (bytesOf (← fldStr j "cmd"))).map planEvJson)
  | "targets" =>  -- the ports of n successive connects
    let up := (j.getObjValAs? Nat "uri_port").toOption
    let dp := (j.getObjValAs? Nat "default_port").toOption
    return jnats (connectTargets up (← fldNat j "n") ⟨dp⟩)
  | "frame" =>
    let chunks ← (← fldArr j "chunks").mapM getBytes
    let buf := bytesOf (← fldStr j "buf")
    match (j.getObjValAs? Nat "n").toOption with
    | some n => return framedJson (readbytes n buf chunks)
    | none => return framedJson (readline (bytesOf (← fldStr j "eol")) buf chunks)
  | _ => throw s!"C16: unknown verb {k}"

end Frappy.Drive.C16
