import FrappyDrive.Util
import FrappyModel.Spec.C11
import FrappyModel.Generated.C11
import FrappyModel.Client.Shutdown
import FrappyModel.Client.Reconnect
/- line-protocol glue for C11 -/
namespace Frappy.Drive.C11
open Lean Frappy.Drive Frappy.Client.Match Frappy.Spec.C11

def tbl : List (String × String) := Generated.C11.request2reply

/-- `action.startswith(ERRORPREFIX)` / `action[len(ERRORPREFIX):]` -/
def splitErr (a : String) : Bool × String :=
  if a.startsWith Generated.C11.errorPrefix then (true, (a.drop Generated.C11.errorPrefix.length).toString) else (false, a)

/-- lines the rx thread consumes before the matching code: `update` / `error_update` of a known parameter -/
def isEvent (known : List String) (a : String) (sp : Option String) : Bool :=
  (a == Generated.C11.eventReply || a == Generated.C11.errorPrefix ++ Generated.C11.eventReply)
    && (match sp with | some i => known.contains i | none => false)

def optBool (j : Json) : R Bool := j.getBool?

def parseLabel (known : List String) (j : Json) : R (Label String) := do
  let a ← arr j
  match a with
  | [.str "put", act, sp] => return .put ⟨← act.getStr?, ← optStr sp⟩
  | [.str "selfRelease", i] => return .selfRelease (← i.getNat?)
  | [.str "timeout", i] => return .timeout (← i.getNat?)
  | [.str "txGet"] => return .txGet
  | [.str "txTest", b] => return .txTest (← b.getBool?)
  | [.str "txApply"] => return .txApply
  | [.str "txSend"] => return .txSend
  | [.str "txSendFail"] => return .txSendFail
  | [.str "peerEmit", act, sp, bad, re] =>
    let text ← act.getStr?
    let sp ← optStr sp
    let (err, rest) := splitErr text
    return .peerEmit err rest sp (isEvent known text sp || (← bad.getBool?)) (← optNat re)
  | [.str "rxRead"] => return .rxRead
  | [.str "rxMatch", f, tk] => return .rxMatch (← optNat f) (← (← arr tk).mapM (·.getNat?))
  | [.str "rxSetEvent"] => return .rxSetEvent
  | [.str "rxRequeue"] => return .rxRequeue
  | [.str "rxCleanPop"] => return .rxCleanPop
  | [.str "rxCleanup", r, tk] => return .rxCleanup (← optNat r) (← (← arr tk).mapM (·.getNat?))
  | [.str "closeBegin"] => return .closeBegin
  | [.str "closeTxq"] => return .closeTxq
  | [.str "closeActive"] => return .closeActive
  | [.str "closePending"] => return .closePending
  | [.str "closeSet", i] => return .closeSet (← i.getNat?)
  | _ => throw s!"bad label {j.compress}"

def ids (l : List (Entry String)) : Json := jnats (l.map (·.id))

def summary (s : St String) : Json :=
  Json.mkObj [
    ("delivered", jarr (s.delivered.reverse.map (fun p => jnats [p.1.id, p.2.seq]))),
    ("released", jnats s.released.reverse),
    ("timedOut", jnats s.timedOut.reverse),
    ("active", ids (s.active.map (·.2))),
    ("pending", ids s.pending),
    ("txq", ids s.txq),
    ("wireOut", ids s.wireOut),
    ("relHold", ids s.relHold),
    ("closing", Json.bool s.closing)]

def parseOutcome (j : Json) : R Outcome := do
  let k ← fldStr j "out"
  match k with
  | "reply" => return .reply (← fldNat j "seq")
  | "error" => return .secopError (← fldNat j "seq")
  | "conn" => return .connError
  | "timeout" => return .timeout
  | "later" => return .laterConn
  | _ => return .other

def parseCaller (j : Json) : R CallerObs := do
  return { id := ← fldNat j "id", out := ← parseOutcome j, putAt := ← fldNat j "putAt", endAt := ← fldNat j "endAt",
           tPut := ← fldNat j "tPut", tEnd := ← fldNat j "tEnd" }

def verdictStr : Verdict → String
  | .ok => "ok"
  | .wrongReply => "wrong-reply"
  | .notReleased => "not-released"
  | .spuriousConnError => "spurious-connection-error"
  | .late => "late"
  | .raised => "raised"
  | .needlessTimeout => "needless-timeout"

def lastState (l : List (St String)) : St String := l.getLast?.getD {}

/-- `[action, spec, bad, re, readyMs]`: a line the peer made readable, in the form of a `peerEmit` label plus the time -/
def parseArrival (known : List String) (j : Json) : R (Arrival String) := do
  match ← arr j with
  | [act, sp, bad, re, t] =>
    let text ← act.getStr?
    let sp ← optStr sp
    let (err, rest) := splitErr text
    return { line := { seq := 0, err := err, action := rest, spec := sp, event := isEvent known text sp || (← bad.getBool?),
                       re := ← optNat re }, readyMs := ← t.getNat? }
  | _ => throw s!"bad arrival {j.compress}"

/-! ### shutdown protocol model -/
section
open Frappy.Client.Shutdown

def dpcName : DPc → String
  | .d0 => "d0" | .d1 => "d1" | .d2 => "d2" | .d3 => "d3" | .d4 => "d4" | .d5 => "d5" | .d6 => "d6"
  | .d7 => "d7" | .d8 => "d8" | .d9 => "d9" | .d10 => "d10" | .d11 => "d11" | .fin => "fin"

def allDPc : List DPc := [.d0, .d1, .d2, .d3, .d4, .d5, .d6, .d7, .d8, .d9, .d10, .d11, .fin]

def parseDPc (s : String) : R DPc :=
  match allDPc.find? (fun p => dpcName p == s) with
  | some p => pure p
  | none => throw s!"bad program point {s}"

def txName : TxPc → String
  | .check => "check" | .get => "get" | .proc => "proc" | .x0 => "x0" | .disc p => dpcName p

def rxName : RxPc → String
  | .check => "check" | .read => "read" | .f0 => "f0" | .disc p => dpcName p

def parseAct (j : Json) : R Act := do
  let a ← arr j
  match a with
  | [.str "put"] => return .put
  | [.str "drop"] => return .drop
  | [.str "userBegin"] => return .userBegin
  | [.str "user", p] => return .user (← parseDPc (← p.getStr?))
  | [.str "tx", b] => return .tx (← b.getBool?)
  | [.str "rx", b] => return .rx (← b.getBool?)
  | _ => throw s!"bad act {j.compress}"

def shSummary (s : Sh) : Json :=
  Json.mkObj [("tx", Json.str (txName s.tx)), ("rx", Json.str (rxName s.rx)),
    ("users", Json.mkObj (allDPc.filterMap (fun p => if s.users p > 0 then some (dpcName p, jnat (s.users p)) else none))),
    ("txq", jarr (s.txq.map Json.bool)), ("running", Json.bool s.running), ("txAttr", Json.bool s.txAttr),
    ("rxAttr", Json.bool s.rxAttr), ("allDone", Json.bool (allDone s)), ("canMove", Json.bool (canMove s))]

/-- replay acts; each item is `{"a": act, "pc": expected point of the acting worker after the step (optional)}` -/
def shReplay : Sh → List Json → Nat → R Json
  | s, [], _ => return Json.mkObj [("refused_at", Json.null), ("mismatch_at", Json.null), ("final", shSummary s)]
  | s, j :: rest, i => do
    let act ← parseAct (← fld j "a")
    match step s act with
    | none => return Json.mkObj [("refused_at", jnat i), ("mismatch_at", Json.null), ("final", shSummary s)]
    | some s' =>
      let want := (j.getObjValAs? String "pc").toOption
      let got := match act with
        | .tx _ => some (txName s'.tx)
        | .rx _ => some (rxName s'.rx)
        | .user _ =>
          -- a user thread must now be at the expected point
          match want with
          | some w => if allDPc.any (fun p => dpcName p == w && s'.users p > 0) then some w else some "nobody-there"
          | none => none
        | _ => none
      match want, got with
      | some w, some g =>
        if w == g then shReplay s' rest (i + 1)
        else return Json.mkObj [("refused_at", Json.null), ("mismatch_at", jnat i), ("final", shSummary s'),
                                ("want", Json.str w), ("got", Json.str g)]
      | _, _ => shReplay s' rest (i + 1)

end

/-! ### connection model -/
section
open Frappy.Client.Conn

def parseOut (j : Json) : R Out := do
  match ← arr j with
  | [.str "line", n] => return .line (← n.getNat?)
  | [.str "none"] => return .nothing
  | [.str "closed"] => return .closed
  | [.str "ok"] => return .ok
  | [.str "connErr"] => return .connErr
  | [.str "other", c] => return .otherErr (← c.getStr?)
  | _ => throw s!"bad outcome {j.compress}"

def parseOp (s : String) : R Op :=
  match s with
  | "readline" => pure .readline
  | "send" => pure .send
  | "shutdown" => pure .shutdown
  | "disconnect" => pure .disconnect
  | _ => throw s!"bad op {s}"

def parseEv (j : Json) : R Ev := do
  match ← arr j with
  | [.str "peerSend"] => return .peerSend
  | [.str "peerPart"] => return .peerPart
  | [.str "peerFin"] => return .peerFin
  | [.str "peerRst"] => return .peerRst
  | [.str "call", o, r] => return .call (← parseOp (← o.getStr?)) (← parseOut r)
  | _ => throw s!"bad event {j.compress}"

def connHandle (j : Json) : R Json := do
  let evs ← (← fldArr j "events").mapM parseEv
  let refused : Option Nat := match Frappy.Client.Conn.run {} evs 0 with
    | .ok _ => none
    | .error i => some i
  return Json.mkObj [("refused_at", jopt jnat refused), ("first_bad", jopt jnat (connFirstBad {} evs 0))]

end


/-! ### life-cycle model (connect / reconnect / disconnect across connections) -/
section
open Frappy.Client.Reconnect

def lifePcName (p : Pc) : String := ((reprStr p).splitOn ".").getLastD ""

def lifeParseAct (j : Json) : R Frappy.Client.Reconnect.Act := do
  match ← arr j with
  | [.str "th", me, o] => return .th (← me.getNat?) (← o.getNat?)
  | [.str "drop", c] => return .drop (← c.getNat?)
  | [.str "newDisc"] => return .newDisc
  | [.str "newReq"] => return .newReq
  | [.str "put", q] => return .put (← q.getNat?)
  | _ => throw s!"bad act {j.compress}"

def lifeSummary (s : Frappy.Client.Reconnect.St) : Json :=
  Json.mkObj [("pcs", jstrs (s.th.map (fun t => lifePcName t.pc))), ("io", jopt jnat s.io), ("running", Json.bool s.running),
    ("shutdown", Json.bool s.shutdown), ("txAttr", jopt jnat s.txAttr), ("rxAttr", jopt jnat s.rxAttr),
    ("connAttr", jopt jnat s.connAttr), ("registered", jnats s.registered), ("txq", jnat s.txq),
    ("queues", jarr (s.queues.map (fun q => jarr (q.map Json.bool)))), ("alive", jnats (workersAlive s)),
    ("standing", jarr (s.th.map (fun t => Json.bool (standing s t))))]

/-- replay acts; each item is `{"a": act, "pc": expected point of the acting thread after the step (optional)}` -/
def lifeReplay (cfg : Cfg) : Frappy.Client.Reconnect.St → List Json → Nat → R Json
  | s, [], _ => return Json.mkObj [("refused_at", Json.null), ("mismatch_at", Json.null), ("final", lifeSummary s)]
  | s, j :: rest, i => do
    let act ← lifeParseAct (← fld j "a")
    let kind := (j.getObjValAs? String "ev").toOption.getD "-"
    let q := (j.getObjValAs? Nat "q").toOption
    let w := (j.getObjValAs? Nat "w").toOption
    match Frappy.Client.Reconnect.stepObs cfg s act kind q w with
    | none =>
      let at_ := match act with
        | .th me _ => ((s.th[me]?).map (fun t => lifePcName t.pc)).getD "?"
        | _ => "-"
      return Json.mkObj [("refused_at", jnat i), ("mismatch_at", Json.null), ("final", lifeSummary s), ("at", Json.str at_)]
    | some s' =>
      let want := (j.getObjValAs? String "pc").toOption
      let got := match act with
        | .th me _ => (s'.th[me]?).map (fun t => lifePcName t.pc)
        | _ => none
      match want, got with
      | some w, some g =>
        if w == g then lifeReplay cfg s' rest (i + 1)
        else return Json.mkObj [("refused_at", Json.null), ("mismatch_at", jnat i), ("final", lifeSummary s'),
                                ("want", Json.str w), ("got", Json.str g)]
      | _, _ => lifeReplay cfg s' rest (i + 1)

end

def releaseHandle (j : Json) : R Json := do
  let r : Release := { out := ← parseOutcome j, elapsedMs := ← fldNat j "elapsedMs" }
  let re : RunEnd := { threadErrors := ← fldStrs j "threadErrors", disconnectRaised := ← fldStrs j "disconnectRaised",
                       alive := ← fldStrs j "alive", deadlock := false, unterminated := ← fldBool j "unterminated" }
  return Json.mkObj [("released_promptly", Json.bool (releasedPromptlyB (← fldNat j "boundMs") r)),
                     ("shutdown_clean", Json.bool (shutdownCleanB re))]

def handle (j : Json) : R Json := do
  let k ← fldStr j "k"
  if k == "shutdown_replay" then
    return ← shReplay {} (← fldArr j "acts") 0
  if k == "life_replay" then
    let cfg : Frappy.Client.Reconnect.Cfg := { activate := ← fldBool j "activate" }
    return ← lifeReplay cfg {} (← fldArr j "acts") 0
  if k == "conn" then
    return ← connHandle j
  if k == "release" then
    return ← releaseHandle j
  let known ← fldStrs j "known"
  let labels ← (← fldArr j "labels").mapM (parseLabel known)
  match k with
  | "replay" =>
    let locked ← fldBool j "locked"
    match run tbl locked {} labels 0 with
    | .ok s => return Json.mkObj [("refused_at", Json.null), ("final", summary s)]
    | .error i => return Json.mkObj [("refused_at", jnat i), ("final", Json.null)]
  | "judge" =>
    let callers ← (← fldArr j "callers").mapM parseCaller
    let arrivals : List (Arrival String) ← match j.getObjVal? "arrivals" with
      | .ok a => do (← arr a).mapM (parseArrival known)
      | .error _ => pure []
    let marginMs : Nat := (j.getObjValAs? Nat "marginMs").toOption.getD 1500
    let closedAt ← fldNats j "closedAt"
    let slack ← fldNat j "slackMs"
    let states := observe tbl {} labels
    let final := lastState states
    let waitMs := Generated.C11.putTimeoutMs + Generated.C11.waitTimeoutMs + slack
    let everClosing := final.closing
    let re : RunEnd := { threadErrors := ← fldStrs j "threadErrors", disconnectRaised := ← fldStrs j "disconnectRaised",
                         alive := ← fldStrs j "alive", deadlock := ← fldBool j "deadlock",
                         unterminated := ← fldBool j "unterminated" }
    let fin : Bool ← match j.getObjVal? "afterShutdown" with
      | .ok a => do
        let x : AfterShutdown := { userActivity := ← fldBool a "userActivity", alive := ← fldStrs a "alive",
                                   connected := ← fldBool a "connected" }
        pure (shutdownFinalB x)
      | .error _ => pure true
    return Json.mkObj [
      ("shutdown_clean", Json.bool (shutdownCleanB re)),
      ("shutdown_final", Json.bool fin),
      ("first_parked", jopt jnat (firstParked tbl states 0)),
      ("first_lost", jopt jnat (firstLost states 0)),
      ("reply_matches_known", Json.bool (replyMatchesKnownB tbl final)),
      ("reply_matches", Json.bool (replyMatchesB tbl final)),
      ("no_double", Json.bool (noDoubleDeliveryB final)),
      ("verdicts", jstrs (callers.map (fun c =>
        -- the state in which the caller's `put` was made (state `putAt` of the observed run), if it made one
        let putClosing := c.id < final.nextId && ((states.drop c.putAt).head?.map (·.closing)).getD false
        -- a connection error is in order when a shutdown / loss of the connection had begun by the time the caller returned
        -- (not: at some time of the run - every run ends with a disconnect())
        let endClosing := ((states.drop c.endAt).head?.map (·.closing)).getD everClosing
        -- the request of this caller: the label at which it was queued
        let needless := match (labels.drop c.putAt).head? with
          | some (.put r) => c.id < final.nextId &&
              needlessTimeoutB tbl ⟨c.id, r⟩ c.tPut Generated.C11.waitTimeoutMs marginMs arrivals
          | _ => false
        verdictStr (judgeCaller tbl final closedAt endClosing waitMs putClosing c needless)))),
      ("final", summary final)]
  | _ => throw s!"C11: unknown verb {k}"

end Frappy.Drive.C11
