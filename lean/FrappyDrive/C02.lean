import FrappyDrive.DTypes
import FrappyModel.Spec.C02
/-
Line-protocol glue for C02.  One request = one complete case (a datatype tree and one value of it):

  {"p":"C02","k":"case","dt":T,"v":V,"fmt":[[pos,bitsIn,bitsBack],..],
   "impl":{"exp":OJ,"node":OV,"client":OV,"cdt":T|null,"text":OT,"back":OV,"again":OT,
           "cval":OV,"ctext":OT,"cback":OV,"cagain":OT,"sent":OJ,"cnode":OV,"vsent":OJ,"vnode":OV,
           "xsent":OJ,"xnode":OV,"xres":OV}}
      (`cval` = the value of the cache entry `updateValue` made; `vsent` = what `setParameter(cval)` sent; `xsent` = the
       argument `execCommand(cval)` sent, `xnode` = the node's import of it, `xres` = what `execCommand` returned for a
       command answering its argument)
      OJ/OV/OT = {"ok": <JSON value / value / text>} | {"err": "<class>"} | null
  → {"wf":b,"valid":b,"canon":b,"complete":b,"model":{…same keys…},"judge":[failed clauses],"b64":b}

texts:  {"bare": s} | {"syn": S},  S = {"a": tok} | {"l": [S..]} | {"p": [S..], "tr": b} | {"m": [[ktok, S]..]}
atoms are tagged tokens produced by the harness from `ast.parse` of the real text: `s:<chars>`, `b:<hex>`,
`i:<int>`, `True`, `False`, `None`, and for a float leaf `f:<bits of the float the text reads back as>`.
`fmt` is that read-back function on the float leaves of the case (position, bits of `x`, bits of
`float(literal_eval(fmtstr % x))`): the library function `TextLib.fmtFloat` as data.
-/
namespace Frappy.Drive.C02
open Lean Frappy.Drive Frappy Frappy.Datatypes Frappy.Spec.C02

abbrev Out := Frappy.Spec.C02.Out

def posKey (pos : List Nat) : String := ".".intercalate (pos.map toString)

def trimPy (s : String) : String := s.trimAscii.toString

/-- the tagged-token library: satisfies the laws of `TextLib.Lawful` by construction, with `fmtFloat` looked up in the
table of read-back values the harness computed with the real format strings -/
def lib (table : List (String × Nat × Nat)) : TextLib Float where
  fmtFloat pos x :=
    let key := posKey pos
    let b := x.toBits.toNat
    match table.find? (fun e => e.1 == key && e.2.1 == b) with
    | some e => s!"f:{e.2.2}"
    | none => s!"f:{b}"
  fmtInt i := s!"i:{i}"
  reprStr s := "s:" ++ s
  reprBytes b := "b:" ++ hexEncode b
  reprBool b := if b then "True" else "False"
  evalAtom tok :=
    if tok == "True" then some (.bool true)
    else if tok == "False" then some (.bool false)
    else if tok == "None" then some .none
    else if tok.startsWith "s:" then some (.str (tok.drop 2).toString)
    else if tok.startsWith "i:" then (tok.drop 2).toString.toInt?.map .int
    else if tok.startsWith "f:" then (tok.drop 2).toString.toNat?.map (fun n => .float (Float.ofBits n.toUInt64))
    else if tok.startsWith "b:" then
      match hexDecode (tok.drop 2).toString.toList with
      | .ok b => some (.bytes b)
      | .error _ => none
    else none
  strip := trimPy

partial def surfOfJson (j : Json) : R Surf :=
  match j.getObjVal? "a", j.getObjVal? "l", j.getObjVal? "p", j.getObjVal? "m" with
  | .ok a, _, _, _ => do return .atom (← a.getStr?)
  | _, .ok l, _, _ => do return .list (← (← arr l).mapM surfOfJson)
  | _, _, .ok p, _ => do return .paren (← (← arr p).mapM surfOfJson) (← fldBool j "tr")
  | _, _, _, .ok m => do
    let items ← (← arr m).mapM (fun kv => do
      match ← arr kv with
      | [k, v] => return ((← k.getStr?), (← surfOfJson v))
      | _ => throw "bad dict item")
    return .dict items
  | _, _, _, _ => throw s!"bad surface tree {j.compress}"

partial def surfToJson : Surf → Json
  | .atom t => Json.mkObj [("a", .str t)]
  | .list l => Json.mkObj [("l", jarr (l.map surfToJson))]
  | .paren l tr => Json.mkObj [("p", jarr (l.map surfToJson)), ("tr", .bool tr)]
  | .dict d => Json.mkObj [("m", jarr (d.map (fun (k, v) => jarr [.str k, surfToJson v])))]

def textOfJson (j : Json) : R Text :=
  match j.getObjVal? "bare", j.getObjVal? "syn" with
  | .ok s, _ => do return .bare (← s.getStr?)
  | _, .ok s => do return .syn (← surfOfJson s)
  | _, _ => throw s!"bad text {j.compress}"

def textToJson : Text → Json
  | .bare s => Json.mkObj [("bare", .str s)]
  | .syn s => Json.mkObj [("syn", surfToJson s)]

def outOfJson {α : Type} (f : Json → R α) (j : Json) : R (Option (Out α)) :=
  if j.isNull then pure none else
  match j.getObjVal? "ok", j.getObjVal? "err" with
  | .ok v, _ => do return some (.ok (← f v))
  | _, .ok c => do return some (.err (← c.getStr?))
  | _, _ => throw s!"bad outcome {j.compress}"

def outToJson {α : Type} (f : α → Json) : Option (Out α) → Json
  | none => .null
  | some (.ok a) => Json.mkObj [("ok", f a)]
  | some (.err c) => Json.mkObj [("err", .str c)]

def errClass : Err → String
  | .range => "bad"
  | .wrongType => "bad"
  | .other c => c

def ofExcept {α : Type} : Except Err α → Out α
  | .ok a => .ok a
  | .error e => .err (errClass e)

def ofOption {α : Type} : Option α → Out α
  | some a => .ok a
  | none => .err "exception"

def bind {α β : Type} (o : Option (Out α)) (f : α → Out β) : Option (Out β) :=
  match o with
  | some (.ok a) => some (f a)
  | _ => none

mutual
/-- no float leaf is `-0.0` (`Spec.C01.Canon`, executable) -/
partial def canonB : PVal Float → Bool
  | .float x => FloatOps.same (FloatOps.addZero x) x
  | .tuple l => l.all canonB
  | .list l => l.all canonB
  | .dict d => d.all (fun kv => canonB kv.2)
  | _ => true
end

mutual
partial def completeB : DType Float → PVal Float → Bool
  | .array e _ _, .tuple vs => vs.all (completeB e)
  | .tuple es, .tuple vs => (es.zip vs).all (fun (t, v) => completeB t v)
  | .struct ms _ client, .dict fields =>
    (client || (ms.map (·.1)).all (fun k => (fields.map (·.1)).contains k)) &&
    fields.all (fun (k, v) => match PVal.dictGet ms k with | some t => completeB t v | none => true)
  | _, _ => true
end

/-- `Spec.C02.LimitsOnGrid`, executable (hypothesis of `client_cache_string_write`) -/
partial def limitsB : DType Float → Bool
  | .scaled scale min max _ _ =>
    (match DType.snap scale min with | some lo => decide (SnapFix scale lo) | none => true) &&
    (match DType.snap scale max with | some hi => decide (SnapFix scale hi) | none => true)
  | .array e _ _ => limitsB e
  | .tuple es => es.all limitsB
  | .struct ms _ _ => ms.all (fun m => limitsB m.2)
  | _ => true

/-- the float leaf at `pos` prints as a text that reads back as `-0.0` (`'%.1f' % -0.04`): the recorded finding
`neg-zero-text` (`Props.C02.text_form_changes_where_format_law_fails`) -/
def readsNegZero (L : TextLib Float) (pos : List Nat) (x : Float) : Bool :=
  match L.evalAtom (L.fmtFloat pos x) with
  | some (.float z) => !FloatOps.isNaN z && !FloatOps.same (FloatOps.addZero z) z
  | _ => false

/-- the instances of `TextLib.Lawful.fmtDouble` / `fmtScaled` at the float leaves of `v` hold (a hypothesis of
`text_roundtrip`, decided here so that a case outside it is counted and not judged); `relaxed`: a leaf whose text
reads back as `-0.0` passes as well -/
partial def fmtLawB (L : TextLib Float) (relaxed : Bool) : List Nat → DType Float → PVal Float → Bool
  | pos, .double _ _ _ _, .float x =>
    (relaxed && readsNegZero L pos x) ||
    (match L.evalAtom (L.fmtFloat pos x) with
     | some w => (match PVal.toFloat? w with
       | some r => !FloatOps.isNaN r &&
           L.fmtFloat pos (FloatOps.median3 (FloatOps.neg FloatOps.maxFinite) r FloatOps.maxFinite) == L.fmtFloat pos x
       | none => false)
     | none => false)
  | pos, .scaled scale _ _ _ _, .float x =>
    (relaxed && readsNegZero L pos x) ||
    (match L.evalAtom (L.fmtFloat pos x) with
     | some w => (match PVal.toFloat? w with
       | some r => (match DType.snap scale r with
         | some y => FloatOps.isFinite y && L.fmtFloat pos y == L.fmtFloat pos x && decide (SnapFix scale y)
         | none => false)
       | none => false)
     | none => false)
  | pos, .array e _ _, .tuple vs => vs.all (fmtLawB L relaxed (pos ++ [0]) e)
  | pos, .tuple es, .tuple vs => ((es.zip vs).zipIdx).all (fun ((t, v), i) => fmtLawB L relaxed (pos ++ [i]) t v)
  | pos, .struct ms _ _, .dict fields =>
    fields.all (fun (k, v) =>
      match (ms.zipIdx).find? (fun (m, _) => m.1 == k) with
      | some ((_, t), i) => fmtLawB L relaxed (pos ++ [i]) t v
      | none => true)
  | _, _, _ => true

def handle (j : Json) : R Json := do
  let k ← fldStr j "k"
  match k with
  | "case" =>
    let dt ← dtypeOfJson (← fld j "dt")
    let v ← pvalOfJson (← fld j "v")
    let table ← (← fldArr j "fmt").mapM (fun e => do
      match ← arr e with
      | [p, a, b] => return ((← p.getStr?), (← a.getNat?), (← b.getNat?))
      | _ => throw "bad fmt entry")
    let L := lib table
    let impl ← fld j "impl"
    let io {α : Type} (f : Json → R α) (key : String) : R (Option (Out α)) := do
      match impl.getObjVal? key with
      | .ok x => outOfJson f x
      | .error _ => pure none
    -- ---- the model -------------------------------------------------------------------
    let mexp : Out (JVal Float) := ofExcept (exportValue dt v)
    let mnode := bind (some mexp) (fun jv => ofExcept (importValue dt jv))
    let cdt := clientOf dt
    let mclient := match cdt with
      | some c => bind (some mexp) (fun jv => ofExcept (importValue c jv))
      | none => none
    let mtext : Out Text := ofOption (toString L dt v)
    let mback := bind (some mtext) (fun t => ofExcept (fromString L dt t))
    let magain := bind mback (fun v' => ofOption (toString L dt v'))
    -- the client: cache item from the update, its text, the string write
    let mitem := match cdt with
      | some c => bind (some mexp) (fun jv => ofExcept (updateValue c jv))
      | none => none
    let mcval := bind mitem (fun item => .ok item.value)
    let mctext := match cdt with
      | some c => bind mitem (fun item => ofOption (item.str L c))
      | none => none
    let mcback := match cdt with
      | some c => bind mctext (fun t => ofExcept (fromString L c t))
      | none => none
    let mcagain := match cdt with
      | some c => bind mcback (fun v' => ofOption (toString L c v'))
      | none => none
    let msent := match cdt with
      | some c => bind mctext (fun t => ofExcept (clientSetFromString L c t))
      | none => none
    let mcnode := bind msent (fun jv => ofExcept (importValue dt jv))
    let mvsent := match cdt with
      | some c => bind mcval (fun cv => ofExcept (clientSet c cv))
      | none => none
    let mvnode := bind mvsent (fun jv => ofExcept (importValue dt jv))
    -- the command call: argument = the cached value; the node's command answers its argument
    let mxsent := match cdt with
      | some c => bind mcval (fun cv => ofExcept (clientExecArg c cv))
      | none => none
    let mxnode := bind mxsent (fun jv => ofExcept (importValue dt jv))
    let mxres := match cdt, mxnode with
      | some c, some (.ok _) => bind mxsent (fun jv => ofExcept (echoCommand dt c jv))
      | _, _ => none
    -- an error update (`updateValue(…, readerror)`): `str(entry)` is `repr(readerror)`, whatever the type
    let rerr := (j.getObjVal? "rerr").toOption.bind (fun x => x.getStr?.toOption)
    let metext : Option (Out Text) := match cdt, mcval, rerr with
      | some c, some (.ok _), some r => some (ofOption (CacheItem.str L c ⟨.none, some r⟩))
      | _, _, _ => none
    -- ---- the implementation, judged ------------------------------------------------------
    let iexp ← io jvalOfJson "exp"; let inode ← io pvalOfJson "node"; let iclient ← io pvalOfJson "client"
    let itext ← io textOfJson "text"; let iback ← io pvalOfJson "back"; let iagain ← io textOfJson "again"
    let icval ← io pvalOfJson "cval"; let ictext ← io textOfJson "ctext"; let icback ← io pvalOfJson "cback"
    let icagain ← io textOfJson "cagain"; let isent ← io jvalOfJson "sent"; let icnode ← io pvalOfJson "cnode"
    let ivsent ← io jvalOfJson "vsent"; let ivnode ← io pvalOfJson "vnode"
    let ixsent ← io jvalOfJson "xsent"; let ixnode ← io pvalOfJson "xnode"; let ixres ← io pvalOfJson "xres"
    let valid := validB dt v
    let canon := canonB v
    let complete := completeB dt v
    let fmtlaw := fmtLawB L false [] dt v
    -- the law fails only at leaves whose text reads back as -0.0: judged, under the recorded finding's clause names
    let negzero := !fmtlaw && fmtLawB L true [] dt v
    let cbuilt := match impl.getObjVal? "cdt" with
      | .ok x => (x.getObjVal? "err").toOption.isNone && !x.isNull
      | .error _ => false
    let verdict : List String :=
      if !valid then [] else
      (match iexp with
       | some e => judgeWire dt v e inode cbuilt iclient
       | none => ["export:missing"]) ++
      (if canon && complete && (fmtlaw || negzero) then
        (match itext with
         | some t => (judgeText v t iback iagain).map (fun c => if negzero then c ++ ":neg-zero-text" else c)
         | none => ["text:missing"])
       else []) ++
      (match icval, ictext with
       | some (.ok cv), some t =>
         (let claw := match cdt with | some c => fmtLawB L false [] c cv | none => false
          let cneg := !claw && (match cdt with | some c => fmtLawB L true [] c cv | none => false)
          if canonB cv && (claw || cneg) then
            (judgeText cv t icback icagain).map (fun c => "client-" ++ (if cneg then c ++ ":neg-zero-text" else c)) else []) ++
         (match icback, isent with
          | some b, some s => judgeClientWrite dt b s icnode
          | some (.ok _), none => ["cwrite:missing"]
          | _, _ => []) ++
         (match ivsent with
          | some s => (judgeClientWrite dt (.ok cv) s ivnode).map (fun c => "cset:" ++ (c.drop 7).toString)
          | none => ["cset:missing"]) ++
         (match ixsent with
          | some s => judgeCommand dt cv s ixnode ixres
          | none => ["cmd:missing"])
       | _, _ => [])
    -- hypothesis `Valid cdt v` of `client_cache_string_write`, decided on the value the implementation's cache holds
    let cvalid : Option Bool := match cdt, icval with
      | some c, some (.ok cv) => some (validB c cv)
      | _, _ => none
    let b64ok := match v with
      | .bytes b => Base64.decode? (Base64.encode b) == some b
      | _ => true
    return Json.mkObj [("wf", .bool dt.wfB), ("valid", .bool valid), ("canon", .bool canon), ("complete", .bool complete),
      ("fmtlaw", .bool fmtlaw), ("negzero", .bool negzero), ("cvalid", match cvalid with | some b => .bool b | none => .null), ("limits", .bool (limitsB dt)), ("model", Json.mkObj [
        ("exp", outToJson jvalToJson (some mexp)), ("node", outToJson pvalToJson mnode),
        ("client", outToJson pvalToJson mclient), ("cdt", jopt dtypeToJson cdt),
        ("text", outToJson textToJson (some mtext)), ("back", outToJson pvalToJson mback),
        ("again", outToJson textToJson magain), ("cval", outToJson pvalToJson mcval),
        ("ctext", outToJson textToJson mctext), ("cback", outToJson pvalToJson mcback),
        ("cagain", outToJson textToJson mcagain), ("sent", outToJson jvalToJson msent),
        ("cnode", outToJson pvalToJson mcnode), ("vsent", outToJson jvalToJson mvsent),
        ("vnode", outToJson pvalToJson mvnode), ("xsent", outToJson jvalToJson mxsent),
        ("xnode", outToJson pvalToJson mxnode), ("xres", outToJson pvalToJson mxres),
        ("etext", outToJson textToJson metext)]),
      ("judge", jstrs verdict), ("b64", .bool b64ok)]
  | _ => throw s!"C02: unknown verb {k}"

end Frappy.Drive.C02
