import FrappyDrive.Util
import FrappyModel.Spec.C18
/- line-protocol glue for C18 (not part of any theorem) -/
namespace Frappy.Drive.C18
open Lean Frappy.Drive Frappy.ExtParams Frappy.Spec.C18

def optInt (j : Json) : R (Option Int) := if j.isNull then pure none else some <$> j.getInt?

def parseDict (j : Json) : R Dict := do
  (← arr j).mapM (fun e => do
    match (← arr e) with
    | [k, v] => return (← k.getStr?, ← v.getInt?)
    | _ => throw "bad dict entry")

def optDict (j : Json) : R (Option Dict) := if j.isNull then pure none else some <$> parseDict j

def excKind? : String → Option ExcKind
  | "fail:secop" => some .secop
  | "fail:value" => some .value
  | "fail:key" => some .key
  | "fail:zerodiv" => some .zerodiv
  | _ => none

def excName : ExcKind → String
  | .secop => "secop"
  | .value => "value"
  | .key => "key"
  | .zerodiv => "zerodiv"

def jexc (e : Option ExcKind) : Json := jopt (fun k => Json.str (excName k)) e

def wresWith (f : Json → R α) (j : Json) : R (WRes α) :=
  match j with
  | .str "none" => pure .retNone
  | .str t => match excKind? t with
    | some k => pure (.fail k)
    | none => throw s!"bad write outcome {t}"
  | _ => .ret <$> f j

def rresWith (f : Json → R α) (j : Json) : R (RRes α) :=
  match j with
  | .str t => match excKind? t with
    | some k => pure (.fail k)
    | none => throw s!"bad read outcome {t}"
  | _ => .ok <$> f j

def jdict (d : Dict) : Json := jarr (d.map (fun e => jarr [Json.str e.1, jint e.2]))

/-! struct -/

def parseSOp (members : List String) (j : Json) : R Op := do
  match (← arr j) with
  | [.str "readStruct", rA, rB] =>
    let rs ← (← arr rB).mapM (rresWith (·.getInt?))
    return .readStruct (← rresWith parseDict rA) (fun m => ((members.zip rs).lookup m).getD (.fail .secop))
  | [.str "writeStruct", v, wA, wB] =>
    let ws ← (← arr wB).mapM (wresWith (·.getInt?))
    return .writeStruct (← parseDict v) (← wresWith parseDict wA) (fun m => ((members.zip ws).lookup m).getD (.fail .secop))
  | [.str "readMember", m, rA, rB] =>
    return .readMember (← m.getStr?) (← rresWith parseDict rA) (← rresWith (·.getInt?) rB)
  | [.str "writeMember", m, v, wA, rA, wB, rB] =>
    return .writeMember (← m.getStr?) (← v.getInt?) (← wresWith parseDict wA) (← rresWith parseDict rA)
      (← wresWith (·.getInt?) wB) (← rresWith (·.getInt?) rB)
  | [.str "assignStruct", v] => return .driverAssignStruct (← parseDict v)
  | [.str "assignMember", m, v] => return .driverAssignMember (← m.getStr?) (← v.getInt?)
  | _ => throw s!"bad struct op {j.compress}"

def evJson : Ev → Json
  | .struct d => jarr [Json.str "struct", jdict d]
  | .mem m x => jarr [Json.str "mem", Json.str m, jint x]

def stJson (s : St) : Json :=
  Json.mkObj [("struct", jdict s.struct), ("mem", jdict s.mem), ("sP", Json.bool s.sP),
              ("mP", jarr (s.mem.map (fun e => Json.bool (s.mP.contains e.1)))),
              ("evs", jarr (s.evs.map evJson)), ("ok", Json.bool s.ok), ("exc", jexc s.exc)]

def structCfg (j : Json) : R Cfg := do
  let hr ← fldStrs j "hasR"; let hw ← fldStrs j "hasW"
  return { members := ← fldStrs j "members", hasRS := ← fldBool j "hasRS", hasWS := ← fldBool j "hasWS",
           hasR := fun m => hr.contains m, hasW := fun m => hw.contains m,
           omitUnch := match j.getObjVal? "omit" with | .ok (.bool b) => b | _ => false }

def parseAOp (j : Json) : R AOp := do
  match (← arr j) with
  | [.str "assignStruct", v] => return .assignStruct (← parseDict v)
  | [.str "assignMember", m, v] => return .assignMember (← m.getStr?) (← v.getInt?)
  | _ => throw s!"bad overlapping assignment {j.compress}"

def parseAOps (j : Json) : R (List AOp) := do (← arr j).mapM parseAOp

/-- `{"before": [[m, [aop, ..]], ..], "seen": [[m, x], ..], "atEnd": [..], "afterRead": [..], "beforeErr": [..]}` -/
def parseOverlap (j : Json) : R Overlap := do
  let bef ← (← fldArr j "before").mapM (fun e => do
    match (← arr e) with
    | [m, ops] => return (← m.getStr?, ← parseAOps ops)
    | _ => throw "bad overlap entry")
  let seen ← (← fldArr j "seen").mapM (fun e => do
    match (← arr e) with
    | [m, x] => return (← m.getStr?, ← x.getInt?)
    | _ => throw "bad seen entry")
  return { before := fun m => (bef.lookup m).getD [], seen := fun m => seen.lookup m,
           atEnd := ← parseAOps (← fld j "atEnd"), afterRead := ← parseAOps (← fld j "afterRead"),
           beforeErr := ← parseAOps (← fld j "beforeErr") }

def parseOOp (members : List String) (j : Json) : R OOp := do
  match (← arr j) with
  | [.str "seq", op] => return .seq (← parseSOp members op)
  | [.str "readStructO", rA, rB, ov] =>
    let rs ← (← arr rB).mapM (rresWith (·.getInt?))
    return .readStructO (← rresWith parseDict rA) (fun m => ((members.zip rs).lookup m).getD (.fail .secop)) (← parseOverlap ov)
  | [.str "writeStructO", v, wA, wB, ov] =>
    let ws ← (← arr wB).mapM (wresWith (·.getInt?))
    return .writeStructO (← parseDict v) (← wresWith parseDict wA) (fun m => ((members.zip ws).lookup m).getD (.fail .secop))
      (← parseOverlap ov)
  | [.str "readMemberO", m, rA, iv] =>
    return .readMemberO (← m.getStr?) (← rresWith parseDict rA) (← (← arr iv).mapM parseAOps)
  | [.str "writeMemberO", m, v, wA, rA, rB, iv] =>
    return .writeMemberO (← m.getStr?) (← v.getInt?) (← wresWith parseDict wA) (← rresWith parseDict rA)
      (← rresWith (·.getInt?) rB) (← (← arr iv).mapM parseAOps)
  | _ => throw s!"bad overlapped struct op {j.compress}"

/-! float/enum -/

def parseVdict (j : Json) : R (List (Int × Val)) := do
  (← arr j).mapM (fun e => do
    match (← arr e) with
    | [k, v] => return (← k.getInt?, ← v.getInt?)
    | _ => throw "bad vdict entry")

def parseFOp (j : Json) : R FOp := do
  match (← arr j) with
  | [.str "writeFloat", x, w] => return .writeFloat (← x.getInt?) (← wresWith (·.getInt?) w)
  | [.str "writeIdx", i, w] => return .writeIdx (← i.getInt?) (← wresWith (·.getInt?) w)
  | [.str "readIdx", r] => return .readIdx (← rresWith (·.getInt?) r)
  | [.str "readFloat"] => return .readFloat
  | [.str "assignIdx", i] => return .driverAssignIdx (← i.getInt?)
  | [.str "assignFloat", x] => return .driverAssignFloat (← x.getInt?)
  | _ => throw s!"bad floatenum op {j.compress}"

def fevJson : FEv → Json
  | .value x => jarr [Json.str "value", jint x]
  | .idx i => jarr [Json.str "idx", jint i]

def fstJson (s : FSt) : Json :=
  Json.mkObj [("idx", jint s.idx), ("value", jint s.value), ("idxErr", Json.bool s.idxErr), ("valErr", Json.bool s.valErr),
              ("evs", jarr (s.evs.map fevJson)), ("ok", Json.bool s.ok), ("exc", jexc s.exc)]

def parseFRec (j : Json) : R FRec := do
  return { write := ← optInt (← fld j "write"), assign := ← optInt (← fld j "assign"), ok := ← fldBool j "ok",
           selected := ← optInt (← fld j "selected"),
           idx := ← fldInt j "idx", value := ← fldInt j "value" }

def parseLabelSpec (j : Json) : R LabelSpec := do
  match (← arr j) with
  | [i, l, v, d] => return { idx := ← optInt i, label := ← l.getStr?, value := ← optInt v, derived := ← optInt d }
  | _ => throw "bad label spec"

/-! limits -/

def parseCRes (j : Json) : R CRes :=
  match j with
  | .str "pass" => pure .pass
  | .str "stop" => pure .stop
  | .str t => match excKind? t with
    | some k => pure (.fail k)
    | none => throw s!"bad check outcome {t}"
  | _ => throw "bad check outcome"

def parseLayer (j : Json) : R Layer := do
  match (← arr j) with
  | [a, b, c, d] => return { declMin := ← a.getBool?, declMax := ← b.getBool?, declLimits := ← c.getBool?, ownCheck := ← d.getBool? }
  | [a, b, c, d, r] =>
    let ro ← (match r with | .null => pure none | .bool x => pure (some x) | _ => throw "bad readonly of a layer" : R (Option Bool))
    return { declMin := ← a.getBool?, declMax := ← b.getBool?, declLimits := ← c.getBool?, ownCheck := ← d.getBool?, ro := ro }
  | _ => throw "bad layer"

def parseLOp (j : Json) : R LOp := do
  match (← arr j) with
  | [.str "write", x, c, w] => return .write (← x.getInt?) (← (← arr c).mapM parseCRes) (← wresWith (·.getInt?) w)
  | [.str "write", x, c, w, cl] => return .write (← x.getInt?) (← (← arr c).mapM parseCRes) (← wresWith (·.getInt?) w) (← cl.getBool?)
  | [.str "writeMin", x] => return .writeMin (← x.getInt?)
  | [.str "writeMax", x] => return .writeMax (← x.getInt?)
  | [.str "writeLimits", a, b] => return .writeLimits (← a.getInt?) (← b.getInt?)
  | [.str "assign", x] => return .driverAssign (← x.getInt?)
  | [.str "assignMin", x] => return .driverAssignMin (← x.getInt?)
  | [.str "assignMax", x] => return .driverAssignMax (← x.getInt?)
  | [.str "assignLimits", a, b] => return .driverAssignLimits (← a.getInt?) (← b.getInt?)
  | _ => throw s!"bad limits op {j.compress}"

def levJson : LEv → Json
  | .value x => jarr [Json.str "value", jint x]
  | .min x => jarr [Json.str "min", jint x]
  | .max x => jarr [Json.str "max", jint x]
  | .limits a b => jarr [Json.str "limits", jint a, jint b]

def lstJson (s : LSt) : Json :=
  Json.mkObj [("value", jint s.value), ("min", jint s.min), ("max", jint s.max),
              ("limits", jarr [jint s.limits.1, jint s.limits.2]),
              ("errs", jarr [Json.bool s.vErr, Json.bool s.minErr, Json.bool s.maxErr, Json.bool s.limErr]),
              ("evs", jarr (s.evs.map levJson)), ("ok", Json.bool s.ok),
              ("exc", jexc s.exc)]

def optPair (j : Json) : R (Option (Val × Val)) := do
  if j.isNull then return none
  match (← arr j) with
  | [a, b] => return some (← a.getInt?, ← b.getInt?)
  | _ => throw "bad pair"

def parseLimits (j : Json) : R Limits := do
  return { min := ← optInt (← fld j "min"), max := ← optInt (← fld j "max"), limits := ← optPair (← fld j "limits") }

def parseLRec (j : Json) : R LRec := do
  return { write := ← optInt (← fld j "write"), stopAt := ← optNat (← fld j "stopAt"), echo := ← fldBool j "echo", setLimits := ← optPair (← fld j "setLimits"),
           ok := ← fldBool j "ok", before := ← parseLimits (← fld j "before"), after := ← parseLimits (← fld j "after"),
           value := ← fldInt j "value" }

def lcfg (j : Json) : R LCfg := do
  return { lo := ← fldInt j "lo", hi := ← fldInt j "hi", layers := ← (← fldArr j "layers").mapM parseLayer,
           hasW := ← fldBool j "hasW", omitUnch := ← fldBool j "omit",
           roCfg := match j.getObjVal? "roCfg" with | .ok (.bool b) => some b | _ => none }

/-! control -/

def parseCOp (j : Json) : R Frappy.Control.Op := do
  match (← arr j) with
  | [.str "writeIn", k, g] => return .writeIn (← k.getNat?) (← g.getBool?)
  | [.str "writeOut", o] => return .writeOut (← o.getNat?)
  | [.str "activate", k] => return .activate (← k.getNat?)
  | [.str "deactivate", k] => return .deactivate (← k.getNat?)
  | [.str "selfControlled", o] => return .selfControlled (← o.getNat?)
  | [.str "updateTarget", o, k] => return .updateTarget (← o.getNat?) (← k.getNat?)
  | _ => throw s!"bad control op {j.compress}"

def parseSRes (j : Json) : R Frappy.Control.SRes :=
  match j with
  | .str "ok" => pure .ok
  | .str "before" => pure .failBefore
  | .str "after" => pure .failAfter
  | _ => throw s!"bad set_control_active outcome {j.compress}"

/-- `[[input, active, outcome], …]` → what the `set_control_active` methods do during one operation -/
def parseFaults (j : Json) : R Frappy.Control.Faults := do
  let es ← (← arr j).mapM (fun e => do
    match (← arr e) with
    | [i, b, r] => return ((← i.getNat?), (← b.getBool?), (← parseSRes r))
    | _ => throw "bad fault entry")
  return fun i b => match es.find? (fun e => e.1 == i && e.2.1 == b) with
    | some e => e.2.2
    | none => .ok

/-- an operation with its faults: `{"op": […], "faults": […]}` or the bare operation -/
def parseCOpF (j : Json) : R (Frappy.Control.Op × Frappy.Control.Faults) := do
  match j.getObjVal? "op" with
  | .ok o => return (← parseCOp o, ← parseFaults (← fld j "faults"))
  | .error _ => return (← parseCOp j, Frappy.Control.noFaults)

def controlCfg (j : Json) : R (Frappy.Control.Cfg × List Nat) := do
  let outs ← fldNats j "outs"
  let om := match j.getObjVal? "omit" with | .ok (.bool b) => b | _ => false
  return ({ n := outs.length, nout := ← fldNat j "nout", outOf := fun i => outs.getD i 0, omitUnch := om }, outs)

def optBools (j : Json) (k : String) : List Bool :=
  match j.getObjVal? k with
  | .ok (.arr a) => a.toList.map (fun x => match x with | .bool b => b | _ => false)
  | _ => []

def cevJson : Frappy.Control.Ev → Json
  | .cb o c => jarr [Json.str "cb", jnat o, jopt jnat c]
  | .act i b => jarr [Json.str "act", jnat i, Json.bool b]

def cstJson (cfg : Frappy.Control.Cfg) (s : Frappy.Control.St) : Json :=
  Json.mkObj [("cb", jarr ((List.range cfg.nout).map (fun o => jopt jnat (s.cb o)))),
              ("act", jarr ((List.range cfg.n).map (fun i => Json.bool (s.act i)))),
              ("cbP", jarr ((List.range cfg.nout).map (fun o => Json.bool (s.cbP o)))),
              ("actP", jarr ((List.range cfg.n).map (fun i => Json.bool (s.actP i)))),
              ("evs", jarr (s.evs.map cevJson)), ("ok", Json.bool s.ok)]

/-- the output whose `strong` expectation ends with this operation: a direct `deactivate_control` of one of its inputs, or
an operation on it that did not return (a take-over that stopped half-way may leave the output naming an input that is not
marked — never the other way round) -/
def weakens (cfg : Frappy.Control.Cfg) (ok : Bool) : Frappy.Control.Op → Option Nat
  | .deactivate k => if Frappy.Control.validIn cfg k then some (cfg.outOf k) else none
  | op => if ok then none else some (targetOf cfg op)

/-- records for the monitor: the clause that applies to each operation is read off the operation and the
flags recorded before it -/
def mkCRecs (cfg : Frappy.Control.Cfg) : List (Frappy.Control.Op × (Bool × List (Option Nat) × List Bool)) →
    (List (Option Nat) × List Bool) → List Bool → List CRec
  | [], _, _ => []
  | (op, (ok, cb, act)) :: rest, (cbB, actB), strong =>
    let strong' := match weakens cfg ok op with
      | some o => strong.set o false
      | none => strong
    { takeover := takeoverOf cfg (fun i => actB.getD i false) op, target := some (targetOf cfg op), ok := ok, strong := strong',
      cbB := cbB, actB := actB, cb := cb, act := act } :: mkCRecs cfg rest (cb, act) strong'

def parseCState (j : Json) : R (Bool × List (Option Nat) × List Bool) := do
  let ok := match j.getObjVal? "ok" with | .ok (.bool b) => b | _ => true
  return (ok, ← (← fldArr j "cb").mapM optNat, ← (← fldArr j "act").mapM (·.getBool?))

/-- indices of all records the monitor rejects -/
def badIdxs {α : Type} (okB : α → Bool) : List α → Nat → List Nat
  | [], _ => []
  | r :: rest, i => if okB r then badIdxs okB rest (i + 1) else i :: badIdxs okB rest (i + 1)

def verdict (first : Option Nat) (all : List Nat) : Json :=
  Json.mkObj [("bad", jopt jnat first), ("bads", jnats all)]

def handle (j : Json) : R Json := do
  let k ← fldStr j "k"
  match k with
  | "struct" =>
    let cfg ← structCfg j; let ops ← (← fldArr j "ops").mapM (parseSOp cfg.members)
    let sP0 := match j.getObjVal? "sP0" with | .ok (.bool b) => b | _ => false
    let mP0 := match j.getObjVal? "mP0" with
      | .ok (.arr a) => a.toList.filterMap (fun x => match x with | .str m => some m | _ => none)
      | _ => []
    let s0 : St := { init cfg with sP := sP0, mP := mP0 }
    return Json.mkObj [("init", stJson s0), ("states", jarr ((run cfg s0 ops).map stJson))]
  | "struct_overlap" =>
    let cfg ← structCfg j; let ops ← (← fldArr j "ops").mapM (parseOOp cfg.members)
    let sP0 := match j.getObjVal? "sP0" with | .ok (.bool b) => b | _ => false
    let mP0 := match j.getObjVal? "mP0" with
      | .ok (.arr a) => a.toList.filterMap (fun x => match x with | .str m => some m | _ => none)
      | _ => []
    let s0 : St := { init cfg with sP := sP0, mP := mP0 }
    return Json.mkObj [("init", stJson s0), ("states", jarr ((orun cfg s0 ops).map stJson))]
  | "judge_struct" =>
    let members ← fldStrs j "members"
    -- a record: [struct, members] or [struct, members, {ok, announced, flagged}] (error states)
    let trace ← (← fldArr j "trace").mapM (fun e => do
      match (← arr e) with
      | [a, b] => return (← parseDict a, ← parseDict b, ({} : SInfo))
      | [a, b, i] => return (← parseDict a, ← parseDict b,
          ({ ok := ← fldBool i "ok", announced := ← fldBool i "announced", flagged := ← fldStrs i "flagged" } : SInfo))
      | _ => throw "bad trace entry")
    let bads := badIdxs (structRecOkB members) trace 0
    -- which clause each rejected record breaks (for the report)
    let clauses := (trace.zip (List.range trace.length)).filterMap (fun (e, i) =>
      if structRecOkB members e then none
      else some (jarr [jnat i, Json.str (if membersAgreeB members e.1 e.2.1 then "member-left-in-error-state" else "values-differ")]))
    return Json.mkObj [("bad", jopt jnat (judgeStructR members trace 0)), ("bads", jnats bads), ("clauses", jarr clauses)]
  | "floatenum" =>
    let cfg : FCfg := { vdict := ← parseVdict (← fld j "vdict"), lo := ← fldInt j "lo", hi := ← fldInt j "hi",
                        hasR := ← fldBool j "hasR", hasW := ← fldBool j "hasW", omitUnch := ← fldBool j "omit" }
    let ops ← (← fldArr j "ops").mapM parseFOp
    let s0 := finit cfg (← fldInt j "idx0") (← fldBool j "idxErr0") (← fldBool j "valErr0")
    return Json.mkObj [("init", fstJson s0), ("states", jarr ((frun cfg s0 ops).map fstJson))]
  | "judge_floatenum" =>
    let vdict ← parseVdict (← fld j "vdict")
    let trace ← (← fldArr j "trace").mapM parseFRec
    return verdict (judgeFloatEnum vdict trace 0) (badIdxs (floatEnumOkB vdict) trace 0)
  | "labels" =>
    let specs ← (← fldArr j "specs").mapM parseLabelSpec
    match parseLabels specs with
    | none => return Json.mkObj [("ok", Json.bool false)]
    | some r => return Json.mkObj [("ok", Json.bool true),
        ("edict", jarr (r.edict.map (fun e => jarr [Json.str e.1, jint e.2]))),
        ("vdict", jarr (r.vdict.map (fun e => jarr [jint e.1, jint e.2]))), ("lo", jint r.lo), ("hi", jint r.hi)]
  | "limits" =>
    let cfg ← lcfg j; let ops ← (← fldArr j "ops").mapM parseLOp
    let errs ← (← fldArr j "errs0").mapM (·.getBool?)
    let s0 := linit cfg (← fldInt j "value0") (errs.getD 0 false) (errs.getD 1 false) (errs.getD 2 false) (errs.getD 3 false)
    return Json.mkObj [("init", lstJson s0), ("states", jarr ((lrun cfg s0 ops).map lstJson))]
  | "judge_limits" =>
    let layers ← (← fldArr j "layers").mapM parseLayer
    let trace ← (← fldArr j "trace").mapM parseLRec
    return verdict (judgeLimits layers trace 0) (badIdxs (limitsOkB layers) trace 0)
  | "control" =>
    let (cfg, _) ← controlCfg j; let ops ← (← fldArr j "ops").mapM parseCOpF
    let cbP0 := optBools j "cbP0"; let actP0 := optBools j "actP0"
    let s0 : Frappy.Control.St := { Frappy.Control.init with cbP := fun o => cbP0.getD o false, actP := fun i => actP0.getD i false }
    return Json.mkObj [("init", cstJson cfg s0),
                       ("states", jarr ((Frappy.Control.run cfg s0 ops).map (cstJson cfg)))]
  | "judge_control" =>
    let (cfg, outs) ← controlCfg j; let ops ← (← fldArr j "ops").mapM (fun o => do return (← parseCOpF o).1)
    let sts ← (← fldArr j "trace").mapM parseCState
    if sts.length ≠ ops.length + 1 then throw "length mismatch (the trace starts with the initial state)"
    let (_, cb0, act0) := sts.head!
    let strong0 := List.replicate cfg.nout true
    let recs := { takeover := .no, target := none, strong := strong0, cbB := cb0, actB := act0, cb := cb0, act := act0 : CRec }
      :: mkCRecs cfg (ops.zip sts.tail!) (cb0, act0) strong0
    return verdict (judgeControl cfg.n cfg.nout outs recs 0) (badIdxs (controlOkB cfg.n cfg.nout outs) recs 0)
  | _ => throw s!"C18: unknown verb {k}"

end Frappy.Drive.C18
