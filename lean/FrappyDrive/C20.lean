import FrappyDrive.Util
import FrappyModel.Spec.C20
import FrappyModel.Generated.C20
/- line-protocol glue for C20 -/
namespace Frappy.Drive.C20
open Lean Frappy.Drive Frappy.Logging Frappy.Spec.C20

def tables : Tables := ⟨Generated.C20.logLevels, Generated.C20.logOff⟩

def isLogName (pfx : String) (name : String) : Bool :=
  name.startsWith (pfx ++ "-") && name.endsWith ".log"

def strLe (a b : String) : Bool := decide (a ≤ b)

def levelArg (j : Json) : LevelArg :=
  match j with
  | .str s => .name s
  | .num n => if n.exponent == 0 && n.mantissa ≥ 0 then .num n.mantissa.toNat else .bad
  | _ => .bad

def parseOp (j : Json) : R Op := do
  let a ← arr j
  match a with
  | [.str "logging", c, spec, lvl] => return .logging (← c.getNat?) (← optStr spec) (levelArg lvl)
  | [.str "emit", m, lvl] => return .emit (← m.getStr?) (← lvl.getNat?)
  | [.str "ident", c] => return .ident (← c.getNat?)
  | [.str "disconnect", c] => return .disconnect (← c.getNat?)
  | _ => throw s!"bad op {j.compress}"

def outJson : Out → Json
  | .ok => Json.str "ok"
  | .error => Json.str "error"
  | .delivered cs => jnats cs

def parseOut (j : Json) : R Out :=
  match j with
  | .str "ok" => pure .ok
  | .str "error" => pure .error
  | .arr _ => do return .delivered (← (← arr j).mapM (·.getNat?))
  | _ => throw "bad out"

def handle (j : Json) : R Json := do
  let k ← fldStr j "k"
  match k with
  | "rotate" =>
    let dir ← fldStrs j "dir"; let new ← fldStr j "new"; let n ← fldNat j "n"; let pfx ← fldStr j "prefix"
    return Json.mkObj [("after", jstrs (Frappy.Rotate.rollover strLe (isLogName pfx) dir new n))]
  | "judge_rotate" =>
    let dir ← fldStrs j "dir"; let new ← fldStr j "new"; let n ← fldNat j "n"; let pfx ← fldStr j "prefix"
    let after ← fldStrs j "after"
    let ok := if n = 0 then keepsAllB dir new after else keepsNewestB strLe (isLogName pfx) dir new n after
    return Json.mkObj [("ok", Json.bool ok)]
  | "route" =>
    let mods ← fldStrs j "mods"; let ops ← (← fldArr j "ops").mapM parseOp
    return Json.mkObj [("outs", jarr ((run tables mods [] ops).map outJson))]
  | "judge_route" =>
    let mods ← fldStrs j "mods"; let ops ← (← fldArr j "ops").mapM parseOp
    let outs ← (← fldArr j "outs").mapM parseOut
    if outs.length ≠ ops.length then throw "length mismatch"
    return Json.mkObj [("bad", jopt jnat (judgeRouting tables mods (ops.zip outs)))]
  | "conc_final" =>
    -- the table after a sequential prefix and a concurrent phase (any interleaving gives the same one for every
    -- connection that is served by one thread: `conc_depends_on_own`), as sorted triples
    let mods ← fldStrs j "mods"; let pre ← (← fldArr j "pre").mapM parseOp
    let threads ← (← fldArr j "threads").mapM (fun th => do (← arr th).mapM parseOp)
    let s := finalState tables mods [] (pre ++ threads.flatten)
    return Json.mkObj [("table", jarr (s.map (fun e => Json.arr #[Json.str e.1.1, jnat e.1.2, jnat e.2])))]
  | "judge_conc" =>
    let mods ← fldStrs j "mods"
    let parseTrace (x : Json) : R (List (Op × Out)) := do
      (← arr x).mapM (fun e => do
        match (← arr e) with
        | [o, r] => return (← parseOp o, ← parseOut r)
        | _ => throw "bad trace entry")
    let pre ← parseTrace (← fld j "pre")
    let threads ← (← fldArr j "threads").mapM parseTrace
    let post ← parseTrace (← fld j "post")
    return Json.mkObj [("bad", match judgeConc tables mods pre threads post with
      | some (ph, i) => Json.arr #[jnat ph, jnat i]
      | none => Json.null)]
  | _ => throw s!"C20: unknown verb {k}"

end Frappy.Drive.C20
