import FrappyDrive.Util
import FrappyModel.Spec.C05
import FrappyModel.Node.UpdateSys
import FrappyModel.Node.Transport
import FrappyModel.Generated.C05
/- line-protocol glue for C05.  Values and errors are numbers chosen by the harness (one number per distinct
exported form / per distinct `SECoPError.__eq__` class); the oracle tables say what Python computed on them. -/
namespace Frappy.Drive.C05
open Lean Frappy.Drive Frappy.Update Frappy.UpdateSys Frappy.Spec.C05 Frappy.Transport

abbrev S := VE Nat Nat

def veJson : S → Json
  | .val v => jarr [Json.str "v", jnat v]
  | .err e => jarr [Json.str "e", jnat e]

def parseVe (j : Json) : R S := do
  match (← arr j) with
  | [.str "v", n] => return .val (← n.getNat?)
  | [.str "e", n] => return .err (← n.getNat?)
  | _ => throw s!"bad value-or-error {j.compress}"

def isErr : S → Bool
  | .err _ => true
  | .val _ => false

/-- `[[raw, ok|null, err|null], …]` → conversion function (unknown raw: identity) -/
def parseTable (l : List Json) : R (List (Nat × Except Nat Nat)) :=
  l.mapM fun j => do
    match (← arr j) with
    | [raw, ok, er] =>
      if ok.isNull then return (← raw.getNat?, .error (← er.getNat?)) else return (← raw.getNat?, .ok (← ok.getNat?))
    | _ => throw "bad table row"

def lookupT (t : List (Nat × Except Nat Nat)) (v : Nat) : Except Nat Nat :=
  match t.find? (fun r => r.1 == v) with
  | some r => r.2
  | none => .ok v

def parsePairs (l : List Json) : R (List (Nat × Nat)) :=
  l.mapM fun j => do
    match (← arr j) with
    | [a, b] => return (← a.getNat?, ← b.getNat?)
    | _ => throw "bad pair"

def parseOracle (j : Json) : R (Oracle Nat Nat) := do
  let eq ← parsePairs (← fldArr j "eq")
  let conv ← parseTable (← fldArr j "conv")
  let valid ← parseTable (← fldArr j "valid")
  return ⟨fun a b => eq.contains (a, b), lookupT conv, lookupT valid⟩

def optInt (j : Json) : R (Option Int) := if j.isNull then pure none else some <$> j.getInt?

def parseEntry (j : Json) : R (Entry Nat Nat) := do
  let w := effWindow (← optInt (← fld j "uu")) (← optInt (← fld j "mw")) (← fldInt j "gw")
  return ⟨← fldNat j "value", ← optNat (← fld j "err"), ← fldInt j "ts", w⟩

def parseWriteRes (j : Json) : R (WriteRes Nat) := do
  match (← arr j) with
  | [.str "absent"] => return .absent
  | [.str "none"] => return .none
  | [.str "ret", v] => return .returns (← v.getNat?)
  | [.str "raise"] => return .raises
  | [.str "done"] => return .done
  | _ => throw "bad write result"

def parseReadRes (l : List Json) : R (ReadRes Nat Nat) := do
  match l with
  | [.str "ret", v] => return .returns (← v.getNat?)
  | [.str "raise", e] => return .raises (← e.getNat?)
  | [.str "done"] => return .done
  | _ => throw "bad read result"

/-- what one operation of a history does: the calls of the funnel made by the body of the driver method (assignments),
the call the wrapper / the operation itself makes (if any), and the program of the thread in the small-step system -/
structure Call where
  inner : List (Ev Nat Nat)
  final : Option (Ev Nat Nat)
  prog : Pid → TsArg → List (Op Nat Nat)

def parseBase (o : Oracle Nat Nat) (inner : List Nat) (j : Json) : R Call := do
  match (← arr j) with
  | .str "read" :: rest =>
    let res ← parseReadRes rest
    return ⟨innerEvs inner, readEv o res, fun p _ => guarded p (readEvs o inner res)⟩
  | [.str "write", raw, ck, w] =>
    let raw ← raw.getNat?; let ck ← ck.getBool?; let w ← parseWriteRes w
    return ⟨writeInner o raw ck inner w, writeEv o raw ck w, fun p _ => guarded p (writeEvs o raw ck inner w)⟩
  | [.str "assign", v] =>
    let ev : Ev Nat Nat := assignEv (← v.getNat?)
    return ⟨[], some ev, fun p ts => [.announce p ev ts]⟩
  -- assignment to a parameter that is not exported: its funnel runs (`unexported_silent`), nothing is sent, the
  -- observed parameter is untouched
  | [.str "hidden", _] => return ⟨[], none, fun _ _ => []⟩
  | [.str "announce", v, e, vd] =>
    let ev : Ev Nat Nat ← if e.isNull then pure (Ev.value (← v.getNat?) (← vd.getBool?)) else pure (Ev.error (← e.getNat?))
    return ⟨[], some ev, fun p ts => [.announce p ev ts]⟩
  -- requests that come through the dispatcher: `k` = the connection that sent it
  | [.str "change", k, ro, imp, ck, w] =>
    let k ← k.getNat?; let ck ← ck.getBool?; let w ← parseWriteRes w
    let rq : ChangeReq Nat := ⟨← ro.getBool?, ← optNat imp⟩
    let arg := changeArg o rq
    return ⟨(arg.map (fun v => writeInner o v ck inner w)).getD [], arg.bind (fun v => writeEv o v ck w),
            fun p _ => changeOps o k p rq ck inner w⟩
  | [.str "do", k] =>
    let k ← k.getNat?
    return ⟨innerEvs inner, none, fun p _ => doOps k p inner⟩
  | .str "rread" :: k :: rest =>
    let k ← k.getNat?
    let res ← parseReadRes rest
    return ⟨innerEvs inner, readEv o res, fun p _ => readReqOps o k p inner res⟩
  | _ => throw s!"bad op {j.compress}"

/-- `["inner", [v, …], op]`: the body of the driver method of `op` assigns the values `v, …` to the parameter first -/
def parseCall (o : Oracle Nat Nat) (j : Json) : R Call := do
  match (← arr j) with
  | [.str "inner", vs, base] => parseBase o (← (← arr vs).mapM (·.getNat?)) base
  | _ => parseBase o [] j

/-- the observation points of one operation: after every assignment of the driver body, and at the end -/
def Call.points (c : Call) : List (Option (Ev Nat Nat)) := c.inner.map some ++ [c.final]

def outJson (out : Out Nat Nat) : Json :=
  Json.mkObj [("msgs", jarr ((out.msg.toList).map (fun m => jarr [veJson m.ve, jint m.t]))),
              ("cache", veJson out.entry.ve), ("ts", jint out.entry.timestamp)]

def parseObs (j : Json) : R (Obs S) := do
  return ⟨← (← fldArr j "msgs").mapM parseVe, ← parseVe (← fld j "cache")⟩

/-! ### activation inside sequential histories -/

inductive SeqOp where
  | call (c : Call)
  | activate (k : Nat) (ps : List Nat)

def parseSeqOp (o : Oracle Nat Nat) (j : Json) : R SeqOp := do
  match (← arr j) with
  | [.str "activate", k, ps] => return .activate (← k.getNat?) (← (← arr ps).mapM (·.getNat?))
  | _ => return .call (← parseCall o j)

def pmsgJson (m : Nat × Msg Nat Nat) : Json := jarr [jnat m.1, veJson m.2.ve, jint m.2.t]

/-- what every connection receives during one operation: the broadcast messages of the parameters it is subscribed
to, and — for the connection that activates — the snapshot -/
def recvJson (cids : List Nat) (act : Nat → Nat → Bool) (bcast : List (Nat × Msg Nat Nat)) (snapTo : Option Nat)
    (snap : List (Nat × Msg Nat Nat)) : Json :=
  jarr (cids.map (fun c => jarr (((if snapTo = some c then snap else []) ++ bcast.filter (fun m => act c m.1)).map pmsgJson)))

def parseAct0 (j : Json) : R (Nat → Nat → Bool) := do
  match j.getObjVal? "act0" with
  | .error _ => return fun _ _ => false
  | .ok a =>
    let rows ← (← arr a).mapM (fun r => do
      match (← arr r) with
      | [k, ps] => return (← k.getNat?, ← (← arr ps).mapM (·.getNat?))
      | _ => throw "bad act0 row")
    return fun k p => rows.any (fun r => r.1 == k && r.2.contains p)

def cidsOf (j : Json) : R (List Nat) :=
  match j.getObjVal? "cids" with
  | .error _ => pure []
  | .ok _ => fldNats j "cids"

/-- the observation points of one operation on parameter 0: one output per point -/
def pointOuts (o : Oracle Nat Nat) (cids : List Nat) (act : Nat → Nat → Bool) (now : Int) :
    Entry Nat Nat → List (Option (Ev Nat Nat)) → Entry Nat Nat × List Json
  | e, [] => (e, [])
  | e, some ev :: rest =>
    let out := announce o e now ev
    let r := pointOuts o cids act now out.entry rest
    (r.1, (outJson out).setObjVal! "recv" (recvJson cids act (out.msg.toList.map (fun m => (0, m))) none []) :: r.2)
  | e, none :: rest =>
    let r := pointOuts o cids act now e rest
    (r.1, (outJson ⟨e, none⟩).setObjVal! "recv" (recvJson cids act [] none []) :: r.2)

/-- sequential run on one parameter (number 0) with activations, one output per observation point -/
def seqRunA (o : Oracle Nat Nat) (cids : List Nat) : (Nat → Nat → Bool) → Entry Nat Nat → List (Int × SeqOp) → List Json
  | _, _, [] => []
  | act, e, (now, .call c) :: rest =>
    let r := pointOuts o cids act now e c.points
    r.2 ++ seqRunA o cids act r.1 rest
  | act, e, (_, .activate k ps) :: rest =>
    (outJson ⟨e, none⟩).setObjVal! "recv" (recvJson cids act [] (some k) (snapshot (fun _ => e) ps)) ::
      seqRunA o cids (subscribe act k ps) e rest

/-! ### followers (callbacks) -/

def parseTs (j : Json) : R TsArg :=
  match j with
  | .null => pure .absent
  | .str _ => pure .nonfinite
  | _ => do return .ticks (← j.getInt?)

def parseOutcome (j : Json) : R CbOutcome :=
  match j with
  | .str "ok" => pure .ok
  | .str "typeError" => pure .typeError
  | .str "other" => pure .other
  | _ => throw "bad callback outcome"

def parseNestedEv (j : Json) : R (Option (Ev Nat Nat)) := do
  if j.isNull then return none
  match (← arr j) with
  | [.str "value", v, vd] => return some (.value (← v.getNat?) (← vd.getBool?))
  | [.str "error", e] => return some (.error (← e.getNat?))
  | _ => throw "bad nested event"

structure Follower where
  q : Nat
  rows : List (S × CbOutcome × Option (Ev Nat Nat))

def parseFollower (j : Json) : R Follower := do
  let rows ← (← fldArr j "rows").mapM (fun r => do
    match (← arr r) with
    | [ve, oc, ne] => return (← parseVe ve, ← parseOutcome oc, ← parseNestedEv ne)
    | _ => throw "bad follower row")
  return ⟨← fldNat j "q", rows⟩

def cbOf (o : Oracle Nat Nat) (clock : Int) (r : S) (f : Follower) : Cb Nat Nat :=
  match f.rows.find? (fun row => row.1 == r) with
  | some (_, oc, ne) => ⟨ne.map (fun ev => ⟨f.q, clock, resolve o ev, []⟩), oc⟩
  | none => ⟨none, .ok⟩

def mOutJson (n : Nat) (es : Nat → Entry Nat Nat) (msgs : List (Nat × Msg Nat Nat)) : Json :=
  Json.mkObj [("msgs", jarr (msgs.map (fun m => jarr [jnat m.1, veJson m.2.ve, jint m.2.t]))),
              ("caches", jarr ((List.range n).map (fun p => veJson (es p).ve))),
              ("ts", jarr ((List.range n).map (fun p => jint (es p).timestamp)))]

def pointOutsM (o : Oracle Nat Nat) (caught : CbOutcome → Bool) (fs : List Follower) (n : Nat) (cids : List Nat)
    (act : Nat → Nat → Bool) (clock : Int) (ts : TsArg) :
    (Nat → Entry Nat Nat) → List (Option (Ev Nat Nat)) → (Nat → Entry Nat Nat) × List Json
  | es, [] => (es, [])
  | es, some ev :: rest =>
    let r := resolve o ev
    -- the time stamp argument belongs to the operation itself (the last point), the assignments of a body have none
    let out := announceM o caught es 0 (effTimestamp (if rest.isEmpty then ts else .absent) clock) r (fs.map (cbOf o clock r))
    let more := pointOutsM o caught fs n cids act clock ts out.es rest
    (more.1, (mOutJson n out.es out.msgs).setObjVal! "recv" (recvJson cids act out.msgs none []) :: more.2)
  | es, none :: rest =>
    let more := pointOutsM o caught fs n cids act clock ts es rest
    (more.1, (mOutJson n es []).setObjVal! "recv" (recvJson cids act [] none []) :: more.2)

def seqmRun (o : Oracle Nat Nat) (caught : CbOutcome → Bool) (fs : List Follower) (n : Nat) (cids : List Nat) :
    (Nat → Nat → Bool) → (Nat → Entry Nat Nat) → List (Int × TsArg × SeqOp) → List Json
  | _, _, [] => []
  | act, es, (clock, ts, .call c) :: rest =>
    let r := pointOutsM o caught fs n cids act clock ts es c.points
    r.2 ++ seqmRun o caught fs n cids act r.1 rest
  | act, es, (_, _, .activate k ps) :: rest =>
    (mOutJson n es []).setObjVal! "recv" (recvJson cids act [] (some k) (snapshot es ps)) ::
      seqmRun o caught fs n cids (subscribe act k ps) es rest

/-! ### concurrent runs -/

def parseLabel (j : Json) : R (Tid × Option Label) := do
  match (← arr j) with
  | [t, .str "end"] => return (← t.getNat?, none)
  | [t, .str "acqU"] => return (← t.getNat?, some .acqU)
  | [t, .str "relU"] => return (← t.getNat?, some .relU)
  | [t, .str "acqA"] => return (← t.getNat?, some .acqA)
  | [t, .str "relA"] => return (← t.getNat?, some .relA)
  | [t, .str "acqS"] => return (← t.getNat?, some .acqS)
  | [t, .str "relS"] => return (← t.getNat?, some .relS)
  | [t, .str "acqD"] => return (← t.getNat?, some .acqD)
  | [t, .str "relD"] => return (← t.getNat?, some .relD)
  | [t, .str "send", c] => return (← t.getNat?, some (.send (← c.getNat?)))
  | _ => throw s!"bad label {j.compress}"

/-- perform the visible step thread `t` is waiting at (if it is waiting at one), then its invisible steps -/
def advance (c : Cfg Nat Nat) (s : Sys Nat Nat) (t : Tid) (pending : Bool) : Except String (Sys Nat Nat) :=
  if pending then
    match step c s t with
    | some s' => .ok (runInternal c 64 s' t)
    | none => .error s!"thread {t}: the step it is waiting at is not enabled in the model"
  else .ok (runInternal c 64 s t)

/-- follow the recorded label sequence: an entry `(t, l)` means "thread `t` arrived at the primitive `l`";
the primitive itself takes effect when the thread is scheduled next (vlib.sched yields BEFORE the effect) -/
def follow (c : Cfg Nat Nat) : Sys Nat Nat → List Tid → List (Tid × Option Label) → Except String (Sys Nat Nat × List Tid)
  | s, pend, [] => .ok (s, pend)
  | s, pend, (t, l) :: rest => do
    let s' ← advance c s t (pend.contains t)
    if nextLabel s' t = l ∧ (l.isSome ∨ finished s' t) then
      follow c s' (if l.isNone then pend.filter (· != t) else if pend.contains t then pend else t :: pend) rest
    else throw s!"thread {t}: implementation arrived at {repr l}, model is at {repr (nextLabel s' t)}"

/-- after the last label every thread runs to its end; releases may be needed before a blocked acquire -/
def drain (c : Cfg Nat Nat) : Nat → Sys Nat Nat → List Tid → Sys Nat Nat
  | 0, s, _ => s
  | fuel + 1, s, ts =>
    let s' := ts.foldl (fun s t => match step c s t with
      | some s1 => runInternal c 64 s1 t
      | none => s) s
    if ts.all (fun t => finished s' t) then s' else drain c fuel s' ts

/-! ### the transport: every connection of a sequential history is a TCP handler over a scripted socket -/

/-- connection state + how many `sendall` calls for event messages / for replies it has made so far -/
structure TcpSt where
  c : Conn Json
  ev : Nat
  rep : Nat

/-- `faults`: (connection, is a reply?, number of the call among those of its kind, bytes written before it raised) -/
def faultOf (faults : List (Nat × Bool × Nat × Nat)) (cid : Nat) (isRep : Bool) (n : Nat) : SendRes :=
  match faults.find? (fun f => f.1 == cid && f.2.1 == isRep && f.2.2.1 == n) with
  | some f => .fails f.2.2.2
  | none => .ok

/-- a frame is the JSON of an event message; `null` stands for the reply to a request -/
def tcpSend (faults : List (Nat × Bool × Nat × Nat)) (cid : Nat) (st : TcpSt) (frame : Json) : TcpSt :=
  if st.c.running then
    let isRep := frame.isNull
    let c' := sendReply st.c frame (faultOf faults cid isRep (if isRep then st.rep else st.ev))
    if isRep then ⟨c', st.ev, st.rep + 1⟩ else ⟨c', st.ev + 1, st.rep⟩
  else st

/-- one observation point: the events of the point, then the reply (if the connection sent the request), then one
round of the handler loop -/
def tcpPoint (faults : List (Nat × Bool × Nat × Nat)) (replyTo : Option Nat) : List (Nat × TcpSt × List Json) → List (TcpSt × Json)
  | [] => []
  | (cid, st, frames) :: rest =>
    let before := (received st.c).length
    let st1 := frames.foldl (tcpSend faults cid) st
    let st2 := if replyTo = some cid then tcpSend faults cid st1 Json.null else st1
    let st3 : TcpSt := { st2 with c := loopRound st2.c }
    let new := ((received st3.c).drop before).filter (fun f => !f.isNull)
    (st3, Json.mkObj [("recv", jarr new), ("garbled", jnat (garbled st3.c)), ("open", Json.bool (!st3.c.closed)),
                      ("listed", Json.bool st3.c.listed)]) :: tcpPoint faults replyTo rest

def tcpRun (faults : List (Nat × Bool × Nat × Nat)) (cids : List Nat) : List TcpSt → List (Json × Option Nat) → R (List Json)
  | _, [] => pure []
  | sts, (out, rt) :: rest => do
    let recv ← (← fldArr out "recv").mapM arr
    let r := tcpPoint faults rt (cids.zip (sts.zip recv))
    let tail ← tcpRun faults cids (r.map (·.1)) rest
    return out.setObjVal! "tcp" (jarr (r.map (·.2))) :: tail

def parseFault (j : Json) : R (Nat × Bool × Nat × Nat) := do
  match (← arr j) with
  | [c, .str kind, n, w] => return (← c.getNat?, kind == "rep", ← n.getNat?, ← w.getNat?)
  | _ => throw s!"bad fault {j.compress}"

def parseTObs (j : Json) : R (TObs S) := do
  return ⟨← parseObs j, ← fldNat j "garbled", ← fldBool j "open", ← fldBool j "listed"⟩

def handle (j : Json) : R Json := do
  let k ← fldStr j "k"
  match k with
  | "tcp" =>
    let o ← parseOracle j
    let e ← parseEntry (← fld j "entry")
    let ops ← (← fldArr j "ops").mapM (fun x => do
      let op ← parseSeqOp o (← fld x "op")
      return ((← fldInt x "now"), op))
    let cids ← cidsOf j
    let outs := seqRunA o cids (← parseAct0 j) e ops
    let replies ← (← fldArr j "replies").mapM optNat
    if replies.length ≠ outs.length then throw s!"tcp: {replies.length} replies for {outs.length} observation points"
    let faults ← (← fldArr j "faults").mapM parseFault
    let outs' ← tcpRun faults cids (cids.map (fun _ => ⟨Conn.fresh, 0, 0⟩)) (outs.zip replies)
    return Json.mkObj [("window", jint e.window), ("init", veJson e.ve), ("outs", jarr outs')]
  | "judge_tcp" =>
    let tr ← (← fldArr j "trace").mapM parseTObs
    match judgeT isErr (← parseVe (← fld j "prev")) tr with
    | none => return Json.mkObj [("bad", Json.null)]
    | some (i, cl) => return Json.mkObj [("bad", jarr [jnat i, Json.str cl])]
  | "seq" =>
    let o ← parseOracle j
    let e ← parseEntry (← fld j "entry")
    let ops ← (← fldArr j "ops").mapM (fun x => do
      let op ← parseSeqOp o (← fld x "op")
      return ((← fldInt x "now"), op))
    return Json.mkObj [("window", jint e.window), ("init", veJson e.ve),
      ("outs", jarr (seqRunA o (← cidsOf j) (← parseAct0 j) e ops))]
  | "seqm" =>
    let o ← parseOracle j
    let entries ← (← fldArr j "entries").mapM parseEntry
    let fs ← (← fldArr j "followers").mapM parseFollower
    let ops ← (← fldArr j "ops").mapM (fun x => do
      let op ← parseSeqOp o (← fld x "op")
      return ((← fldInt x "now"), (← parseTs (← fld x "ts")), op))
    let dflt : Entry Nat Nat := ⟨0, none, 0, 0⟩
    return Json.mkObj [("windows", jarr (entries.map (fun e => jint e.window))),
      ("init", jarr (entries.map (fun e => veJson e.ve))),
      ("outs", jarr (seqmRun o (catches Generated.C05.callbackCaught) fs entries.length (← cidsOf j) (← parseAct0 j)
        (fun p => entries.getD p dflt) ops))]
  | "judge_seq" =>
    let tr ← (← fldArr j "trace").mapM parseObs
    let verdict ← if (← fld j "init").isNull then do
        -- the stream of a connection from its activation on: it knows nothing, `prev` = the cache at that moment
        pure (judgeO isErr (← parseVe (← fld j "prev")) tr)
      else do pure (judge isErr (← parseVe (← fld j "init")) tr)
    match verdict with
    | none => return Json.mkObj [("bad", Json.null)]
    | some (i, cl) => return Json.mkObj [("bad", jarr [jnat i, Json.str cl])]
  | "conc" =>
    let o ← parseOracle j
    let entries ← (← fldArr j "entries").mapM parseEntry
    let conns ← fldNats j "conns"
    let act0 ← parseAct0 j
    let cfg : Cfg Nat Nat := ⟨o, conns, ← fldInt j "tick", act0⟩
    let progs ← (← fldArr j "progs").mapM (fun th => do
      let ops ← (← arr th).mapM (fun x => do
        match x.getObjVal? "activate" with
        | .ok k => return [Op.activate (← k.getNat?) (← fldNats x "ps")]
        | .error _ =>
        let p ← fldNat x "p"
        let ts ← match x.getObjVal? "ts" with
          | .ok t => parseTs t
          | .error _ => pure TsArg.absent
        return (← parseCall o (← fld x "op")).prog p ts)
      return ops.flatten)
    let labels ← (← fldArr j "labels").mapM parseLabel
    let dflt : Entry Nat Nat := ⟨0, none, 0, 0⟩
    let s0 := Sys.init (fun p => entries.getD p dflt) (fun t => progs.getD t []) (← fldInt j "clock") act0
    let tids := List.range progs.length
    match follow cfg s0 [] labels with
    | .error e => return Json.mkObj [("ok", Json.bool false), ("err", Json.str e)]
    | .ok (s1, _) =>
      let s := drain cfg 64 s1 tids
      let done := tids.all (fun t => finished s t)
      let pids := List.range entries.length
      return Json.mkObj [("ok", Json.bool done), ("err", Json.str (if done then "" else "threads not finished in the model")),
        ("logs", jarr (conns.map (fun c => jarr (pids.map (fun p => jarr ((s.logs c p).map (fun d => jarr [veJson d.msg.ve, jint d.msg.t]))))))),
        ("final", jarr (pids.map (fun p => veJson (s.entries p).ve))),
        ("ts", jarr (pids.map (fun p => jint (s.entries p).timestamp)))]
  | "judge_conc" =>
    let init ← parseVe (← fld j "init")
    let final ← parseVe (← fld j "final")
    let logs ← (← fldArr j "logs").mapM (fun l => do
      (← arr l).mapM (fun d => do
        match (← arr d) with
        | [m, sn] => return (⟨← parseVe m, ← parseVe sn⟩ : Delivered S)
        | _ => throw "bad delivery"))
    match judgeConc (⟨init, logs, final⟩ : ConcObs S) with
    | none => return Json.mkObj [("bad", Json.null)]
    | some cl => return Json.mkObj [("bad", Json.str cl)]
  | "judge_conc_a" =>
    let final ← parseVe (← fld j "final")
    let conns ← (← fldArr j "conns").mapM (fun c => do
      let kn ← fld c "known"
      let known ← if kn.isNull then pure none else some <$> parseVe kn
      let log ← (← fldArr c "log").mapM (fun d => do
        match (← arr d) with
        | [m, sn] => return (⟨← parseVe m, ← parseVe sn⟩ : Delivered S)
        | _ => throw "bad delivery")
      return (⟨known, ← fldBool c "activated", ← fldBool c "fromStart", log⟩ : ConnLog S))
    match judgeConcA (⟨conns, final⟩ : ConcObsA S) with
    | none => return Json.mkObj [("bad", Json.null)]
    | some cl => return Json.mkObj [("bad", Json.str cl)]
  | "window" =>
    return Json.mkObj [("window", jint (effWindow (← optInt (← fld j "uu")) (← optInt (← fld j "mw")) (← fldInt j "gw")))]
  | "tables" =>
    return Json.mkObj [("always", jint Generated.C05.updateUnchangedAlways), ("never", jint Generated.C05.updateUnchangedNever),
      ("default", jint Generated.C05.updateUnchangedDefault)]
  | _ => throw s!"C05: unknown verb {k}"

end Frappy.Drive.C05
