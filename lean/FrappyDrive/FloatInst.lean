import FrappyModel.Base.Num
/-
The `Float` instance of `FloatOps` — driver only (no theorem mentions it; `Float` is opaque to the
kernel).  `ofInt`, `round`, `trunc` are computed exactly from the bit pattern so that they agree with
CPython (`float(int)` correctly rounded with `OverflowError`, `round()` half-to-even, `int()`).
-/
namespace Frappy.Drive

/-- correctly rounded `Nat → Float` (round to nearest, ties to even), `inf` when too large -/
def natToFloat (n : Nat) : Float :=
  if n < 18446744073709551616 then n.toUInt64.toFloat
  else
    let s := n.log2 - 63
    let top := n >>> s
    let sticky : Nat := if top <<< s != n then 1 else 0
    ((top ||| sticky).toUInt64.toFloat).scaleB (Int.ofNat s)

def intToFloat (i : Int) : Float :=
  match i with
  | .ofNat n => natToFloat n
  | .negSucc n => -(natToFloat (n + 1))

/-- `(negative, mantissa, exponent)` with value `±mantissa·2^exponent`; `none` for NaN/±inf -/
def decodeFloat (x : Float) : Option (Bool × Nat × Int) :=
  let b := x.toBits.toNat
  let neg := b >>> 63 == 1
  let e := (b >>> 52) &&& 0x7FF
  let m := b &&& 0xFFFFFFFFFFFFF
  if e == 0x7FF then none
  else if e == 0 then some (neg, m, -1074)
  else some (neg, m ||| 0x10000000000000, (e : Int) - 1075)

def signed (neg : Bool) (n : Nat) : Int := if neg then -(n : Int) else (n : Int)

def floatRound (x : Float) : Option Int :=
  match decodeFloat x with
  | none => none
  | some (neg, m, e) =>
    if e ≥ 0 then some (signed neg (m <<< e.toNat))
    else
      let s := (-e).toNat
      let q := m >>> s
      let rem := m - (q <<< s)
      let half := 1 <<< (s - 1)
      let q' := if rem > half then q + 1 else if rem == half then (if q % 2 == 1 then q + 1 else q) else q
      some (signed neg q')

def floatTrunc (x : Float) : Option Int :=
  match decodeFloat x with
  | none => none
  | some (neg, m, e) =>
    if e ≥ 0 then some (signed neg (m <<< e.toNat))
    else some (signed neg (m >>> (-e).toNat))

def floatMax : Float := Float.ofBits 0x7FEFFFFFFFFFFFFF

instance : FloatOps Float where
  lt x y := x < y
  le x y := x ≤ y
  feq x y := x == y
  same x y := x.toBits == y.toBits
  add := (· + ·)
  sub := (· - ·)
  mul := (· * ·)
  div := (· / ·)
  neg := (- ·)
  abs := Float.abs
  addZero x := x + 0.0
  isNaN := Float.isNaN
  maxFinite := floatMax
  ofInt i := let y := intToFloat i; if y.isInf then none else some y
  round := floatRound
  trunc := floatTrunc

end Frappy.Drive
