import Lean.Data.Json
/- JSON accessors shared by the per-property drivers (glue, not part of any theorem) -/
namespace Frappy.Drive
open Lean

abbrev R := Except String

def fld (j : Json) (k : String) : R Json := j.getObjVal? k
def fldStr (j : Json) (k : String) : R String := do (← fld j k).getStr?
def fldNat (j : Json) (k : String) : R Nat := do (← fld j k).getNat?
def fldInt (j : Json) (k : String) : R Int := do (← fld j k).getInt?
def fldBool (j : Json) (k : String) : R Bool := do (← fld j k).getBool?
def fldArr (j : Json) (k : String) : R (List Json) := do return (← (← fld j k).getArr?).toList
def fldStrs (j : Json) (k : String) : R (List String) := do (← fldArr j k).mapM (·.getStr?)
def fldNats (j : Json) (k : String) : R (List Nat) := do (← fldArr j k).mapM (·.getNat?)
def arr (j : Json) : R (List Json) := do return (← j.getArr?).toList
def optStr (j : Json) : R (Option String) := if j.isNull then pure none else some <$> j.getStr?
def optNat (j : Json) : R (Option Nat) := if j.isNull then pure none else some <$> j.getNat?
def jarr (l : List Json) : Json := Json.arr l.toArray
def jnat (n : Nat) : Json := Json.num (JsonNumber.fromNat n)
def jint (n : Int) : Json := Json.num (JsonNumber.fromInt n)
def jstrs (l : List String) : Json := jarr (l.map Json.str)
def jnats (l : List Nat) : Json := jarr (l.map jnat)
def jopt (f : α → Json) : Option α → Json
  | none => Json.null
  | some a => f a

end Frappy.Drive
