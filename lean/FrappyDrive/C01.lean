import FrappyDrive.DTypes
/- line-protocol glue for C01 -/
namespace Frappy.Drive.C01
open Lean Frappy.Drive Frappy

def handle (j : Json) : R Json := do
  let k ← fldStr j "k"
  match k with
  | "echo" =>
    -- codec self-test: tree / value / JSON value back as parsed, plus `wfB`
    let dt ← dtypeOfJson (← fld j "dt")
    let v ← pvalOfJson (← fld j "v")
    let jv := match jvalOfJson (← fld j "v") with
      | .ok x => jvalToJson x
      | .error _ => Json.null
    return Json.mkObj [("dt", dtypeToJson dt), ("v", pvalToJson v), ("jv", jv), ("wf", .bool dt.wfB),
      ("depth", jnat dt.depth)]
  | _ => throw s!"C01: unknown verb {k}"

end Frappy.Drive.C01
