import FrappyDrive.DTypes
import FrappyModel.Datatypes.Import
import FrappyModel.Datatypes.ErrText
import FrappyModel.Spec.C01
/-
Line-protocol glue for C01.  One request = one complete case:

  {"p":"C01","k":"case","dt":T,"mode":"wire"|"py","cand":V,"prev":V|null,
   "impl":{"imp":O,"val":O,"re1":O,"re2":O,"call":O,"recall":O}}          O = {"ok":V} | "bad" | {"other":"<class>"} | null
  → {"wf":b,"model":{…same keys…},"judge":[failed clauses]}

`model` is what the Lean model answers for the same calls; `judge` is the verdict of the Spec monitors on the
outcomes of the *implementation*.  `{"k":"total","outs":[O,…]}` judges outcome classes only.
-/
namespace Frappy.Drive.C01
open Lean Frappy.Drive Frappy Frappy.Datatypes Frappy.Spec.C01

def outcomeOfJson (j : Json) : R (Option (Outcome Float)) :=
  match j with
  | .null => pure none
  | .str "bad" => pure (some .bad)
  | _ =>
    match j.getObjVal? "ok", j.getObjVal? "other" with
    | .ok v, _ => do return some (.ok (← pvalOfJson v))
    | _, .ok c => do return some (.other (← c.getStr?))
    | _, _ => throw s!"bad outcome {j.compress}"

def outcomeOfRes : Res Float → Outcome Float
  | .ok v => .ok v
  | .error (.other c) => .other c
  | .error _ => .bad

def outcomeToJson : Option (Outcome Float) → Json
  | none => .null
  | some (.ok v) => Json.mkObj [("ok", pvalToJson v)]
  | some .bad => .str "bad"
  | some (.other c) => Json.mkObj [("other", .str c)]

def okVal : Option (Outcome Float) → Option (PVal Float)
  | some (.ok v) => some v
  | _ => none

/-- the laws of `LawfulFloatOps`, instantiated with `Float` on given doubles/integers — a *test* of the
trusted base on the values the generator draws (names of the laws that fail) -/
def lawFailures (x y z : Float) (i j : Int) : List String :=
  let imp (a b : Bool) : Bool := !a || b
  let F := Float
  let pos (s : F) : Bool := DType.positive s
  let M : F := FloatOps.maxFinite
  let checks : List (String × Bool) := [
    ("same_refl", FloatOps.same x x),
    ("le_notNaN", imp (FloatOps.le x y) (!FloatOps.isNaN x && !FloatOps.isNaN y)),
    ("le_refl", imp (!FloatOps.isNaN x) (FloatOps.le x x)),
    ("le_total", imp (!FloatOps.isNaN x && !FloatOps.isNaN y) (FloatOps.le x y || FloatOps.le y x)),
    ("le_trans", imp (FloatOps.le x y && FloatOps.le y z) (FloatOps.le x z)),
    ("lt_iff", imp (!FloatOps.isNaN x && !FloatOps.isNaN y) (FloatOps.lt x y == !FloatOps.le y x)),
    ("maxFinite_notNaN", !FloatOps.isNaN M),
    ("neg_maxFinite_notNaN", !FloatOps.isNaN (FloatOps.neg M)),
    ("neg_max_le_max", FloatOps.le (FloatOps.neg M) M),
    ("addZero_idem", FloatOps.same (FloatOps.addZero (FloatOps.addZero x)) (FloatOps.addZero x)),
    ("addZero_ofInt", match (FloatOps.ofInt i : Option F) with
      | some w => FloatOps.same (FloatOps.addZero w) w
      | none => true),
    ("addZero_maxFinite", FloatOps.same (FloatOps.addZero M) M),
    ("addZero_neg_maxFinite", FloatOps.same (FloatOps.addZero (FloatOps.neg M)) (FloatOps.neg M)),
    ("addZero_ofGrid", match (FloatOps.ofInt i : Option F) with
      | some w => imp (pos y) (FloatOps.same (FloatOps.addZero (FloatOps.mul w y)) (FloatOps.mul w y))
      | none => true),
    ("round_addZero", FloatOps.round (FloatOps.addZero x) == FloatOps.round x),
    ("feq_addZero", FloatOps.feq y (FloatOps.addZero x) == FloatOps.feq y x),
    ("abs_nonneg", imp (!FloatOps.isNaN x) (FloatOps.isNonneg (FloatOps.abs x))),
    ("mul_notNaN", imp (FloatOps.le (FloatOps.neg M) x && FloatOps.le x M && FloatOps.isFinite y)
      (!FloatOps.isNaN (FloatOps.mul x y))),
    ("sub_le", imp (FloatOps.isFinite x && FloatOps.le x y && FloatOps.isNonneg z) (FloatOps.le (FloatOps.sub x z) y)),
    ("le_add", imp (FloatOps.isFinite y && FloatOps.le x y && FloatOps.isNonneg z) (FloatOps.le x (FloatOps.add y z))),
    ("ofInt_isSome", imp (decide (-18446744073709551616 ≤ i) && decide (i ≤ 18446744073709551616))
      (FloatOps.ofInt (F := F) i).isSome),
    ("ofInt_mono", match (FloatOps.ofInt i : Option F), (FloatOps.ofInt j : Option F) with
      | some a, some b => imp (decide (i ≤ j)) (FloatOps.le a b)
      | _, _ => true),
    ("round_ofInt", match FloatOps.round x with
      | some k => (FloatOps.ofInt (F := F) k).isSome
      | none => true),
    ("round_mono", match FloatOps.round x, FloatOps.round y with
      | some a, some b => imp (FloatOps.le x y) (decide (a ≤ b))
      | _, _ => true),
    ("trunc_of_integral", match FloatOps.round x with
      | some k => (match (FloatOps.ofInt k : Option F) with
        | some w => imp (FloatOps.feq w x) (FloatOps.trunc x == some k)
        | none => true)
      | none => true),
    ("div_mono", imp (FloatOps.le x y && FloatOps.isFinite z && pos z) (FloatOps.le (FloatOps.div x z) (FloatOps.div y z))),
    ("mul_mono", imp (FloatOps.le x y && FloatOps.isFinite z && pos z) (FloatOps.le (FloatOps.mul x z) (FloatOps.mul y z))),
    -- not a law: the hypothesis `SnapIdem` of `revalidate_unchanged_partial` / `call_idem_of_snapIdem`
    ("hypothesis:SnapIdem", imp (FloatOps.isFinite z && pos z) (match DType.snap z x with
      | some w => imp (FloatOps.isFinite w) (match DType.snap z w with
        | some w' => FloatOps.same w' w
        | none => false)
      | none => true))]
  (checks.filter (fun c => !c.2)).map (·.1)

def handle (j : Json) : R Json := do
  let k ← fldStr j "k"
  match k with
  | "echo" =>
    -- codec self-test: tree / value / JSON value back as parsed, plus `wfB`
    let dt ← dtypeOfJson (← fld j "dt")
    let v ← pvalOfJson (← fld j "v")
    let jv := match jvalOfJson (← fld j "v") with
      | .ok x => jvalToJson x
      | .error _ => Json.null
    return Json.mkObj [("dt", dtypeToJson dt), ("v", pvalToJson v), ("jv", jv), ("wf", .bool dt.wfB),
      ("depth", jnat dt.depth)]
  | "case" =>
    let dt ← dtypeOfJson (← fld j "dt")
    let mode ← fldStr j "mode"
    let prev ← optPVal (← fld j "prev")
    let impl ← fld j "impl"
    let io (key : String) : R (Option (Outcome Float)) := do
      match impl.getObjVal? key with
      | .ok x => outcomeOfJson x
      | .error _ => pure none
    let iimp ← io "imp"; let ival ← io "val"; let ire1 ← io "re1"; let ire2 ← io "re2"
    let icall ← io "call"; let irecall ← io "recall"
    let reval (r : Option (PVal Float)) (withPrev : Bool) : Option (Outcome Float) :=
      r.map (fun r => outcomeOfRes (validate dt r (if withPrev then some r else none)))
    if mode == "wire" then
      let cand ← jvalOfJson (← fld j "cand")
      let mimp := outcomeOfRes (importValue dt cand)
      let mval : Option (Outcome Float) := match mimp with
        | .ok v => some (outcomeOfRes (validate dt v prev))
        | _ => none
      let mcall := outcomeOfRes (call dt (PVal.ofJVal cand))
      let mrecall : Option (Outcome Float) := match mcall with
        | .ok c => some (outcomeOfRes (call dt c))
        | _ => none
      let verdict :=
        (match iimp with
         | some imp => judgeWire dt cand prev imp ival ire1 ire2
         | none => ["import:missing"]) ++
        (match icall with
         | some c => judgeConv dt (PVal.ofJVal cand) c irecall
         | none => [])
      return Json.mkObj [("wf", .bool dt.wfB),
        ("model", Json.mkObj [("imp", outcomeToJson (some mimp)), ("val", outcomeToJson mval),
          ("re1", outcomeToJson (reval (okVal mval) false)), ("re2", outcomeToJson (reval (okVal mval) true)),
          ("call", outcomeToJson (some mcall)), ("recall", outcomeToJson mrecall)]),
        ("judge", jstrs verdict)]
    else
      let cand ← pvalOfJson (← fld j "cand")
      let mval := outcomeOfRes (validate dt cand prev)
      let mcall := outcomeOfRes (call dt cand)
      let mrecall : Option (Outcome Float) := match mcall with
        | .ok c => some (outcomeOfRes (call dt c))
        | _ => none
      let verdict :=
        (match ival with
         | some v => judgeValidate dt cand prev v ire1 ire2
         | none => ["validate:missing"]) ++
        (match icall with
         | some c => judgeConv dt cand c irecall
         | none => [])
      return Json.mkObj [("wf", .bool dt.wfB),
        ("model", Json.mkObj [("imp", .null), ("val", outcomeToJson (some mval)),
          ("re1", outcomeToJson (reval (okVal (some mval)) false)), ("re2", outcomeToJson (reval (okVal (some mval)) true)),
          ("call", outcomeToJson (some mcall)), ("recall", outcomeToJson mrecall)]),
        ("judge", jstrs verdict)]
  | "change" =>
    -- a value carried into a real node: `change` on a parameter holding `held`, or (held = null) `do` with an argument;
    -- stored / received value or error class, with the witness hint
    let dt ← dtypeOfJson (← fld j "dt")
    let cand ← jvalOfJson (← fld j "cand")
    let held ← optPVal (← fld j "held")
    let hint ← optPVal (← fld j "hint")
    let out ← outcomeOfJson (← fld j "out")
    let m := match held with
      | some h => outcomeOfRes (changeValue dt cand h)
      | none => outcomeOfRes (acceptWire dt cand none)
    let verdict := match out with
      | some o => judgeChange dt cand held hint o
      | none => ["change:missing"]
    return Json.mkObj [("wf", .bool dt.wfB), ("model", outcomeToJson (some m)), ("judge", jstrs verdict)]
  | "history" =>
    -- a history of driver updates / change requests on one parameter: the value held at the end
    let dt ← dtypeOfJson (← fld j "dt")
    let held0 ← pvalOfJson (← fld j "held0")
    let evs ← (← fldArr j "events").mapM (fun e => do
      match e.getObjVal? "u", e.getObjVal? "c" with
      | .ok v, _ => return ParamEvent.update (← pvalOfJson v)
      | _, .ok c => return ParamEvent.change (← jvalOfJson c)
      | _, _ => throw "bad event")
    return Json.mkObj [("wf", .bool dt.wfB), ("held", pvalToJson (holdRun dt held0 evs))]
  | "result" =>
    -- `Command.do` of a command with argument type `argdt` (or null) and result type `dt` (or null) whose function
    -- returns `ret`: what it handed back (`out`), and what converting that again gives (`again`)
    let optDT (key : String) : R (Option (DType Float)) := do
      match j.getObjVal? key with
      | .ok .null => pure none
      | .ok t => return some (← dtypeOfJson t)
      | .error _ => pure none
    let resT ← optDT "dt"
    let argT ← optDT "argdt"
    let data : Option (JVal Float) ← (match j.getObjVal? "data" with
      | .ok d => do return some (← jvalOfJson d)
      | .error _ => pure none)
    let ret ← pvalOfJson (← fld j "ret")
    let out ← outcomeOfJson (← fld j "out")
    let again ← outcomeOfJson (← fld j "again")
    let m := outcomeOfRes (commandDo argT resT (fun _ => ret) data)
    let verdict := match out with
      | some o => judgeResult resT ret o again
      | none => ["result:missing"]
    let wf := (match resT with | some t => t.wfB | none => true) && (match argT with | some t => t.wfB | none => true)
    return Json.mkObj [("wf", .bool wf), ("model", outcomeToJson (some m)), ("judge", jstrs verdict)]
  | "helper" =>
    -- the error-text helper `shortrepr` on one candidate: `repr` = what `repr(candidate)` did ({"ok": text} |
    -- {"other": class}), `tname` = type(candidate).__name__, `out` = what `shortrepr(candidate)` did
    let strOutcome (x : Json) : R (Except String String) := do
      match x.getObjVal? "ok", x.getObjVal? "other" with
      | .ok v, _ => return .ok (← v.getStr?)
      | _, .ok c => return .error (← c.getStr?)
      | _, _ => throw s!"bad text outcome {x.compress}"
    let rp ← strOutcome (← fld j "repr")
    let tname ← fldStr j "tname"
    let out ← strOutcome (← fld j "out")
    let m := shortrepr (fun (_ : Unit) => rp) (fun _ => tname) ()
    let toJ : Except String String → Json
      | .ok t => Json.mkObj [("ok", .str t)]
      | .error c => Json.mkObj [("other", .str c)]
    let o : Outcome Float := match out with
      | .ok t => .ok (.str t)
      | .error c => .other c
    return Json.mkObj [("model", toJ m), ("judge", jstrs (judgeHelper o))]
  | "laws" =>
    let tuples ← (← fldArr j "tuples").mapM (fun t => do
      match ← arr t with
      | [x, y, z, i, k] => return (Float.ofBits (← x.getNat?).toUInt64, Float.ofBits (← y.getNat?).toUInt64,
          Float.ofBits (← z.getNat?).toUInt64, (← i.getInt?), (← k.getInt?))
      | _ => throw "bad law tuple")
    return Json.mkObj [("fail", jarr (tuples.map (fun (x, y, z, i, k) => jstrs (lawFailures x y z i k))))]
  | "total" =>
    let outs ← (← fldArr j "outs").mapM outcomeOfJson
    return Json.mkObj [("judge", jstrs (judgeTotal (outs.filterMap id)))]
  | _ => throw s!"C01: unknown verb {k}"

end Frappy.Drive.C01
