import FrappyDrive.DTypes
import FrappyModel.Datatypes.Import
import FrappyModel.Spec.C01
/-
Line-protocol glue for C01.  One request = one complete case:

  {"p":"C01","k":"case","dt":T,"mode":"wire"|"py","cand":V,"prev":V|null,
   "impl":{"imp":O,"val":O,"re1":O,"re2":O,"call":O,"recall":O}}          O = {"ok":V} | "bad" | {"other":"<class>"} | null
  → {"wf":b,"model":{…same keys…},"judge":[failed clauses]}

`model` is what the Lean model answers for the same calls; `judge` is the verdict of the Spec monitors on the
outcomes of the *implementation*.  `{"k":"total","outs":[O,…]}` judges outcome classes only.
-/
namespace Frappy.Drive.C01
open Lean Frappy.Drive Frappy Frappy.Datatypes Frappy.Spec.C01

def outcomeOfJson (j : Json) : R (Option (Outcome Float)) :=
  match j with
  | .null => pure none
  | .str "bad" => pure (some .bad)
  | _ =>
    match j.getObjVal? "ok", j.getObjVal? "other" with
    | .ok v, _ => do return some (.ok (← pvalOfJson v))
    | _, .ok c => do return some (.other (← c.getStr?))
    | _, _ => throw s!"bad outcome {j.compress}"

def outcomeOfRes : Res Float → Outcome Float
  | .ok v => .ok v
  | .error (.other c) => .other c
  | .error _ => .bad

def outcomeToJson : Option (Outcome Float) → Json
  | none => .null
  | some (.ok v) => Json.mkObj [("ok", pvalToJson v)]
  | some .bad => .str "bad"
  | some (.other c) => Json.mkObj [("other", .str c)]

def okVal : Option (Outcome Float) → Option (PVal Float)
  | some (.ok v) => some v
  | _ => none

def handle (j : Json) : R Json := do
  let k ← fldStr j "k"
  match k with
  | "echo" =>
    -- codec self-test: tree / value / JSON value back as parsed, plus `wfB`
    let dt ← dtypeOfJson (← fld j "dt")
    let v ← pvalOfJson (← fld j "v")
    let jv := match jvalOfJson (← fld j "v") with
      | .ok x => jvalToJson x
      | .error _ => Json.null
    return Json.mkObj [("dt", dtypeToJson dt), ("v", pvalToJson v), ("jv", jv), ("wf", .bool dt.wfB),
      ("depth", jnat dt.depth)]
  | "case" =>
    let dt ← dtypeOfJson (← fld j "dt")
    let mode ← fldStr j "mode"
    let prev ← optPVal (← fld j "prev")
    let impl ← fld j "impl"
    let io (key : String) : R (Option (Outcome Float)) := do
      match impl.getObjVal? key with
      | .ok x => outcomeOfJson x
      | .error _ => pure none
    let iimp ← io "imp"; let ival ← io "val"; let ire1 ← io "re1"; let ire2 ← io "re2"
    let icall ← io "call"; let irecall ← io "recall"
    let reval (r : Option (PVal Float)) (withPrev : Bool) : Option (Outcome Float) :=
      r.map (fun r => outcomeOfRes (validate dt r (if withPrev then some r else none)))
    if mode == "wire" then
      let cand ← jvalOfJson (← fld j "cand")
      let mimp := outcomeOfRes (importValue dt cand)
      let mval : Option (Outcome Float) := match mimp with
        | .ok v => some (outcomeOfRes (validate dt v prev))
        | _ => none
      let mcall := outcomeOfRes (call dt (PVal.ofJVal cand))
      let mrecall : Option (Outcome Float) := match mcall with
        | .ok c => some (outcomeOfRes (call dt c))
        | _ => none
      let verdict :=
        (match iimp with
         | some imp => judgeWire dt cand prev imp ival ire1 ire2
         | none => ["import:missing"]) ++
        (match icall with
         | some c => judgeCall c irecall
         | none => [])
      return Json.mkObj [("wf", .bool dt.wfB),
        ("model", Json.mkObj [("imp", outcomeToJson (some mimp)), ("val", outcomeToJson mval),
          ("re1", outcomeToJson (reval (okVal mval) false)), ("re2", outcomeToJson (reval (okVal mval) true)),
          ("call", outcomeToJson (some mcall)), ("recall", outcomeToJson mrecall)]),
        ("judge", jstrs verdict)]
    else
      let cand ← pvalOfJson (← fld j "cand")
      let mval := outcomeOfRes (validate dt cand prev)
      let mcall := outcomeOfRes (call dt cand)
      let mrecall : Option (Outcome Float) := match mcall with
        | .ok c => some (outcomeOfRes (call dt c))
        | _ => none
      let verdict :=
        (match ival with
         | some v => judgeValidate dt cand prev v ire1 ire2
         | none => ["validate:missing"]) ++
        (match icall with
         | some c => judgeCall c irecall
         | none => [])
      return Json.mkObj [("wf", .bool dt.wfB),
        ("model", Json.mkObj [("imp", .null), ("val", outcomeToJson (some mval)),
          ("re1", outcomeToJson (reval (okVal (some mval)) false)), ("re2", outcomeToJson (reval (okVal (some mval)) true)),
          ("call", outcomeToJson (some mcall)), ("recall", outcomeToJson mrecall)]),
        ("judge", jstrs verdict)]
  | "total" =>
    let outs ← (← fldArr j "outs").mapM outcomeOfJson
    return Json.mkObj [("judge", jstrs (judgeTotal (outs.filterMap id)))]
  | _ => throw s!"C01: unknown verb {k}"

end Frappy.Drive.C01
