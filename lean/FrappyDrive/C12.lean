import FrappyDrive.Util
import FrappyDrive.DTypes
import FrappyModel.Client.CacheDT
import FrappyModel.Spec.C12
import FrappyModel.Generated.C12
/- line-protocol glue for C12 (not part of any theorem) -/
namespace Frappy.Drive.C12
open Lean Frappy.Drive Frappy.Client.Cache Frappy.Spec.C12

def tables : Tables :=
  { updateMessages := Generated.C12.updateMessages, errorPrefix := Generated.C12.errorPrefix,
    writeReply := Generated.C12.writeReply, name2class := Generated.C12.name2class,
    clsname2name := Generated.C12.clsname2name, predefined := Generated.C12.predefined,
    internalError := Generated.C12.internalError }

def jstr (s : Str) : Json := Json.str (String.ofList s)
def getStr (j : Json) : R Str := do return (← j.getStr?).toList
def optS (j : Json) : R (Option Str) := if j.isNull then pure none else some <$> getStr j

def parseTQ (j : Json) : R TQ :=
  match j with
  | .str "absent" => pure .absent
  | .str "nan" => pure .nan
  | .str "bad" => pure .bad
  | _ => do return .num (← j.getInt?)

/-- canonical text of a Python value: the compressed protocol encoding (ints exact, floats by bit pattern, kinds kept
apart, dict order kept) — equality of these texts is `PVal.same` -/
def normP (v : PVal Float) : String := (pvalToJson v).compress

/-- canonical text of a JSON value as `json.loads` delivered it -/
def normJ (v : JVal Float) : String := (jvalToJson v).compress

def parseData (j : Json) : R (Data String) := do
  match ← arr j with
  | [.str "v", v, tq] => return .value (normJ (← jvalOfJson v)) (← parseTQ tq)
  | [.str "r", cls, text, tq] => return .report (← optS cls) (← getStr text) (← parseTQ tq)
  | [.str "x"] => return .malformed
  | _ => throw s!"bad data {j.compress}"

def parseKind (j : Json) : R Kind :=
  match j with
  | .str "item" => pure .item
  | .str "event" => pure .event
  | _ => throw "bad kind"

def parseKey (j : Json) : R Key :=
  match j with
  | .null => pure .node
  | .str m => pure (.module m.toList)
  | _ => do
    match ← arr j with
    | [m, p] => return .param (← getStr m) (← getStr p)
    | _ => throw "bad key"

def parseReg (kind key cb : Json) : R Reg := do return ⟨← parseKind kind, ← parseKey key, ← cb.getNat?⟩

def parseEv (j : Json) : R (Ev String) := do
  match ← arr j with
  | [.str "line", now, .null] => return .line (← now.getInt?) .garbage
  | [.str "line", now, m] =>
    match ← arr m with
    | [action, ident, data] => return .line (← now.getInt?) (.msg ⟨← getStr action, ← optS ident, ← parseData data⟩)
    | _ => throw "bad msg"
  | [.str "reg", kind, key, cb] => return .register (← parseReg kind key cb)
  | [.str "unreg", kind, key, cb] => return .unregister (← parseReg kind key cb)
  | _ => throw s!"bad event {j.compress}"

def parseDesc (j : Json) : R (List ModDesc) := do
  (← arr j).mapM fun m => do
    let accs ← (← fldArr m "accs").mapM fun a => do
      match ← arr a with
      | [n, c] => return (⟨← getStr n, ← c.getBool?⟩ : Acc)
      | _ => throw "bad acc"
    return ⟨← getStr (← fld m "name"), accs⟩

/-- the datatypes the client rebuilt from the description, as trees: `[[module, parameter, tree], …]` -/
def parseDts (j : Json) : R (DtTable Float) := do
  (← arr j).mapM fun e => do
    match ← arr e with
    | [m, p, tree] => return ((← getStr m, ← getStr p), ← dtypeOfJson tree)
    | _ => throw "bad dts entry"

/-- the import oracle of the receive-loop model, instantiated with the datatype model (`Datatypes.importValue`, C01/C02)
on the parameter's tree: nothing of the implementation's `import_value` enters the judgement -/
def impOf (tab : DtTable Float) (m p : Str) (j : String) : Option String :=
  match (Json.parse j).toOption.bind (fun x => (jvalOfJson x).toOption) with
  | some jv => (dtImp tab m p jv).map normP
  | none => none

/-- behaviour of the callbacks: `[cb, "ok"|"raises"|"unregister", [[kind, key, cb], …]]` — how a call ends and which
registrations it removes through `unregister_callback` while running -/
def parseBehave (j : Json) : R (List (Nat × Outcome)) := do
  (← arr j).mapM fun e => do
    match ← arr e with
    | [cb, how, rm] =>
      let res : Result ← match how with
        | .str "ok" => pure Result.ok
        | .str "raises" => pure Result.raises
        | .str "unregister" => pure Result.unregister
        | _ => throw "bad behave entry"
      let removes ← (← arr rm).mapM fun r => do
        match ← arr r with
        | [kind, key, c] => parseReg kind key c
        | _ => throw "bad removal"
      return (← cb.getNat?, ⟨removes, res⟩)
    | _ => throw "bad behave entry"

def behaveOf (tab : List (Nat × Outcome)) (c : Call String) : Outcome := (dictGet tab c.reg.cb).getD .ok

def kindJson : Kind → Json
  | .item => "item"
  | .event => "event"

def keyJson : Key → Json
  | .node => Json.null
  | .module m => jstr m
  | .param m p => jarr [jstr m, jstr p]

def contentJson (t : Tables) : Content String → Json
  | .value v => jarr ["v", (Json.parse v).toOption.getD (Json.str v)]
  | .error e => jarr ["e", jstr e.pycls, jstr e.name, jstr e.arg, jstr (formatErr t e)]

def callJson (t : Tables) (c : Call String) : Json :=
  jarr [jnat c.reg.cb, kindJson c.reg.kind, keyJson c.reg.key, jstr c.m, jstr c.p, contentJson t c.item.content, jint c.item.ts]

def cacheJson (t : Tables) (c : Cache String) : Json :=
  jarr (c.map fun e => jarr [jstr e.1.1, jstr e.1.2, contentJson t e.2.content, jint e.2.ts])

/-- an observed content; the last flag says whether the error object of the implementation is usable and formats
the way `formatErr` says (second component of the result) -/
def parseContent (t : Tables) (j : Json) : R (Content String × Bool) := do
  match ← arr j with
  | [.str "v", v] => return (.value (normP (← pvalOfJson v)), true)
  | [.str "e", pycls, name, arg, fmt, usable] =>
    let e : ErrObj := ⟨← getStr pycls, ← getStr name, ← getStr arg⟩
    let fmtOk := match fmt with
      | .str s => s.toList == formatErr t e
      | _ => false
    return (.error e, fmtOk && (← usable.getBool?))
  | _ => throw s!"bad content {j.compress}"

/-- a time stamp of the implementation that is not a number on the grid (NaN, a string, …) arrives as `null`:
the observation is then unusable (flag `false`) -/
def parseTs (j : Json) : R (Int × Bool) := if j.isNull then pure (0, false) else do return (← j.getInt?, true)

def parseCall (t : Tables) (j : Json) : R (Call String × Bool) := do
  match ← arr j with
  | [cb, kind, key, m, p, content, ts] =>
    let (c, ok) ← parseContent t content
    let (tsv, tok) ← parseTs ts
    return (⟨← parseReg kind key cb, ← getStr m, ← getStr p, ⟨c, tsv⟩⟩, ok && tok)
  | _ => throw "bad call"

def parseCache (t : Tables) (j : Json) : R (Cache String × Bool) := do
  let es ← (← arr j).mapM fun e => do
    match ← arr e with
    | [m, p, content, ts] =>
      let (c, ok) ← parseContent t content
      let (tsv, tok) ← parseTs ts
      return (((← getStr m, ← getStr p), (⟨c, tsv⟩ : Item String)), ok && tok)
    | _ => throw "bad cache entry"
  return (es.map (·.1), es.all (·.2))

/-- per-event outputs of the model -/
def runSteps (mp : Maps) (imp : Str → Str → String → Option String) (behave : Call String → Outcome)
    (s : State String) : List (Ev String) → List Json
  | [] => []
  | ev :: rest =>
    let s' := step tables mp imp behave s ev
    Json.mkObj [("calls", jarr ((s'.calls.drop s.calls.length).map (callJson tables))),
                ("cache", cacheJson tables s'.cache), ("reported", jnat (s'.reported - s.reported)),
                ("regs", jarr (s'.regs.map fun r => jarr [jnat r.cb, kindJson r.kind, keyJson r.key]))]
      :: runSteps mp imp behave s' rest

def handle (j : Json) : R Json := do
  let k ← fldStr j "k"
  match k with
  | "maps" =>
    let mp := initDescription tables (← parseDesc (← fld j "desc"))
    return Json.mkObj [("internal", jarr (mp.internal.map fun e => jarr [jstr e.1, jstr e.2.1, jstr e.2.2])),
                       ("params", jarr (mp.params.map fun e => jarr [jstr e.1.1, jstr e.1.2]))]
  | "run" =>
    let mp := initDescription tables (← parseDesc (← fld j "desc"))
    let imp := impOf (← parseDts (← fld j "dts"))
    let behave := behaveOf (← parseBehave (← fld j "behave"))
    let evs ← (← fldArr j "evs").mapM parseEv
    return Json.mkObj [("steps", jarr (runSteps mp imp behave {} evs))]
  | "judge" =>
    let mp := initDescription tables (← parseDesc (← fld j "desc"))
    let imp := impOf (← parseDts (← fld j "dts"))
    let behave := behaveOf (← parseBehave (← fld j "behave"))
    let evs ← (← fldArr j "evs").mapM parseEv
    let obs ← (← fldArr j "steps").mapM fun st => do
      let calls ← (← fldArr st "calls").mapM (parseCall tables)
      let (cache, ok) ← parseCache tables (← fld st "cache")
      return ((calls.map (·.1), cache), ok && calls.all (·.2))
    if obs.length ≠ evs.length then throw "length mismatch"
    let steps := evs.zip (obs.map (·.1))
    -- an unusable error object (its `str()` raises, it does not compare equal to an equal one, or it formats
    -- differently from what `SECoPError.format` prescribes) fails the step in which it first shows up
    let broken := (obs.map (·.2)).findIdx? (· == false)
    let bad := judge tables mp imp behave steps
    let first := match bad, broken with
      | some a, some b => some (min a b)
      | some a, none => some a
      | none, b => b
    return Json.mkObj [("bad", jopt jnat first), ("clause", match bad, broken with
      | some a, some b => if b ≤ a then "unusable-observation" else "mirror"
      | some _, none => "mirror"
      | none, some _ => "unusable-observation"
      | none, none => Json.null)]
  | "judge_wake" =>
    let (before, ok1) ← parseCache tables (← fld j "before")
    let (after, ok2) ← parseCache tables (← fld j "after")
    let calls ← (← fldArr j "calls").mapM (parseCall tables)
    return Json.mkObj [("ok", Json.bool (wakeOkB before (calls.map (·.1)) after && ok1 && ok2))]
  | "judge_e2e" =>
    -- second sentence of C12 on one observed `setParameter`: values travel in the protocol encoding (ints exact, floats
    -- by bit pattern), equality is Python's `==` (`PVal.pyEq`); `entry`/`ret` are `null` when they hold an error
    let passed ← pvalOfJson (← fld j "passed")
    let got ← (← fldArr j "got").mapM pvalOfJson
    let returned ← optPVal (← fld j "returned")
    let mk (x : Json) : R (Option (Item (PVal Float))) := do
      return (← optPVal x).map (fun v => ⟨.value v, 0⟩)
    let entry ← mk (← fld j "cache")
    let ret ← mk (← fld j "ret")
    let driverOk := match got with
      | [v'] => PVal.pyEq v' passed
      | _ => false
    let cacheOk := match returned with
      | some r => writeOkB PVal.pyEq passed got r entry && writeOkB PVal.pyEq passed got r ret
      | none => false
    let tsj ← fld j "ts"
    let clock ← floatOfJson (← fld j "clock")
    let tsOk : Bool ← if tsj.isNull then pure false else (fun ts => FloatOps.le ts clock) <$> floatOfJson tsj
    return Json.mkObj [("ok", Json.bool (driverOk && cacheOk && tsOk)),
      ("which", if !driverOk then "driver" else if !cacheOk then "cache" else if !tsOk then "timestamp" else Json.null)]
  | "e2e" =>
    -- the model's account of one `setParameter`: what the driver gets and what the cache holds afterwards
    let dt ← dtypeOfJson (← fld j "dt")
    let cdt ← dtypeOfJson (← fld j "cdt")
    let prev ← optPVal (← fld j "prev")
    let ret ← optPVal (← fld j "ret")
    let passed ← pvalOfJson (← fld j "passed")
    if (← fldStr j "via") == "proxy" then
      match proxyTrace dt cdt prev passed ret with
      | some tr => return Json.mkObj [("got", pvalToJson tr.driverGot), ("cache", pvalToJson tr.cached),
                                      ("ret", pvalToJson tr.returned)]
      | none => return Json.mkObj [("got", Json.null), ("cache", Json.null), ("ret", Json.null)]
    else
      match writeTrace dt cdt prev passed ret with
      | some tr => return Json.mkObj [("got", pvalToJson tr.driverGot), ("cache", pvalToJson tr.cached),
                                      ("ret", pvalToJson tr.cached)]
      | none => return Json.mkObj [("got", Json.null), ("cache", Json.null), ("ret", Json.null)]
  | "judge_read_error" =>
    -- a driver raised an error of class `pycls` (error name `name`) with `text`: the client's read must hand back an
    -- error object of that class, that name and that text, usable and formatting as `SECoPError.format` prescribes
    let obs ← fld j "obs"
    if obs.isNull then return Json.mkObj [("ok", Json.bool false)]
    let (c, usable) ← parseContent tables obs
    let want : ErrObj := ⟨← getStr (← fld j "pycls"), ← getStr (← fld j "name"), ← getStr (← fld j "text")⟩
    let ok := match c with
      | .error e => decide (e = want) && usable
      | .value _ => false
    return Json.mkObj [("ok", Json.bool ok)]
  | "rebuild" =>
    let e := makeSecopError tables (← optS (← fld j "cls")) (← getStr (← fld j "text"))
    return Json.mkObj [("pycls", jstr e.pycls), ("name", jstr e.name), ("arg", jstr e.arg), ("fmt", jstr (formatErr tables e))]
  | _ => throw s!"C12: unknown verb {k}"

end Frappy.Drive.C12
