import FrappyModel.Generated.C20
import FrappyModel.Node.Logging
import FrappyModel.Small.Rotate
import FrappyModel.Spec.C20
