import FrappyModel.Base.JVal
import FrappyModel.Base.Num
import FrappyModel.Base.PVal
import FrappyModel.Datatypes.Types
import FrappyModel.Generated.C20
import FrappyModel.Node.Logging
import FrappyModel.Small.Rotate
import FrappyModel.Spec.C20
