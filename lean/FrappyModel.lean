import FrappyModel.Client.Match
import FrappyModel.Generated.C11
import FrappyModel.Generated.C20
import FrappyModel.Node.Logging
import FrappyModel.Small.Rotate
import FrappyModel.Spec.C11
import FrappyModel.Spec.C20
