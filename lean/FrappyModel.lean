import FrappyModel.Client.Cache
import FrappyModel.Generated.C12
import FrappyModel.Generated.C20
import FrappyModel.Node.Logging
import FrappyModel.Small.Rotate
import FrappyModel.Spec.C12
import FrappyModel.Spec.C20
