import FrappyModel.Generated.C15
import FrappyModel.Generated.C20
import FrappyModel.Klass.Lifecycle
import FrappyModel.Node.Logging
import FrappyModel.Small.Rotate
import FrappyModel.Spec.C15
import FrappyModel.Spec.C20
