import FrappyModel.Generated.C20
import FrappyModel.Node.Logging
import FrappyModel.Small.Persist
import FrappyModel.Small.Rotate
import FrappyModel.Spec.C17
import FrappyModel.Spec.C20
