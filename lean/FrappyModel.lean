import FrappyModel.Generated.C16
import FrappyModel.Generated.C20
import FrappyModel.Node.Logging
import FrappyModel.Small.Rotate
import FrappyModel.Spec.C16
import FrappyModel.Spec.C20
import FrappyModel.Timed.Comm
