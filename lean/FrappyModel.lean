import FrappyModel.Generated.C13
import FrappyModel.Generated.C20
import FrappyModel.Node.Logging
import FrappyModel.Small.Rotate
import FrappyModel.Spec.C13
import FrappyModel.Spec.C20
import FrappyModel.Timed.Poller
