import FrappyModel.Generated.C05
import FrappyModel.Generated.C20
import FrappyModel.Node.Logging
import FrappyModel.Node.Update
import FrappyModel.Node.UpdateSys
import FrappyModel.Small.Rotate
import FrappyModel.Spec.C05
import FrappyModel.Spec.C20
