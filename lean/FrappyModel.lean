import FrappyModel.Generated.C10
import FrappyModel.Generated.C20
import FrappyModel.Klass.Config
import FrappyModel.Klass.ConfigDT
import FrappyModel.Node.Logging
import FrappyModel.Small.Rotate
import FrappyModel.Spec.C10
import FrappyModel.Spec.C20
