import FrappyModel.Generated.C04
import FrappyModel.Generated.C20
import FrappyModel.Node.Dispatch
import FrappyModel.Node.Logging
import FrappyModel.Node.Param
import FrappyModel.Small.Rotate
import FrappyModel.Spec.C04
import FrappyModel.Spec.C20
