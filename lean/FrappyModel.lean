import FrappyModel.Generated.C19
import FrappyModel.Generated.C20
import FrappyModel.Node.Logging
import FrappyModel.Small.Discovery
import FrappyModel.Small.DiscoveryTables
import FrappyModel.Small.Rotate
import FrappyModel.Spec.C19
import FrappyModel.Spec.C20
