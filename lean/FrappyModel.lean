import FrappyModel.Generated.C08
import FrappyModel.Generated.C20
import FrappyModel.Node.Activate
import FrappyModel.Node.Logging
import FrappyModel.Small.Rotate
import FrappyModel.Spec.C08
import FrappyModel.Spec.C20
