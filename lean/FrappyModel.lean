import FrappyModel.Generated.C20
import FrappyModel.Node.Logging
import FrappyModel.Small.Control
import FrappyModel.Small.ExtParams
import FrappyModel.Small.Rotate
import FrappyModel.Spec.C18
import FrappyModel.Spec.C20
