import FrappyModel.Generated.C14
import FrappyModel.Generated.C20
import FrappyModel.Node.Logging
import FrappyModel.Small.Rotate
import FrappyModel.Spec.C14
import FrappyModel.Spec.C20
import FrappyModel.Timed.StateMachine
import FrappyModel.Timed.States
