import Lean
/-
Audit tool (run with `lake env lean --run tools/Audit.lean <module> …`).
For every given module and every `FrappyProofs.*` module it imports (transitively), lists the
theorems declared there together with the axioms each depends on, as one JSON object per line:
  {"module": "...", "theorem": "...", "axioms": ["propext", ...]}
The harness counts these as proof obligations and fails the audit on any axiom outside
{propext, Classical.choice, Quot.sound}.
-/
open Lean

partial def closure (env : Environment) (roots : List Name) : List Name := Id.run do
  let mut seen : List Name := []
  let mut todo := roots
  while !todo.isEmpty do
    match todo with
    | [] => break
    | m :: rest =>
      todo := rest
      if seen.contains m then continue
      seen := m :: seen
      match env.getModuleIdx? m with
      | none => pure ()
      | some idx =>
        for imp in env.header.moduleData[idx.toNat]!.imports do
          if (`FrappyProofs).isPrefixOf imp.module then todo := imp.module :: todo
  return seen.reverse

def isInternal (n : Name) : Bool :=
  n.isInternal || n.components.any (fun c => match c with | .str _ s => s.startsWith "_" || s.startsWith "match_" || s.startsWith "proof_" || s.startsWith "eq_" | _ => false)

abbrev EnvM := StateM Environment
instance : MonadEnv EnvM := ⟨get, modify⟩

unsafe def main (args : List String) : IO UInt32 := do
  enableInitializersExecution
  initSearchPath (← findSysroot)
  let roots := args.map String.toName
  let env ← importModules (roots.toArray.map (fun m => {module := m})) {} (loadExts := true)
  let mods := closure env roots
  for m in mods do
    let some idx := env.getModuleIdx? m | continue
    let data := env.header.moduleData[idx.toNat]!
    for c in data.constants do
      match c with
      | .thmInfo ti =>
        if isInternal ti.name then continue
        let axNames : Array Name := (collectAxioms (m := EnvM) ti.name).run' env
        let axs := axNames.toList.map (fun a => Json.str a.toString)
        IO.println (Json.mkObj [("module", Json.str m.toString), ("theorem", Json.str ti.name.toString),
          ("axioms", Json.arr axs.toArray)]).compress
      | _ => pure ()
  return 0
