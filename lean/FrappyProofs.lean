import FrappyProofs.Lemmas.Logging
import FrappyProofs.Lemmas.Rotate
import FrappyProofs.Lemmas.Update
import FrappyProofs.Lemmas.UpdateSys
import FrappyProofs.Props.C05
import FrappyProofs.Props.C20
