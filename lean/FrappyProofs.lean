import FrappyProofs.Lemmas.Comm
import FrappyProofs.Lemmas.CommReply
import FrappyProofs.Lemmas.CommRun
import FrappyProofs.Lemmas.CommStep
import FrappyProofs.Lemmas.Logging
import FrappyProofs.Lemmas.Rotate
import FrappyProofs.Props.C16
import FrappyProofs.Props.C20
