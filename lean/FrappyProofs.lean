import FrappyProofs.Lemmas.Logging
import FrappyProofs.Lemmas.Rotate
import FrappyProofs.Lemmas.StateMachineCount
import FrappyProofs.Props.C14
import FrappyProofs.Props.C20
