import FrappyProofs.Lemmas.Comm
import FrappyProofs.Lemmas.Logging
import FrappyProofs.Lemmas.Rotate
import FrappyProofs.Props.C16
import FrappyProofs.Props.C20
