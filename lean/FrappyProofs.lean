import FrappyProofs.Lemmas.Logging
import FrappyProofs.Lemmas.Match
import FrappyProofs.Lemmas.Rotate
import FrappyProofs.Props.C11
import FrappyProofs.Props.C20
