import FrappyProofs.Lemmas.Config
import FrappyProofs.Lemmas.Logging
import FrappyProofs.Lemmas.Rotate
import FrappyProofs.Props.C10
import FrappyProofs.Props.C20
