import FrappyProofs.Lemmas.Logging
import FrappyProofs.Lemmas.Poller
import FrappyProofs.Lemmas.PollerSlow
import FrappyProofs.Lemmas.Rotate
import FrappyProofs.Props.C13
import FrappyProofs.Props.C20
