import FrappyProofs.Lemmas.Activate
import FrappyProofs.Lemmas.ActivateLoss
import FrappyProofs.Lemmas.ActivateSnap
import FrappyProofs.Lemmas.Logging
import FrappyProofs.Lemmas.Rotate
import FrappyProofs.Props.C08
import FrappyProofs.Props.C20
