import FrappyProofs.Props.C20
