import FrappyProofs.Lemmas.Describe
import FrappyProofs.Lemmas.Dispatch
import FrappyProofs.Lemmas.Logging
import FrappyProofs.Lemmas.Rotate
import FrappyProofs.Props.C04
import FrappyProofs.Props.C06
import FrappyProofs.Props.C20
