import FrappyProofs.Lemmas.Logging
import FrappyProofs.Lemmas.Rotate
import FrappyProofs.Props.C01
import FrappyProofs.Props.C02
import FrappyProofs.Props.C20
