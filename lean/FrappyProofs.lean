import FrappyProofs.Lemmas.Logging
import FrappyProofs.Lemmas.Persist
import FrappyProofs.Lemmas.Rotate
import FrappyProofs.Props.C17
import FrappyProofs.Props.C20
