import FrappyProofs.Lemmas.Control
import FrappyProofs.Lemmas.ExtParams
import FrappyProofs.Lemmas.Logging
import FrappyProofs.Lemmas.Rotate
import FrappyProofs.Props.C18
import FrappyProofs.Props.C20
