import FrappyProofs.Lemmas.Lifecycle
import FrappyProofs.Lemmas.Logging
import FrappyProofs.Lemmas.Rotate
import FrappyProofs.Props.C15
import FrappyProofs.Props.C20
