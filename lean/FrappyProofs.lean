import FrappyProofs.Lemmas.Klass
import FrappyProofs.Lemmas.Logging
import FrappyProofs.Lemmas.Rotate
import FrappyProofs.Props.C09
import FrappyProofs.Props.C20
