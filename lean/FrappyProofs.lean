import FrappyProofs.Lemmas.Codec
import FrappyProofs.Lemmas.Framing
import FrappyProofs.Lemmas.Logging
import FrappyProofs.Lemmas.ReqLoop
import FrappyProofs.Lemmas.Rotate
import FrappyProofs.Props.C07
import FrappyProofs.Props.C20
