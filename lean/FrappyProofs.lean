import FrappyProofs.Lemmas.Cache
import FrappyProofs.Lemmas.Logging
import FrappyProofs.Lemmas.Rotate
import FrappyProofs.Props.C12
import FrappyProofs.Props.C20
