import FrappyProofs.Lemmas.Discovery
import FrappyProofs.Lemmas.Logging
import FrappyProofs.Lemmas.Rotate
import FrappyProofs.Props.C19
import FrappyProofs.Props.C20
