import FrappyDrive.C01
import FrappyDrive.C14
import FrappyDrive.C15
import FrappyDrive.C19
import FrappyDrive.C20
import FrappyDrive.DTypes
import FrappyDrive.FloatInst
import FrappyDrive.Util
