import FrappyDrive.C01
import FrappyDrive.C03
import FrappyDrive.C20
import FrappyDrive.DTypes
import FrappyDrive.FloatInst
import FrappyDrive.Util
