import FrappyDrive.C19
import FrappyDrive.C20
import FrappyDrive.Util
