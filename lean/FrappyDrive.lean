import FrappyDrive.C17
import FrappyDrive.C20
import FrappyDrive.Util
