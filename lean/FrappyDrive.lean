import FrappyDrive.C08
import FrappyDrive.C20
import FrappyDrive.Util
