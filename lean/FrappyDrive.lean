import FrappyDrive.C14
import FrappyDrive.C20
import FrappyDrive.Util
