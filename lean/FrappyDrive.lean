import FrappyDrive.C12
import FrappyDrive.C20
import FrappyDrive.Util
