import FrappyDrive.C07
import FrappyDrive.C20
import FrappyDrive.Util
