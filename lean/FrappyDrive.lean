import FrappyDrive.C04
import FrappyDrive.C06
import FrappyDrive.C20
import FrappyDrive.Util
