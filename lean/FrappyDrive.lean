import FrappyDrive.C09
import FrappyDrive.C20
import FrappyDrive.Util
