import FrappyDrive.C10
import FrappyDrive.C20
import FrappyDrive.Util
