import FrappyDrive.C13
import FrappyDrive.C20
import FrappyDrive.Util
