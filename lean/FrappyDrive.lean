import FrappyDrive.C16
import FrappyDrive.C20
import FrappyDrive.Util
