import FrappyDrive.C05
import FrappyDrive.C20
import FrappyDrive.Util
