import FrappyDrive.C11
import FrappyDrive.C20
import FrappyDrive.Util
