import FrappyDrive.Util
import FrappyDrive.C20
