import FrappyDrive.C18
import FrappyDrive.C20
import FrappyDrive.Util
