import FrappyDrive.C15
import FrappyDrive.C20
import FrappyDrive.Util
