import FrappyDrive.C20
import FrappyDrive.Util
