import FrappyDrive
/-
Line protocol: one JSON object per input line `{"p": "<Cxx>", "k": "<verb>", …}`,
one JSON object per output line: the handler's answer, or `{"driver_error": "<text>"}`.
-/
open Lean Frappy.Drive

def dispatch (j : Json) : R Json := do
  let p ← fldStr j "p"
  match p with
  | "C20" => Frappy.Drive.C20.handle j
  | "ping" => return Json.mkObj [("pong", Json.bool true)]
  | _ => throw s!"unknown property {p}"

partial def loop (inp out : IO.FS.Stream) : IO Unit := do
  let line ← inp.getLine
  if line.isEmpty then return ()
  let ans := match Json.parse line with
    | .ok j => match dispatch j with
      | .ok r => r
      | .error e => Json.mkObj [("driver_error", Json.str e)]
    | .error e => Json.mkObj [("driver_error", Json.str s!"parse: {e}")]
  out.putStrLn ans.compress
  loop inp out

def main : IO Unit := do
  let out ← IO.getStdout
  loop (← IO.getStdin) out
  out.flush
