import FrappyModel.Base.PVal
/-
The ten SECoP datatypes with the properties that matter for validation (`frappy/datatypes.py`):

| constructor | class | properties |
|---|---|---|
| `double`  | `FloatRange` (216-295)    | `min max absolute_resolution relative_resolution` |
| `int`     | `IntRange` (298-370)      | `min max` |
| `scaled`  | `ScaledInteger` (373-486) | `scale min max absolute_resolution relative_resolution` (limits are *values*, not grid indices) |
| `bool`    | `BoolType` (710-743)      | |
| `enum`    | `EnumType` (489-551)      | members `(name, value)` in `Enum.members` order |
| `string`  | `StringType` (618-686)    | `minchars maxchars isUTF8` |
| `blob`    | `BLOBType` (554-615)      | `minbytes maxbytes` |
| `array`   | `ArrayOf` (753-873)       | element type, `minlen maxlen` |
| `tuple`   | `TupleOf` (876-951)       | element types |
| `struct`  | `StructOf` (960-1071)     | members in `dict` order, `optional`, `client` (set by `get_datatype`) |

`unit`, `fmtstr` do not take part in validation and are not modelled here (C03 adds them where it
needs them).  `DType.WF` is what the constructors and `HasProperties.checkProperties`
(`properties.py:155-169`) enforce (float limits went through `FloatRange.validate`, hence are finite,
within ±max and canonical: `x + 0.0 = x`).
-/
namespace Frappy

inductive DType (F : Type) where
  | double (min max absRes relRes : F)
  | int (min max : Int)
  | scaled (scale min max absRes relRes : F)
  | bool
  | enum (members : List (String × Int))
  | string (minchars maxchars : Nat) (utf8 : Bool)
  | blob (minbytes maxbytes : Nat)
  | array (elem : DType F) (minlen maxlen : Nat)
  | tuple (elems : List (DType F))
  | struct (members : List (String × DType F)) (optional : List String) (client : Bool)
  deriving Inhabited

namespace DType
variable {F : Type}

def kind : DType F → String
  | double .. => "double" | int .. => "int" | scaled .. => "scaled" | bool => "bool" | enum .. => "enum"
  | string .. => "string" | blob .. => "blob" | array .. => "array" | tuple .. => "tuple" | struct .. => "struct"

mutual
/-- nesting depth (leaves have depth 1) -/
def depth : DType F → Nat
  | array e _ _ => depth e + 1
  | tuple es => depthList es + 1
  | struct ms _ _ => depthFields ms + 1
  | _ => 1
def depthList : List (DType F) → Nat
  | [] => 0
  | t :: ts => max (depth t) (depthList ts)
def depthFields : List (String × DType F) → Nat
  | [] => 0
  | (_, t) :: ts => max (depth t) (depthFields ts)
end

/-- `self.members[key]` of a `StructOf` -/
def member? : List (String × DType F) → String → Option (DType F) := PVal.dictGet

section grid
variable [FloatOps F]
open FloatOps

/-- zero of the carrier (`0.0`), if `ofInt 0` converts (it always does, law `ofInt_small`) -/
def positive (s : F) : Bool :=
  match (ofInt 0 : Option F) with
  | some z => lt z s
  | none => false

def nonneg (s : F) : Bool := isNonneg s

/-- grid index of a value: `int(round(value / scale))` (`ScaledInteger.__call__`, `export_value`, `export_datatype`) -/
def gridIndex (scale x : F) : Option Int := round (div x scale)

/-- value of a grid index: `intval * scale` -/
def ofGrid (scale : F) (k : Int) : Option F :=
  match ofInt k with
  | some y => some (mul y scale)
  | none => none

/-- the grid value nearest to `x`: `float(int(round(x / scale)) * scale)` -/
def snap (scale x : F) : Option F :=
  match gridIndex scale x with
  | some k => ofGrid scale k
  | none => none

/-- the documented tolerance of a `double`: `max(abs(value * relative_resolution), absolute_resolution)` -/
def tolerance (relRes absRes x : F) : F := pymax (abs (mul x relRes)) absRes

end grid

/-- limits of the property datatypes `IntRange(-UNLIMITED, UNLIMITED)` (`datatypes.py:304-305`);
the constant is checked against the generated table in `Props/C01` -/
def intLimit : Int := 18446744073709551616

section wf
variable [FloatOps F]
open FloatOps

def namesOK (ms : List (String × Int)) : Bool :=
  !ms.isEmpty && (ms.map (·.1)).all (· != "")

mutual
/-- what the constructors / `checkProperties` enforce -/
def WF : DType F → Prop
  | double min max ar rr =>
      isFinite min = true ∧ isFinite max = true ∧ le min max = true ∧
      le (neg maxFinite) min = true ∧ le max maxFinite = true ∧
      addZero min = min ∧ addZero max = max ∧
      isFinite ar = true ∧ nonneg ar = true ∧ isFinite rr = true ∧ nonneg rr = true
  | int min max => min ≤ max ∧ -intLimit ≤ min ∧ max ≤ intLimit
  | scaled scale min max ar rr =>
      isFinite scale = true ∧ positive scale = true ∧
      isFinite min = true ∧ isFinite max = true ∧ le min max = true ∧
      addZero min = min ∧ addZero max = max ∧
      isFinite ar = true ∧ nonneg ar = true ∧ isFinite rr = true ∧ nonneg rr = true
  | bool => True
  | enum ms => namesOK ms = true ∧ (ms.map (·.1)).Nodup ∧ (ms.map (·.2)).Nodup
  | string minc maxc _ => minc ≤ maxc
  | blob minb maxb => minb ≤ maxb
  | array e minlen maxlen => WF e ∧ minlen ≤ maxlen
  | tuple es => es ≠ [] ∧ WFList es
  | struct ms opt _ => ms ≠ [] ∧ (ms.map (·.1)).Nodup ∧ (∀ k ∈ opt, k ∈ ms.map (·.1)) ∧ WFFields ms
def WFList : List (DType F) → Prop
  | [] => True
  | t :: ts => WF t ∧ WFList ts
def WFFields : List (String × DType F) → Prop
  | [] => True
  | (_, t) :: ts => WF t ∧ WFFields ts
end

def nodupB {α : Type} [BEq α] : List α → Bool
  | [] => true
  | a :: l => !l.contains a && nodupB l

mutual
/-- executable `WF` (the driver checks every generated tree with it) -/
def wfB : DType F → Bool
  | double min max ar rr =>
      isFinite min && isFinite max && le min max && le (neg maxFinite) min && le max maxFinite &&
      same (addZero min) min && same (addZero max) max &&
      isFinite ar && nonneg ar && isFinite rr && nonneg rr
  | int min max => decide (min ≤ max) && decide (-intLimit ≤ min) && decide (max ≤ intLimit)
  | scaled scale min max ar rr =>
      isFinite scale && positive scale && isFinite min && isFinite max && le min max &&
      same (addZero min) min && same (addZero max) max &&
      isFinite ar && nonneg ar && isFinite rr && nonneg rr
  | bool => true
  | enum ms => namesOK ms && nodupB (ms.map (·.1)) && nodupB (ms.map (·.2))
  | string minc maxc _ => decide (minc ≤ maxc)
  | blob minb maxb => decide (minb ≤ maxb)
  | array e minlen maxlen => wfB e && decide (minlen ≤ maxlen)
  | tuple es => !es.isEmpty && wfBList es
  | struct ms opt _ => !ms.isEmpty && nodupB (ms.map (·.1)) && opt.all (fun k => (ms.map (·.1)).contains k) && wfBFields ms
def wfBList : List (DType F) → Bool
  | [] => true
  | t :: ts => wfB t && wfBList ts
def wfBFields : List (String × DType F) → Bool
  | [] => true
  | (_, t) :: ts => wfB t && wfBFields ts
end

end wf
end DType
end Frappy
