import FrappyModel.Datatypes.Validate
/-
C03 — `a.compatible(b)` of every datatype (`frappy/datatypes.py`, after the `fix:` commits of
`known_findings/C03.json`): raises when there may be a value valid for `a` but not for `b`.

  FloatRange 291-295 · IntRange 361-371 · ScaledInteger 482-486 · EnumType 549-551 · BLOBType 610-615 ·
  StringType 680-686 · BoolType 741-743 · ArrayOf 864-870 · TupleOf 941-947 · StructOf 1058-1068

Result `.ok ()` = returns; `.error .range` / `.error .wrongType` = the SECoP error raised.  The numeric
kinds *call* `other.validate` on their two limits, integers run through their range against enums and
booleans, enums and booleans enumerate their members — the model does the same with the model of
`validate` / `__call__` (`FrappyModel/Datatypes/Validate.lean`).  `AttributeError` / `TypeError` /
`KeyError` raised by touching a property the other kind does not have are caught by the code and become
`WrongTypeError`: the `| _ => .error .wrongType` arms.
-/
namespace Frappy.Datatypes
open FloatOps
variable {F : Type} [FloatOps F]

def check (r : Res F) : Except Err Unit :=
  match r with
  | .ok _ => .ok ()
  | .error e => .error e

/-- `other.validate(self.min); other.validate(self.max)` -/
def limitsValid (b : DType F) (lo hi : PVal F) : Except Err Unit :=
  match validate b lo none with
  | .error e => .error e
  | .ok _ => check (validate b hi none)

/-- `for i in range(i0, i0 + n): p(i)` — stops at the first exception (with an enum or a boolean as
`other` that is after at most `len(members) + 1` rounds, 365-369) -/
def allFrom (p : Int → Except Err Unit) (i : Int) : Nat → Except Err Unit
  | 0 => .ok ()
  | n + 1 =>
    match p i with
    | .error e => .error e
    | .ok _ => allFrom p (i + 1) n

/-- `for m in self._enum.members: other(m)` -/
def allMembers (p : String → Int → Except Err Unit) : List (String × Int) → Except Err Unit
  | [] => .ok ()
  | (n, v) :: rest =>
    match p n v with
    | .error e => .error e
    | .ok _ => allMembers p rest

/-- `set(self.optional) != set(self.members)` (same test as in `export_datatype`) -/
def someMandatory (names opt : List String) : Bool :=
  !(names.all opt.contains && opt.all names.contains)

/-- `mandatory = set(other.members) - set(other.optional)`, minus the members found here that may not be
missing here; nothing may be left.  When *all* members are optional here (the constructor's default) the code
takes that as "not specified" and looks at no optional list: recorded finding
`C03:sound:struct->struct:optional-vs-mandatory`. -/
def mandatoryCovered (names opt names' opt' : List String) : Bool :=
  names'.all (fun k => opt'.contains k ||
    (names.contains k && !(someMandatory names opt && opt.contains k)))

mutual
/-- `a.compatible(b)` -/
def compatible : DType F → DType F → Except Err Unit
  | .double mn mx _ _, b =>
    match b with
    | .double .. => limitsValid b (.float mn) (.float mx)
    | .scaled .. => limitsValid b (.float mn) (.float mx)
    | _ => .error .wrongType
  | .scaled _ mn mx _ _, b =>
    match b with
    | .double .. => limitsValid b (.float mn) (.float mx)
    | .scaled .. => limitsValid b (.float mn) (.float mx)
    | _ => .error .wrongType
  | .int mn mx, b =>
    match b with
    | .int .. => limitsValid b (.int mn) (.int mx)
    | .double .. => limitsValid b (.int mn) (.int mx)
    | .scaled .. => limitsValid b (.int mn) (.int mx)
    | .enum _ => allFrom (fun i => check (call b (.int i))) mn (mx - mn + 1).toNat
    | .bool => allFrom (fun i => check (call b (.int i))) mn (mx - mn + 1).toNat
    | _ => .error .wrongType
  | .enum ms, b => allMembers (fun n v => check (call b (.enum n v))) ms
  | .bool, b => limitsValid b (.bool false) (.bool true)
  | .blob a1 a2, b =>
    match b with
    | .blob b1 b2 => if a1 < b1 || a2 > b2 then .error .range else .ok ()
    | _ => .error .wrongType
  | .string a1 a2 u, b =>
    match b with
    | .string b1 b2 v => if a1 < b1 || a2 > b2 || (u && !v) then .error .range else .ok ()
    | _ => .error .wrongType
  | .array e a1 a2, b =>
    match b with
    | .array e' b1 b2 => if a1 < b1 || a2 > b2 then .error .range else compatible e e'
    | _ => .error .wrongType
  | .tuple es, b =>
    match b with
    | .tuple es' => if es.length ≠ es'.length then .error .wrongType else compatList es es'
    | _ => .error .wrongType
  | .struct ms opt _, b =>
    match b with
    | .struct ms' opt' _ =>
      match compatFields ms ms' with
      | .error e => .error e
      | .ok _ =>
        if mandatoryCovered (ms.map (·.1)) opt (ms'.map (·.1)) opt' then .ok () else .error .wrongType
    | _ => .error .wrongType
/-- `for a, b in zip(self.members, other.members): a.compatible(b)` -/
def compatList : List (DType F) → List (DType F) → Except Err Unit
  | [], _ => .ok ()
  | _ :: _, [] => .ok ()
  | t :: ts, t' :: ts' =>
    match compatible t t' with
    | .error e => .error e
    | .ok _ => compatList ts ts'
/-- `for k, m in self.members.items(): m.compatible(other.members[k])` (`KeyError` → `WrongTypeError`) -/
def compatFields : List (String × DType F) → List (String × DType F) → Except Err Unit
  | [], _ => .ok ()
  | (k, t) :: rest, ms' =>
    match DType.member? ms' k with
    | none => .error .wrongType
    | some t' =>
      match compatible t t' with
      | .error e => .error e
      | .ok _ => compatFields rest ms'
end

end Frappy.Datatypes
