import FrappyModel.Datatypes.Validate
/-
The refusal path of the scalar datatypes: every `WrongTypeError` / `RangeError` of `FloatRange`, `IntRange`,
`ScaledInteger`, `EnumType`, `BLOBType`, `StringType`, `BoolType` is built as

    raise WrongTypeError(f'can not convert {shortrepr(value)} to a float') from None

(`datatypes.py:256, 335, 450-457, 490-492, 548-549, 611, 628-635, 680-692, 758-763`), so the helper `shortrepr`
(`datatypes.py:45-57`, after fix 3970e51) runs on EVERY candidate that is refused, whatever its kind and size,
before the bad-value error exists.  If it raises, that exception leaves `__call__` / `validate` / `import_value`
instead of the bad-value error.

    def shortrepr(value):
        try:
            r = repr(value)
        except Exception:
            return f'<{type(value).__name__} object>'
        if len(r) > 40:
            return r[:40] + '...'
        return r

`repr(value)` is an external call (it raises `ValueError` for an int beyond the str-conversion digit limit and
`RecursionError` for a value nested too deeply): a function parameter answering a text or the class of an exception.
-/
namespace Frappy.Datatypes

/-- `r[:40] + '...'` for texts of more than 40 characters (code points, as Python slices) -/
def cut40 (r : String) : String :=
  if r.length > 40 then String.ofList (r.toList.take 40) ++ "..." else r

/-- `shortrepr(value)`: the text, or the class of the exception that leaves the helper -/
def shortrepr {α : Type} (repr : α → Except String String) (typeName : α → String) (v : α) : Except String String :=
  match repr v with
  | .ok r => .ok (cut40 r)
  | .error _ => .ok ("<" ++ typeName v ++ " object>")

/-- `raise cls(f'… {shortrepr(value)} …')`: what leaves the method — the bad-value error `cls`, or whatever the
construction of its text raised -/
def raiseBad {α : Type} (repr : α → Except String String) (typeName : α → String) (cls : Err) (v : α) : Err :=
  match shortrepr repr typeName v with
  | .ok _ => cls
  | .error c => .other c

end Frappy.Datatypes
