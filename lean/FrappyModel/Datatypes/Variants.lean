import FrappyModel.Datatypes.Compat
/-
C03 — the datatype classes *derived* from the ten SECoP kinds (`frappy/datatypes.py`):

| constructor | class | what it is |
|---|---|---|
| `text n`    | `TextType(maxchars)` 721-734   | `StringType(0, maxchars)`, `isUTF8 = False`; overrides `__init__`, `__repr__`, `copy` |
| `limits m`  | `LimitsType(member)` 1306-1319 | `TupleOf(member, member)`; overrides `validate` (refuses `limits[1] < limits[0]`) and `copy` |
| `status ms` | `StatusType(…)` 1322-1371      | `TupleOf(EnumType(ms), StringType())`; overrides `__init__`, `__getattr__` |

All three are described (`export_datatype`, inherited) as the kind they derive from — `CType.erase` — and a
client / `get_datatype` rebuilds them as that plain kind.  None overrides `compatible`: the inherited method
runs, and its kind tests (`isinstance(other, TupleOf)`, attribute access `other.minchars` …) accept instances
of the derived classes — `compatibleC` transcribes this dispatch, `tupleMembers?` is `isinstance(other,
TupleOf)` + `other.members`.  A `leaf` holds an instance of one of the seven non-container base classes
(`CType.WF`); containers carry `CType` members, so a derived class can sit at any depth.
-/
namespace Frappy.Datatypes
open FloatOps
variable {F : Type} [FloatOps F]

/-- `UNLIMITED` (`datatypes.py:42`), the `maxchars` of `StringType()` -/
def unlimitedChars : Nat := 18446744073709551616

inductive CType (F : Type) where
  | leaf (t : DType F)
  | text (maxchars : Nat)
  | array (elem : CType F) (minlen maxlen : Nat)
  | tuple (elems : List (CType F))
  | limits (member : CType F)
  | status (members : List (String × Int))
  | struct (members : List (String × CType F)) (optional : List String) (client : Bool)
  deriving Inhabited

namespace CType

/-- the Python class of the node (what `type(dt).__name__` shows for the derived classes) -/
def cls : CType F → String
  | leaf _ => "" | text _ => "text" | array .. => "" | tuple _ => "" | limits _ => "limits" | status _ => "status"
  | struct .. => ""

mutual
/-- the SECoP kind tree the datatype is described as (`export_datatype` is inherited) -/
def erase : CType F → DType F
  | leaf t => t
  | text n => .string 0 n false
  | array e a b => .array (erase e) a b
  | tuple es => .tuple (eraseList es)
  | limits m => .tuple [erase m, erase m]
  | status ms => .tuple [.enum ms, .string 0 unlimitedChars false]
  | struct ms opt c => .struct (eraseFields ms) opt c
def eraseList : List (CType F) → List (DType F)
  | [] => []
  | t :: ts => erase t :: eraseList ts
def eraseFields : List (String × CType F) → List (String × DType F)
  | [] => []
  | (k, t) :: ts => (k, erase t) :: eraseFields ts
end

/-- `isinstance(other, TupleOf)` and then `other.members` -/
def tupleMembers? : CType F → Option (List (CType F))
  | tuple es => some es
  | limits m => some [m, m]
  | status ms => some [leaf (.enum ms), leaf (.string 0 unlimitedChars false)]
  | _ => none

/-- one of the seven non-container kinds -/
def _root_.Frappy.DType.isLeafKind : DType F → Bool
  | .array .. => false | .tuple _ => false | .struct .. => false | _ => true

/-- a number kind: the members `LimitsType` is meant for ("an ordered tuple of numeric member types") -/
def isNumeric : CType F → Bool
  | leaf (.double ..) => true | leaf (.int ..) => true | leaf (.scaled ..) => true | _ => false

mutual
/-- what the constructors enforce, plus: leaves hold non-container kinds, the member of a `LimitsType` is a
number kind (with any other member `limits[1] < limits[0]` compares strings, tuples … or raises `TypeError`:
not modelled) -/
def WF : CType F → Prop
  | leaf t => t.WF ∧ t.isLeafKind = true
  | text _ => True
  | array e a b => WF e ∧ a ≤ b
  | tuple es => es ≠ [] ∧ WFList es
  | limits m => WF m ∧ isNumeric m = true
  | status ms => DType.namesOK ms = true ∧ (ms.map (·.1)).Nodup ∧ (ms.map (·.2)).Nodup
  | struct ms opt _ => ms ≠ [] ∧ (ms.map (·.1)).Nodup ∧ (∀ k ∈ opt, k ∈ ms.map (·.1)) ∧ WFFields ms
def WFList : List (CType F) → Prop
  | [] => True
  | t :: ts => WF t ∧ WFList ts
def WFFields : List (String × CType F) → Prop
  | [] => True
  | (_, t) :: ts => WF t ∧ WFFields ts
end

mutual
/-- executable `WF` -/
def wfB : CType F → Bool
  | leaf t => t.wfB && t.isLeafKind
  | text _ => true
  | array e a b => wfB e && decide (a ≤ b)
  | tuple es => !es.isEmpty && wfBList es
  | limits m => wfB m && isNumeric m
  | status ms => DType.namesOK ms && DType.nodupB (ms.map (·.1)) && DType.nodupB (ms.map (·.2))
  | struct ms opt _ => !ms.isEmpty && DType.nodupB (ms.map (·.1)) && opt.all (fun k => (ms.map (·.1)).contains k) && wfBFields ms
def wfBList : List (CType F) → Bool
  | [] => true
  | t :: ts => wfB t && wfBList ts
def wfBFields : List (String × CType F) → Bool
  | [] => true
  | (_, t) :: ts => wfB t && wfBFields ts
end

mutual
/-- every `leaf` holds one of the seven non-container kinds (part of `WF`; containers are `CType` nodes) -/
def Leafy : CType F → Prop
  | leaf t => t.isLeafKind = true
  | text _ => True
  | array e _ _ => Leafy e
  | tuple es => LeafyList es
  | limits m => Leafy m
  | status _ => True
  | struct ms _ _ => LeafyFields ms
def LeafyList : List (CType F) → Prop
  | [] => True
  | t :: ts => Leafy t ∧ LeafyList ts
def LeafyFields : List (String × CType F) → Prop
  | [] => True
  | (_, t) :: ts => Leafy t ∧ LeafyFields ts
end

mutual
/-- no `LimitsType` anywhere in the tree (true of everything `get_datatype` builds) -/
def limitsFree : CType F → Bool
  | leaf _ => true
  | text _ => true
  | array e _ _ => limitsFree e
  | tuple es => limitsFreeList es
  | limits _ => false
  | status _ => true
  | struct ms _ _ => limitsFreeFields ms
def limitsFreeList : List (CType F) → Bool
  | [] => true
  | t :: ts => limitsFree t && limitsFreeList ts
def limitsFreeFields : List (String × CType F) → Bool
  | [] => true
  | (_, t) :: ts => limitsFree t && limitsFreeFields ts
end

/-- `self.members[key]` of a `StructOf` -/
def member? : List (String × CType F) → String → Option (CType F) := PVal.dictGet

end CType

/-! ## `LimitsType.validate` -/

/-- `limits[1] < limits[0]` on validated numbers (floats of a `FloatRange` / `ScaledInteger`, integers of an `IntRange`) -/
def pyLt : PVal F → PVal F → Bool
  | .float x, .float y => lt x y
  | .int i, .int j => decide (i < j)
  | _, _ => false

mutual
/-- the extra test of `LimitsType.validate` (1310-1316), at every `LimitsType` inside a validated value: `false` where
`RangeError('maximum value … must be greater than minimum value …')` is raised -/
def ordered : CType F → PVal F → Bool
  | .limits m, v =>
    match v with
    | .tuple [x, y] => !pyLt y x && ordered m x && ordered m y
    | _ => true
  | .array e _ _, v =>
    match v with
    | .tuple vs => vs.all (ordered e)
    | _ => true
  | .tuple es, v =>
    match v with
    | .tuple vs => orderedZip es vs
    | _ => true
  | .struct ms _ _, v =>
    match v with
    | .dict fields => fields.all (fun kv => orderedMember ms kv.1 kv.2)
    | _ => true
  | _, _ => true
def orderedZip : List (CType F) → List (PVal F) → Bool
  | t :: ts, v :: vs => ordered t v && orderedZip ts vs
  | _, _ => true
def orderedMember : List (String × CType F) → String → PVal F → Bool
  | [], _, _ => true
  | (k, t) :: rest, key, v => if k = key then ordered t v else orderedMember rest key v
end

/-- `dt.validate(v, previous)` of a tree with derived classes: the inherited `validate` of the kinds, and every
`LimitsType` refuses its validated pair when it is not ordered (the error is a `RangeError`, which every
enclosing container passes on as a bad-value error) -/
def cvalidate (b : CType F) (v : PVal F) (prev : Option (PVal F)) : Res F :=
  match validate b.erase v prev with
  | .ok r => if ordered b r then .ok r else .error .range
  | .error e => .error e

/-! ## `compatible` with derived classes on either side -/

mutual
/-- `a.compatible(b)`: the method of the base class runs (none of the derived classes overrides it) -/
def compatibleC : CType F → CType F → Except Err Unit
  | .leaf t, b => compatible t b.erase
  | .text n, b => compatible (.string 0 n false) b.erase            -- `StringType.compatible`, reads `other.minchars` …
  | .array e a1 a2, b =>
    match b with
    | .array e' b1 b2 => if a1 < b1 || a2 > b2 then .error .range else compatibleC e e'
    | _ => .error .wrongType
  | .tuple es, b =>
    match b.tupleMembers? with                                          -- `isinstance(other, TupleOf)`
    | some es' => if es.length ≠ es'.length then .error .wrongType else compatListC es es'
    | none => .error .wrongType
  | .limits m, b =>
    match b.tupleMembers? with
    | some es' =>
      match es' with
      | [x, y] =>
        match compatibleC m x with
        | .error e => .error e
        | .ok _ => compatibleC m y
      | _ => .error .wrongType
    | none => .error .wrongType
  | .status ms, b =>
    match b.tupleMembers? with
    | some es' =>
      match es' with
      | [x, y] =>
        match compatible (.enum ms) x.erase with
        | .error e => .error e
        | .ok _ => compatible (.string 0 unlimitedChars false) y.erase
      | _ => .error .wrongType
    | none => .error .wrongType
  | .struct ms opt _, b =>
    match b with
    | .struct ms' opt' _ =>
      match compatFieldsC ms ms' with
      | .error e => .error e
      | .ok _ =>
        if mandatoryCovered (ms.map (·.1)) opt (ms'.map (·.1)) opt' then .ok () else .error .wrongType
    | _ => .error .wrongType
def compatListC : List (CType F) → List (CType F) → Except Err Unit
  | [], _ => .ok ()
  | _ :: _, [] => .ok ()
  | t :: ts, t' :: ts' =>
    match compatibleC t t' with
    | .error e => .error e
    | .ok _ => compatListC ts ts'
def compatFieldsC : List (String × CType F) → List (String × CType F) → Except Err Unit
  | [], _ => .ok ()
  | (k, t) :: rest, ms' =>
    match CType.member? ms' k with
    | none => .error .wrongType
    | some t' =>
      match compatibleC t t' with
      | .error e => .error e
      | .ok _ => compatFieldsC rest ms'
end

/-! ## `copy()` and the rebuild: which class comes back -/

mutual
/-- what `get_datatype` builds from a description: instances of the ten base classes only (`DATATYPES`, 1381-1407) -/
def ofKind : DType F → CType F
  | .array e a b => .array (ofKind e) a b
  | .tuple es => .tuple (ofKindList es)
  | .struct ms opt c => .struct (ofKindFields ms) opt c
  | t => .leaf t
def ofKindList : List (DType F) → List (CType F)
  | [] => []
  | t :: ts => ofKind t :: ofKindList ts
def ofKindFields : List (String × DType F) → List (String × CType F)
  | [] => []
  | (k, t) :: ts => (k, ofKind t) :: ofKindFields ts
end

/-- the rebuilt datatype of a tree with derived classes: the description is the one of the kind tree -/
def rebuildC (a : CType F) : CType F := ofKind a.erase

mutual
/-- `dt.copy()`, classes only (what the copy of a leaf *is* is `Datainfo.copy`): containers copy their members by
`m.copy()` (806-808, 926-928, 1024-1028), `TextType.copy` (732-734) and `LimitsType.copy` (1318-1319) return their own
class, `StatusType` inherits `TupleOf.copy`, which builds a plain `TupleOf` of the copied members -/
def copyC : CType F → CType F
  | .leaf t => .leaf t
  | .text n => .text n
  | .array e a b => .array (copyC e) a b
  | .tuple es => .tuple (copyCList es)
  | .limits m => .limits (copyC m)
  | .status ms => .tuple [.leaf (.enum ms), .leaf (.string 0 unlimitedChars false)]
  | .struct ms opt c => .struct (copyCFields ms) opt c
def copyCList : List (CType F) → List (CType F)
  | [] => []
  | t :: ts => copyC t :: copyCList ts
def copyCFields : List (String × CType F) → List (String × CType F)
  | [] => []
  | (k, t) :: ts => (k, copyC t) :: copyCFields ts
end

/-- the classes of a tree, kinds and properties left out (what the harness compares for a copy / a rebuilt type) -/
inductive Skel where
  | leaf
  | text
  | array (e : Skel)
  | tuple (es : List Skel)
  | limits (m : Skel)
  | status
  | struct (ms : List (String × Skel))
  deriving Inhabited

mutual
def CType.skel : CType F → Skel
  | .leaf _ => .leaf
  | .text _ => .text
  | .array e _ _ => .array e.skel
  | .tuple es => .tuple (CType.skelList es)
  | .limits m => .limits m.skel
  | .status _ => .status
  | .struct ms _ _ => .struct (CType.skelFields ms)
def CType.skelList : List (CType F) → List Skel
  | [] => []
  | t :: ts => t.skel :: CType.skelList ts
def CType.skelFields : List (String × CType F) → List (String × Skel)
  | [] => []
  | (k, t) :: ts => (k, t.skel) :: CType.skelFields ts
end

end Frappy.Datatypes
