import FrappyModel.Datatypes.Datainfo
/-
C03 — the description of a command: `CommandType.export_datatype` (datatypes.py 1150-1157), the `command` entry of the
rebuild table `DATATYPES` (1410-1411: `CommandType(get_datatype(argument, pname), get_datatype(result))`,
`get_datatype(None) = None`, any failure → `WrongTypeError`) and `CommandType.copy` (inherited `DataType.copy`:
`get_datatype(self.export_datatype())` — argument and result are REBUILT, not copied by their own `copy()`).

A command is not a value type (`__call__`, `validate`, `import_value` raise `ProgrammingError`), so it is not a
constructor of `DInfo`; its argument and result are `DInfo` trees.  The old syntax `['command', {...}]` is not modelled.
-/
namespace Frappy

structure CmdInfo (F : Type) where
  argument : Option (DInfo F)
  result : Option (DInfo F)

namespace Datatypes
open PVal (dictGet)
variable {F : Type} [FloatOps F]

/-- `a.export_datatype()` of an argument / result that is not `None` -/
def exportOpt (D : Consts F) : Option (DInfo F) → Except Err (Option (JVal F))
  | none => .ok none
  | some t =>
    match exportDatatype D t with
    | .ok j => .ok (some j)
    | .error e => .error e

/-- `if a is not None: props[k] = …` -/
def optItem (k : String) : Option (JVal F) → List (String × JVal F)
  | none => []
  | some j => [(k, j)]

/-- `CommandType.export_datatype` -/
def exportCommand (D : Consts F) (c : CmdInfo F) : Except Err (JVal F) :=
  match exportOpt D c.argument, exportOpt D c.result with
  | .ok a, .ok r => .ok (.obj ([("type", .str "command")] ++ optItem "argument" a ++ optItem "result" r))
  | .error e, _ => .error e
  | _, .error e => .error e

/-- `get_datatype(x)` for a keyword argument of the `command` lambda: not given (default `None`) or JSON `null` → `None` -/
def getOpt (D : Consts F) : Option (JVal F) → Except Err (Option (DInfo F))
  | none => .ok none
  | some .null => .ok none
  | some j =>
    match getDatatype D j with
    | .ok t => .ok (some t)
    | .error _ => .error .wrongType

/-- `get_datatype({'type': 'command', …})`: unknown keys are ignored (`**kwds`), a key `pname` collides with the explicit
argument, every failure is a `WrongTypeError` -/
def getCommand (D : Consts F) : JVal F → Except Err (CmdInfo F)
  | .obj fields =>
    match dictGet fields "type" with
    | some (.str "command") =>
      if (dictGet fields "pname").isSome then .error .wrongType
      else
        match getOpt D (dictGet fields "argument"), getOpt D (dictGet fields "result") with
        | .ok a, .ok r => .ok { argument := a, result := r }
        | _, _ => .error .wrongType
    | _ => .error .wrongType
  | _ => .error .wrongType

/-- `CommandType.copy()` = `DataType.copy` -/
def copyCommand (D : Consts F) (c : CmdInfo F) : Except Err (CmdInfo F) :=
  match exportCommand D c with
  | .ok j => getCommand D j
  | .error e => .error e

end Datatypes
end Frappy
