import FrappyModel.Datatypes.Types
/-
Model of `__call__` (type conversion) and `validate(value, previous)` (conversion + limit check) of
every datatype of `frappy/datatypes.py`, as one function `conv` with a mode, because the two methods
share their structure (`validate` = `__call__` + limits for the numeric leaves; the containers
recurse with the same method):

  `call dt v          := conv .call dt v none`        -- `dt(v)`
  `validate dt v prev := conv .validate dt v prev`    -- `dt.validate(v, prev)`

Transcribed (after the `fix:` commits listed in `known_findings/C01.json`):
  FloatRange 246-270 · IntRange 321-344 · ScaledInteger 436-456 · EnumType 522-529 · BLOBType 583-594 ·
  StringType 646-665 · BoolType 729-732 · ArrayOf 808-837 · TupleOf 902-927 · StructOf 1000-1036 ·
  `clamp` lib/__init__.py:231-238 (`FloatOps.median3`).

Result: `Except Err (PVal F)`; `Err.other c` stands for a Python exception of class `c` that is
*not* a SECoP error leaving the method.  `lazy_number_validation` is `False` (its default).

`previous`: the models follow the code for `None`, tuples/lists (arrays, tuples) and dicts (structs);
other kinds of `previous` are outside the property's quantifier ("values the parameter may
currently hold") — arrays and structs treat them like `None`, tuples answer `wrongType`.
-/
namespace Frappy
open FloatOps

inductive Err where
  | range                        -- `RangeError`
  | wrongType                    -- `WrongTypeError`
  | other (pyclass : String)     -- any exception that is not a SECoP bad-value error
  deriving DecidableEq, Repr, Inhabited

abbrev Res (F : Type) := Except Err (PVal F)

/-- `validate` or `__call__` -/
inductive Mode where
  | call
  | validate
  deriving DecidableEq, Repr

namespace Datatypes
open PVal (toFloat? seqItems? prevItems prevFields notOffered)
variable {F : Type} [FloatOps F]

/-- `except Exception as e: errcls = RangeError if isinstance(e, RangeError) else WrongTypeError`
(ArrayOf 825-827, 835-837; TupleOf 915-917, 925-927; StructOf 1009-1011, 1021-1023) -/
def wrapErr : Err → Err
  | .range => .range
  | _ => .wrongType

/-! ### leaves -/

/-- `FloatRange.__call__` (246-259): numbers only; NaN is refused; ±inf are mapped to ±max -/
def doubleCall (v : PVal F) : Except Err F :=
  match toFloat? v with
  | none => .error .wrongType
  | some x => if isNaN x then .error .range else .ok (median3 (neg maxFinite) x maxFinite)

/-- `FloatRange.validate` (261-270) -/
def doubleValidate (min max absRes relRes : F) (v : PVal F) : Except Err F :=
  match doubleCall v with
  | .error e => .error e
  | .ok x =>
    let prec := DType.tolerance relRes absRes x
    if le (sub min prec) x && le x (add max prec) then .ok (median3 min x max) else .error .range

/-- `IntRange.__call__` (321-336): `fvalue = value + 0.0; value = int(value)`, then
`round(fvalue) != fvalue` → `WrongTypeError`.  For an `int` the test cannot fail (`float(i)` is integral). -/
def intCall : PVal F → Except Err Int
  | .bool b => .ok (if b then 1 else 0)
  | .int i =>
    match (ofInt i : Option F) with
    | none => .error .wrongType          -- OverflowError inside the `try`
    | some _ => .ok i
  | .float x =>
    match trunc x with
    | none => .error .wrongType          -- int(nan) / int(inf) inside the `try`
    | some t =>
      match asInt? (addZero x) with
      | none => .error .wrongType        -- round(fvalue) != fvalue
      | some _ => .ok t
  | _ => .error .wrongType

/-- `IntRange.validate` (338-344) -/
def intValidate (min max : Int) (v : PVal F) : Except Err Int :=
  match intCall v with
  | .error e => .error e
  | .ok i => if min ≤ i ∧ i ≤ max then .ok i else .error .range

/-- `ScaledInteger.__call__` (436-448): `intval = int(round(value / self.scale))`,
`float(intval * self.scale)`; a NaN/±inf quotient and an infinite product are `RangeError`s -/
def scaledCall (scale : F) (v : PVal F) : Except Err F :=
  match toFloat? v with
  | none => .error .wrongType
  | some x =>
    match DType.gridIndex scale x with
    | none => .error .range
    | some k =>
      match (ofInt k : Option F) with
      | none => .error (.other "OverflowError")      -- int too large to convert to float (never: law `round_ofInt`)
      | some y =>
        if isFinite (mul y scale) then .ok (mul y scale)
        else .error .range                             -- the nearest grid value lies beyond ±max

/-- `ScaledInteger.validate`: a value whose grid value lies between the grid values of the limits is
returned as that grid value; otherwise the range test (on the value as offered) decides whether it is
clamped to a limit ("outside by not more than self.scale") or refused.  The band of that test is measured
from the GRID VALUES `lo`, `hi` of the limits - the limits that are enforced and that the datainfo
describes (`fix:` "ScaledInteger.validate measures its tolerance from the limits on the grid"); so `min` and
`max` enter only through `scaledCall scale min`, `scaledCall scale max` -/
def scaledValidate (scale min max : F) (v : PVal F) : Except Err F :=
  match scaledCall scale v with
  | .error e => .error e
  | .ok result =>
    match scaledCall scale (.float min), scaledCall scale (.float max) with
    | .error e, _ => .error e
    | .ok _, .error e => .error e
    | .ok lo, .ok hi =>
      if le lo result && le result hi then .ok result
      else
        match toFloat? v with
        | none => .error .wrongType                      -- not reached: `scaledCall` answered already
        | some x =>
          if lt (sub lo scale) x && lt x (add hi scale) then .ok (median3 lo result hi)
          else .error .range

/-- `self._enum[value]` by member value -/
def enumByValue (ms : List (String × Int)) (v : Int) : Option (String × Int) := ms.find? (fun m => m.2 == v)

def enumByName (ms : List (String × Int)) (s : String) : Option (String × Int) := ms.find? (fun m => m.1 == s)

/-- `EnumType.__call__` (522-529): `Enum` is a dict keyed by names *and* values, so a lookup succeeds
for a name, an int, a bool, an integral float (same hash, `1 == 1.0`) and an `EnumMember` with a
known value; a failed lookup is a `RangeError` for `int`/`str`, a `WrongTypeError` otherwise -/
def enumCall (ms : List (String × Int)) : PVal F → Res F
  | .str s =>
    match enumByName ms s with
    | some (n, v) => .ok (.enum n v)
    | none => .error .range
  | .int i =>
    match enumByValue ms i with
    | some (n, v) => .ok (.enum n v)
    | none => .error .range
  | .bool b =>
    match enumByValue ms (if b then 1 else 0) with
    | some (n, v) => .ok (.enum n v)
    | none => .error .range
  | .float x =>
    match asInt? x with
    | some k =>
      match enumByValue ms k with
      | some (n, v) => .ok (.enum n v)
      | none => .error .wrongType
    | none => .error .wrongType
  | .enum _ value =>
    match enumByValue ms value with
    | some (n, v) => .ok (.enum n v)
    | none => .error .wrongType
  | _ => .error .wrongType

/-- `BoolType.__call__` (729-732): `value in (0, 1)` is `==` with `0` and `1` -/
def boolCall : PVal F → Except Err Bool
  | .bool b => .ok b
  | .int i => if i = 0 then .ok false else if i = 1 then .ok true else .error .wrongType
  | .float x =>
    match asInt? x with
    | some k => if k = 0 then .ok false else if k = 1 then .ok true else .error .wrongType
    | none => .error .wrongType
  | .enum _ v => if v = 0 then .ok false else if v = 1 then .ok true else .error .wrongType
  | _ => .error .wrongType

def isAscii (s : String) : Bool := s.toList.all (fun c => c.toNat < 128)

def hasNul (s : String) : Bool := s.toList.any (fun c => c.toNat == 0)

/-- `StringType.__call__` (646-665) -/
def stringCall (minc maxc : Nat) (utf8 : Bool) : PVal F → Except Err String
  | .str s =>
    if !utf8 && !isAscii s then .error .range
    else if s.length < minc then .error .range
    else if s.length > maxc then .error .range
    else if hasNul s then .error .range
    else .ok s
  | _ => .error .wrongType

/-- `BLOBType.__call__` (583-594) -/
def blobCall (minb maxb : Nat) : PVal F → Except Err (List UInt8)
  | .bytes b =>
    if b.length < minb then .error .range
    else if b.length > maxb then .error .range
    else .ok b
  | _ => .error .wrongType

/-! ### container plumbing (loops over *values*; the element conversion is a parameter) -/

/-- `tuple(self.members.validate(v, p) for v, p in zip(value, previous + (None,) * …))` -/
def mapPrev (f : PVal F → Option (PVal F) → Res F) : List (PVal F) → List (PVal F) → Except Err (List (PVal F))
  | [], _ => .ok []
  | v :: vs, ps =>
    match f v ps.head? with
    | .error e => .error e
    | .ok r =>
      match mapPrev f vs ps.tail with
      | .error e => .error e
      | .ok rs => .ok (r :: rs)

/-- members of `value` that count as given: "goodie: allow None instead of missing key" -/
def givenKeys : List (String × PVal F) → List String
  | [] => []
  | (_, .none) :: rest => givenKeys rest
  | (k, _) :: rest => k :: givenKeys rest

/-- `StructOf.check_type` (1025-1036): no unknown member; no member missing, except optional ones
when `allowOptional` -/
def structCheck (memberNames optional : List String) (allowOptional : Bool) (items : List (String × PVal F)) : Bool :=
  items.all (fun kv => memberNames.contains kv.1) &&
  memberNames.all (fun k => (givenKeys items).contains k || (allowOptional && optional.contains k))

/-- `for key, val in value.items(): if val is not None: result[key] = self.members[key].validate(val)`;
`f key val` is `none` when `self.members[key]` raises `KeyError` -/
def foldFields (f : String → PVal F → Option (Res F)) :
    List (String × PVal F) → List (String × PVal F) → Except Err (List (String × PVal F))
  | [], acc => .ok acc
  | (_, .none) :: rest, acc => foldFields f rest acc
  | (k, v) :: rest, acc =>
    match f k v with
    | none => .error (.other "KeyError")
    | some (.error e) => .error e
    | some (.ok r) => foldFields f rest (PVal.dictSet acc k r)

/-- `StructOf.validate`: first the members taken over from `previous` (those not offered, validated like
offered ones), then the offered members -/
def structFold (f : String → PVal F → Option (Res F)) (items kept : List (String × PVal F)) :
    Except Err (List (String × PVal F)) :=
  match foldFields f kept [] with
  | .error e => .error e
  | .ok acc => foldFields f items acc

def mapErr {α : Type} (g : Err → Err) : Except Err α → Except Err α
  | .ok a => .ok a
  | .error e => .error (g e)

/-! ### the datatypes -/

mutual
/-- `dt(v)` (mode `call`, `prev` unused) / `dt.validate(v, prev)` (mode `validate`) -/
def conv (m : Mode) : DType F → PVal F → Option (PVal F) → Res F
  | .double min max ar rr, v, _ =>
    match m with
    | .call => (doubleCall v).map .float
    | .validate => (doubleValidate min max ar rr v).map .float
  | .int min max, v, _ =>
    match m with
    | .call => (intCall v).map .int
    | .validate => (intValidate min max v).map .int
  | .scaled scale min max _ _, v, _ =>
    match m with
    | .call => (scaledCall scale v).map .float
    | .validate => (scaledValidate scale min max v).map .float
  | .bool, v, _ => (boolCall v).map .bool
  | .enum ms, v, _ => enumCall ms v
  | .string minc maxc utf8, v, _ => (stringCall minc maxc utf8 v).map .str
  | .blob minb maxb, v, _ => (blobCall minb maxb v).map .bytes
  | .array elem minlen maxlen, v, prev =>
    match seqItems? v with
    | none => .error .wrongType
    | some vs =>
      if vs.length < minlen then .error .range
      else if vs.length > maxlen then .error .range
      else
        (mapErr wrapErr (mapPrev (conv m elem) vs (match m with | .call => [] | .validate => prevItems prev))).map .tuple
  | .tuple elems, v, prev =>
    match seqItems? v with
    | none => .error .wrongType
    | some vs =>
      if vs.length ≠ elems.length then .error .wrongType
      else
        match m, prev with
        | .validate, some p =>
          match seqItems? p with
          | none => .error .wrongType                                   -- zip(…, previous) raises inside the `try`
          | some ps => (mapErr wrapErr (convTuple m elems vs (some ps))).map .tuple
        | _, _ => (mapErr wrapErr (convTuple m elems vs none)).map .tuple
  | .struct members optional client, v, prev =>
    match v with
    | .dict items =>
      if structCheck (members.map (·.1)) optional (client || m == .validate) items then
        (mapErr wrapErr (structFold (convMember m members) items
          (match m with | .call => [] | .validate => notOffered items (prevFields prev)))).map .dict
      else .error .wrongType
    | _ => .error .wrongType
/-- `tuple(sub.validate(v, p) for sub, v, p in zip(self.members, value, previous))` / the two-list `zip` -/
def convTuple (m : Mode) : List (DType F) → List (PVal F) → Option (List (PVal F)) → Except Err (List (PVal F))
  | [], _, _ => .ok []
  | _ :: _, [], _ => .ok []
  | _ :: _, _ :: _, some [] => .ok []                                   -- `zip` stops at the shortest
  | t :: ts, v :: vs, some (p :: ps) =>
    match conv m t v (some p) with
    | .error e => .error e
    | .ok r =>
      match convTuple m ts vs (some ps) with
      | .error e => .error e
      | .ok rs => .ok (r :: rs)
  | t :: ts, v :: vs, none =>
    match conv m t v none with
    | .error e => .error e
    | .ok r =>
      match convTuple m ts vs none with
      | .error e => .error e
      | .ok rs => .ok (r :: rs)
/-- `self.members[key].validate(val)` / `self.members[key](val)`; `none` = `KeyError` -/
def convMember (m : Mode) : List (String × DType F) → String → PVal F → Option (Res F)
  | [], _, _ => none
  | (k, t) :: rest, key, v => if k = key then some (conv m t v none) else convMember m rest key v
end

/-- `dt(v)` -/
def call (dt : DType F) (v : PVal F) : Res F := conv .call dt v none

/-- `dt.validate(v, previous)` -/
def validate (dt : DType F) (v : PVal F) (prev : Option (PVal F)) : Res F := conv .validate dt v prev

end Datatypes
end Frappy
