import FrappyModel.Datatypes.Export
/-
Model of the text forms: `format_value(value, unit=False)`, `to_string`, `from_string` of every
datatype, `CacheItem.__str__` and `SecopClient.setParameterFromString`.

Transcribed (after the `fix:` commits of `known_findings/C02.json`):
  DataType.from_string 83-92 (`self(ast.literal_eval(text))`), to_string 94-106 ·
  FloatRange.format_value 286-291 / ScaledInteger 490-495 (`self.fmtstr % value`) · IntRange 360-361
  (`f'{value}'`) · EnumType.from_string 546-550, format_value 552-556 (`repr(value.name)`), to_string
  558-559 (`value.name`) · BLOBType 624-625 (`repr(value)`) · StringType 688-695 (`repr(value)`; to_string
  and from_string are the bare string) · BoolType.from_string 737-745, format_value 755-756 ·
  ArrayOf.format_value 871-884 (`[..]`) · TupleOf 965-970 (`(..)`, `(x,)` for one member) · StructOf
  1077-1083 (`{'k': ..}`) · client/__init__.py 150-157 (`CacheItem.__str__`), 730-739 (`setParameterFromString`).

A text is represented by its syntax tree `Surf` (what `ast.parse` sees): the printing of brackets and
commas and its parsing by `ast.literal_eval` are not modelled, the *choice* of brackets is — that
`(x)` is not a tuple and `()`/`(x,)` are is Python's rule transcribed in `literalEval`.
Leaves are produced and read by library functions (`'%g' % x`, `repr(str)`, `repr(bytes)`, `str(int)`,
`ast.literal_eval` of an atom, `str.strip`): fields of `TextLib`, universally quantified in the
theorems, with one law each (`Spec/C02.lean`).
-/
namespace Frappy.Datatypes
open FloatOps
variable {F : Type} [FloatOps F]

/-- syntax tree of a Python literal -/
inductive Surf where
  | atom (tok : String)                          -- number, string, bytes, `True`/`False`/`None`
  | list (items : List Surf)                     -- `[a, b]`
  | paren (items : List Surf) (trailing : Bool)  -- `(a, b)`; `trailing`: a comma after the last item
  | dict (items : List (String × Surf))          -- `{k: a}`, keys are atoms
  deriving Inhabited, Repr

/-- a text handed to / returned by `from_string` / `to_string`: either bare characters taken as they
are (string values, enum names, `True`/`False`) or the text of a Python literal -/
inductive Text where
  | bare (s : String)
  | syn (s : Surf)
  deriving Inhabited, Repr

/-- the library functions the text forms go through; `pos` is the position of the leaf in the
datatype tree (each leaf has its own `fmtstr`) -/
structure TextLib (F : Type) where
  /-- `fmtstr % value` -/
  fmtFloat : List Nat → F → String
  /-- `f'{value}'` of an `int` -/
  fmtInt : Int → String
  /-- `repr` of a `str` -/
  reprStr : String → String
  /-- `repr` of a `bytes` -/
  reprBytes : List UInt8 → String
  /-- `repr(True)`, `repr(False)` -/
  reprBool : Bool → String
  /-- `ast.literal_eval` of an atom; `none` = not a literal -/
  evalAtom : String → Option (PVal F)
  /-- `str.strip` -/
  strip : String → String

variable (lib : TextLib F)

/-! ### `format_value(value, unit=False)` -/

/-- `', '.join([self.members.format_value(elem, False) for elem in value])` -/
def mapFormat (f : PVal F → Option Surf) : List (PVal F) → Option (List Surf)
  | [] => some []
  | v :: vs =>
    match f v, mapFormat f vs with
    | some s, some ss => some (s :: ss)
    | _, _ => none

/-- `'%r: %s' % (k, self.members[k].format_value(v, False)) for k, v in value.items()`;
`f k v = none` is a `KeyError` or a failure below -/
def mapFieldsFormat (reprKey : String → String) (f : String → PVal F → Option Surf) :
    List (String × PVal F) → Option (List (String × Surf))
  | [] => some []
  | (k, v) :: rest =>
    match f k v, mapFieldsFormat reprKey f rest with
    | some s, some ss => some ((reprKey k, s) :: ss)
    | _, _ => none

/-- `fmtstr % value` takes numbers only -/
def fmtNumber (pos : List Nat) : PVal F → Option Surf
  | .float x => some (.atom (lib.fmtFloat pos x))
  | _ => none                                   -- ints/bools format too; not a value of the type: unmodelled

mutual
/-- `dt.format_value(v, False)` at position `pos` of the tree; `none` = an exception (the value is not
of the type: "value is not checked before formatting") -/
def formatValue : List Nat → DType F → PVal F → Option Surf
  | pos, .double _ _ _ _, v => fmtNumber lib pos v
  | pos, .scaled _ _ _ _ _, v => fmtNumber lib pos v
  | _, .int _ _, v =>
    match v with
    | .int i => some (.atom (lib.fmtInt i))
    | _ => none
  | _, .bool, v =>
    match v with
    | .bool b => some (.atom (lib.reprBool b))
    | _ => none
  | _, .enum _, v =>
    match v with
    | .enum n _ => some (.atom (lib.reprStr n))
    | _ => none
  | _, .string _ _ _, v =>
    match v with
    | .str s => some (.atom (lib.reprStr s))
    | _ => none
  | _, .blob _ _, v =>
    match v with
    | .bytes b => some (.atom (lib.reprBytes b))
    | _ => none
  | pos, .array elem _ _, v =>
    match PVal.seqItems? v with
    | some vs => (mapFormat (formatValue (pos ++ [0]) elem) vs).map .list
    | none => none
  | pos, .tuple elems, v =>
    match PVal.seqItems? v with
    | some vs =>
      (formatTuple pos 0 elems vs).map (fun ss => .paren ss (ss.length == 1))
    | none => none
  | pos, .struct members _ _, v =>
    match v with
    | .dict items => (mapFieldsFormat lib.reprStr (formatMember pos 0 members) items).map .dict
    | _ => none
/-- `[sub.format_value(elem, unit) for sub, elem in zip(self.members, value)]` -/
def formatTuple : List Nat → Nat → List (DType F) → List (PVal F) → Option (List Surf)
  | _, _, [], _ => some []
  | _, _, _ :: _, [] => some []
  | pos, i, t :: ts, v :: vs =>
    match formatValue (pos ++ [i]) t v, formatTuple pos (i + 1) ts vs with
    | some s, some ss => some (s :: ss)
    | _, _ => none
/-- `self.members[k].format_value(v, False)` -/
def formatMember : List Nat → Nat → List (String × DType F) → String → PVal F → Option Surf
  | _, _, [], _, _ => none
  | pos, i, (k, t) :: rest, key, v =>
    if k = key then formatValue (pos ++ [i]) t v else formatMember pos (i + 1) rest key v
end

/-! ### `ast.literal_eval` on the syntax tree -/

/-- what a parenthesised expression list denotes: `(x)` is `x`; `()`, `(x,)`, `(x, y)` are tuples -/
def parenValue (trailing : Bool) : List (PVal F) → PVal F
  | [v] => if trailing then .tuple [v] else v
  | vs => .tuple vs

mutual
/-- `none` = `ValueError: malformed node` -/
def literalEval : Surf → Option (PVal F)
  | .atom tok => lib.evalAtom tok
  | .list items => (literalEvalList items).map .list
  | .paren items trailing => (literalEvalList items).map (parenValue trailing)
  | .dict items => (literalEvalFields items []).map .dict
def literalEvalList : List Surf → Option (List (PVal F))
  | [] => some []
  | s :: ss =>
    match literalEval s, literalEvalList ss with
    | some v, some vs => some (v :: vs)
    | _, _ => none
/-- `dict(zip(keys, values))`: a repeated key keeps its last value; keys other than strings are not modelled -/
def literalEvalFields : List (String × Surf) → List (String × PVal F) → Option (List (String × PVal F))
  | [], acc => some acc
  | (ktok, s) :: rest, acc =>
    match lib.evalAtom ktok, literalEval s with
    | some (.str k), some v => literalEvalFields rest (PVal.dictSet acc k v)
    | _, _ => none
end

/-! ### `to_string` / `from_string` -/

/-- `dt.to_string(v)`: the bare string for strings and enum names, else `format_value(v, False)` -/
def toString : DType F → PVal F → Option Text
  | .string _ _ _, v =>
    match v with
    | .str s => some (.bare s)
    | _ => none                                    -- `to_string` returns whatever it got; not a text: unmodelled
  | .enum _, v =>
    match v with
    | .enum n _ => some (.bare n)
    | _ => none
  | .bool, v =>
    match v with
    | .bool b => some (.bare (lib.reprBool b))
    | _ => none
  | dt, v => (formatValue lib [] dt v).map .syn

def boolFalseWords : List String := ["0", "False", "false", "no", "off"]
def boolTrueWords : List String := ["1", "True", "true", "yes", "on"]

/-- `dt.from_string(text)` -/
def fromString : DType F → Text → Res F
  | .string minc maxc utf8, t =>
    match t with
    | .bare s => (stringCall minc maxc utf8 (.str s : PVal F)).map .str
    | .syn _ => .error (.other "unmodelled")      -- the printed literal taken as the string
  | .enum ms, t =>
    match t with
    | .bare s =>
      match enumByName ms s with                    -- the name as given (a member name may start or end with blanks)
      | some (n, v) => .ok (.enum n v)
      | none =>
        match enumByName ms (lib.strip s) with
        | some (n, v) => .ok (.enum n v)
        | none => .error .wrongType                 -- falls back to `literal_eval(text)`: unmodelled, almost always refused
    | .syn s =>
      match literalEval lib s with
      | some v => call (.enum ms) v
      | none => .error .wrongType
  | .bool, t =>
    match t with
    | .bare s =>
      if boolFalseWords.contains (lib.strip s) then .ok (.bool false)
      else if boolTrueWords.contains (lib.strip s) then .ok (.bool true)
      else .error .wrongType
    | .syn _ => .error (.other "unmodelled")
  | dt, t =>
    match t with
    | .syn s =>
      match literalEval lib s with
      | some v => call dt v
      | none => .error .wrongType
    | .bare _ => .error (.other "unmodelled")     -- arbitrary characters through `ast.literal_eval`

/-! ### the client -/

/-- a cache entry of the client, `CacheItem(value, timestamp, readerror, datatype)` (client/__init__.py 118-175); the
timestamp takes no part in the text forms.  The constructor overrides `to_string` / `format_value` with the datatype's
(`if datatype:` — a datatype object is always true) -/
structure CacheItem (F : Type) where
  value : PVal F
  /-- `repr` of the exception of an error update -/
  readerror : Option String

/-- `SecopClient.updateValue(module, param, value, timestamp, None)` (client/__init__.py 825-831): the entry made of
the data of an `update` / `changed` message — `datatype.import_value(value)` on the client's datatype -/
def updateValue (cdt : DType F) (j : JVal F) : Except Err (CacheItem F) :=
  match importValue cdt j with
  | .error e => .error e
  | .ok v => .ok ⟨v, none⟩

/-- `str(item)` (150-157): `repr(readerror)` of an error entry, else `datatype.to_string(value)` -/
def CacheItem.str (cdt : DType F) (item : CacheItem F) : Option Text :=
  match item.readerror with
  | some r => some (.bare r)
  | none => toString lib cdt item.value

/-- `str(CacheItem(value, timestamp, None, datatype))` = `datatype.to_string(value)` -/
def cacheItemStr (cdt : DType F) (v : PVal F) : Option Text := CacheItem.str lib cdt ⟨v, none⟩

/-- what `SecopClient.setParameter` (790-795) hands to `json.dumps` for the `change` request:
`datatype.export_value(value)` on the client's datatype -/
def clientSet (cdt : DType F) (v : PVal F) : Except Err (JVal F) := exportValue cdt v

/-- what `SecopClient.setParameterFromString` (797-806) hands to `json.dumps` for the `change` request:
`datatype.export_value(datatype.from_string(formatted))` on the client's datatype -/
def clientSetFromString (cdt : DType F) (t : Text) : Except Err (JVal F) :=
  match fromString lib cdt t with
  | .error e => .error e
  | .ok v => clientSet cdt v

/-- what `SecopClient.execCommand` (829-842) hands to `json.dumps` for the `do` request: `datatype.export_value(argument)`
on the argument type the client rebuilt from the command's description (`if datatype:` — a datatype object is always
true; a command without argument type is not a matter of values) -/
def clientExecArg (cdt : DType F) (v : PVal F) : Except Err (JVal F) := exportValue cdt v

/-- what `execCommand` returns for the data of the `done` reply: `datatype.import_value(data)` on the result type the
client rebuilt -/
def clientExecResult (cdt : DType F) (j : JVal F) : Except Err (PVal F) := importValue cdt j

/-- the node's side of a command that answers the argument it was given (`Command.do` 516-548: `import_value` of the
transported argument; `Dispatcher._execute_command` 139-155: `export_value` of the result), followed by the client's
`clientExecResult`: what `execCommand` returns for such a command -/
def echoCommand (dt cdt : DType F) (j : JVal F) : Except Err (PVal F) :=
  match importValue dt j with
  | .error e => .error e
  | .ok a =>
    match exportValue dt a with
    | .error e => .error e
    | .ok j' => clientExecResult cdt j'

end Frappy.Datatypes
