import FrappyModel.Datatypes.Datainfo
/-
C03 — `copy()` on an explicit object heap, to state that a copy shares no mutable state with the original
(in the pure model `copy : DInfo F → DInfo F` sharing is invisible).

Objects = the *mutable* Python objects a datatype consists of:
  `node`   a `DataType` instance (attributes: its `propertyValues` dict, the element type(s) / the `Enum` /
           the members dict and the `optional` list, the flag `client`)
  `props`  a `propertyValues` dict (`HasProperties.__init__`, `properties.py:117-120`) — `set_properties` writes here
  `enum`   an `Enum` (`set_name` writes its name; its `EnumMember`s belong to it)
  `names`  the `optional` list of a `StructOf`
  `table`  the `members` dict of a `StructOf` / the members tuple of a `TupleOf`
Immutable values (floats, ints, strings) are stored inside the objects.

`build t h` allocates the objects the constructors create for the tree `t` (always at the end of the heap);
`copyH` reads the tree at a reference and builds `copy` of it — every `copy()` of the source constructs new
instances only (`get_datatype(...)`, `EnumType(self._enum)` → `Enum(parent)`, `ArrayOf(self.members.copy(), …)`,
`TupleOf(*(m.copy() …))`, `StructOf(self.optional, **{k: v.copy() …})` with `list(optional)` in `__init__`).
-/
namespace Frappy.Datatypes.Heap
variable {F : Type}

abbrev Ref := Nat

/-- an immutable property value -/
inductive Prim (F : Type) where
  | f (x : F)
  | i (n : Int)
  | s (t : String)
  | b (v : Bool)

inductive Obj (F : Type) where
  | node (kind : String) (props : Ref) (parts : List Ref) (client : Bool)
  | props (vals : List (String × Prim F))
  | enum (name : String) (members : List (String × Int))
  | names (items : List String)
  | table (items : List (String × Ref))

def Obj.refs : Obj F → List Ref
  | .node _ p parts _ => p :: parts
  | .table items => items.map (·.2)
  | _ => []

def Obj.kind : Obj F → String
  | .node k _ _ _ => "datatype:" ++ k
  | .props _ => "propertyValues"
  | .enum _ _ => "Enum"
  | .names _ => "optional"
  | .table _ => "members"

/-- the heap: object `r` is `objs[r]`; allocation appends -/
structure Heap (F : Type) where
  objs : List (Obj F)

def Heap.size (h : Heap F) : Nat := h.objs.length

def Heap.get? (h : Heap F) (r : Ref) : Option (Obj F) := h.objs[r]?

def Heap.alloc (h : Heap F) (o : Obj F) : Heap F × Ref := (⟨h.objs ++ [o]⟩, h.objs.length)

/-- overwrite an object (a mutation: `set_properties`, `set_name`, `optional.append`, …) -/
def Heap.set (h : Heap F) (r : Ref) (o : Obj F) : Heap F := ⟨h.objs.set r o⟩

/-- `r'` is reachable from `r` through attribute / item references -/
inductive Reach (h : Heap F) : Ref → Ref → Prop where
  | refl (r : Ref) : Reach h r r
  | step {r r' r'' : Ref} {o : Obj F} : h.get? r = some o → r' ∈ o.refs → Reach h r' r'' → Reach h r r''

/-- references inside objects allocated below `n` stay below `n` (no pointers into the future) -/
def Closed (h : Heap F) : Prop := ∀ r o, h.get? r = some o → ∀ x ∈ o.refs, x < h.size

/-- the property values a node keeps in its `propertyValues` dict -/
def propsOf : DInfo F → List (String × Prim F)
  | .double mn mx ar rr u fmt => [("min", .f mn), ("max", .f mx), ("absolute_resolution", .f ar),
      ("relative_resolution", .f rr), ("unit", .s u), ("fmtstr", .s fmt)]
  | .int mn mx => [("min", .i mn), ("max", .i mx)]
  | .scaled s mn mx ar rr u fmt => [("scale", .f s), ("min", .f mn), ("max", .f mx), ("absolute_resolution", .f ar),
      ("relative_resolution", .f rr), ("unit", .s u), ("fmtstr", .s fmt)]
  | .string a b u => [("minchars", .i a), ("maxchars", .i b), ("isUTF8", .b u)]
  | .blob a b => [("minbytes", .i a), ("maxbytes", .i b)]
  | .array _ a b => [("minlen", .i a), ("maxlen", .i b)]
  | _ => []

mutual
/-- allocate the objects of a datatype tree; returns the reference of its root node -/
def build : DInfo F → Heap F → Heap F × Ref
  | .enum name ms, h =>
    let (h, p) := h.alloc (.props [])
    let (h, e) := h.alloc (.enum name ms)
    h.alloc (.node "enum" p [e] false)
  | .array elem a b, h =>
    let (h, p) := h.alloc (.props (propsOf (.array elem a b)))
    let (h, e) := build elem h
    h.alloc (.node "array" p [e] false)
  | .tuple es, h =>
    let (h, p) := h.alloc (.props [])
    let (h, rs) := buildList es h
    let (h, t) := h.alloc (.table (rs.map (fun r => ("", r))))
    h.alloc (.node "tuple" p [t] false)
  | .struct ms opt c, h =>
    let (h, p) := h.alloc (.props [])
    let (h, rs) := buildFields ms h
    let (h, t) := h.alloc (.table rs)
    let (h, o) := h.alloc (.names opt)
    h.alloc (.node "struct" p [t, o] c)
  | .double mn mx ar rr u fmt, h =>
    let (h, p) := h.alloc (.props (propsOf (.double mn mx ar rr u fmt)))
    h.alloc (.node "double" p [] false)
  | .int mn mx, h =>
    let (h, p) := h.alloc (.props (propsOf (.int mn mx)))
    h.alloc (.node "int" p [] false)
  | .scaled s mn mx ar rr u fmt, h =>
    let (h, p) := h.alloc (.props (propsOf (.scaled s mn mx ar rr u fmt)))
    h.alloc (.node "scaled" p [] false)
  | .bool, h =>
    let (h, p) := h.alloc (.props [])
    h.alloc (.node "bool" p [] false)
  | .string a b u, h =>
    let (h, p) := h.alloc (.props (propsOf (.string a b u)))
    h.alloc (.node "string" p [] false)
  | .blob a b, h =>
    let (h, p) := h.alloc (.props (propsOf (.blob a b)))
    h.alloc (.node "blob" p [] false)
def buildList : List (DInfo F) → Heap F → Heap F × List Ref
  | [], h => (h, [])
  | t :: ts, h =>
    let (h, r) := build t h
    let (h, rs) := buildList ts h
    (h, r :: rs)
def buildFields : List (String × DInfo F) → Heap F → Heap F × List (String × Ref)
  | [], h => (h, [])
  | (k, t) :: ts, h =>
    let (h, r) := build t h
    let (h, rs) := buildFields ts h
    (h, (k, r) :: rs)
end

/-! ### reading a tree back from the heap (fuel = depth bound) -/

def primF (vals : List (String × Prim F)) (k : String) : Option F :=
  match PVal.dictGet vals k with | some (.f x) => some x | _ => none
def primI (vals : List (String × Prim F)) (k : String) : Option Int :=
  match PVal.dictGet vals k with | some (.i x) => some x | _ => none
def primS (vals : List (String × Prim F)) (k : String) : Option String :=
  match PVal.dictGet vals k with | some (.s x) => some x | _ => none
def primB (vals : List (String × Prim F)) (k : String) : Option Bool :=
  match PVal.dictGet vals k with | some (.b x) => some x | _ => none

def propsAt (h : Heap F) (p : Ref) : List (String × Prim F) :=
  match h.get? p with
  | some (.props vals) => vals
  | _ => []

def allSome {α : Type} : List (Option α) → Option (List α)
  | [] => some []
  | some a :: rest => (allSome rest).map (a :: ·)
  | none :: _ => none

/-- the datatype tree whose root node is object `r` -/
def read (h : Heap F) : Nat → Ref → Option (DInfo F)
  | 0, _ => none
  | fuel + 1, r =>
    match h.get? r with
    | some (.node kind p parts client) =>
      let v := propsAt h p
      match kind, parts with
      | "double", [] => do
        return .double (← primF v "min") (← primF v "max") (← primF v "absolute_resolution") (← primF v "relative_resolution")
          (← primS v "unit") (← primS v "fmtstr")
      | "int", [] => do return .int (← primI v "min") (← primI v "max")
      | "scaled", [] => do
        return .scaled (← primF v "scale") (← primF v "min") (← primF v "max") (← primF v "absolute_resolution")
          (← primF v "relative_resolution") (← primS v "unit") (← primS v "fmtstr")
      | "bool", [] => some .bool
      | "string", [] => do return .string (← primI v "minchars").toNat (← primI v "maxchars").toNat (← primB v "isUTF8")
      | "blob", [] => do return .blob (← primI v "minbytes").toNat (← primI v "maxbytes").toNat
      | "enum", [e] =>
        match h.get? e with
        | some (.enum name ms) => some (.enum name ms)
        | _ => none
      | "array", [e] => do
        return .array (← read h fuel e) (← primI v "minlen").toNat (← primI v "maxlen").toNat
      | "tuple", [t] =>
        match h.get? t with
        | some (.table items) => (allSome (items.map (fun kr => read h fuel kr.2))).map .tuple
        | _ => none
      | "struct", [t, o] =>
        match h.get? t, h.get? o with
        | some (.table items), some (.names opt) =>
          (allSome (items.map (fun kr => (read h fuel kr.2).map (fun d => (kr.1, d))))).map (fun ms => .struct ms opt client)
        | _, _ => none
      | _, _ => none
    | _ => none

variable [FloatOps F]

/-- `dt.copy()` on the heap: the copy of the tree at `r` is built from new objects only; `none` when `r`
is not a datatype or `copy()` raises -/
def copyH (D : Consts F) (h : Heap F) (r : Ref) : Option (Heap F × Ref) :=
  match read h h.size r with
  | some t =>
    match copy D t with
    | .ok t' => some (build t' h)
    | .error _ => none
  | none => none

/-! ### executable reachability (for the driver) -/

/-- references reachable from `todo` within `fuel` rounds -/
def reachList (h : Heap F) : Nat → List Ref → List Ref → List Ref
  | 0, _, seen => seen
  | fuel + 1, todo, seen =>
    let new := todo.filter (fun r => !seen.contains r)
    if new.isEmpty then seen
    else
      let next := new.flatMap (fun r => match h.get? r with | some o => o.refs | none => [])
      reachList h fuel next (seen ++ new.eraseDups)

/-- kinds of the objects reachable both from a tree built on an empty heap and from its `copyH` -/
def sharedKinds (D : Consts F) (t : DInfo F) : List String :=
  let (h, r) := build t ⟨[]⟩
  match copyH D h r with
  | some (h', r') =>
    let a := reachList h' (h'.size + 1) [r] []
    let b := reachList h' (h'.size + 1) [r'] []
    (a.filter b.contains).filterMap (fun x => (h'.get? x).map Obj.kind)
  | none => []

end Frappy.Datatypes.Heap
