import FrappyModel.Datatypes.Variants
/-
C03 — the users of `compatible()`:

* `ProxyModule._check_descriptive_data` (`frappy/proxy.py:70-98`), the loop over the parameters: the datatype of every
  parameter of the proxy class against the datatype rebuilt from the description of the remote module, and which
  warning is logged;
* `Writable.__init__` (`frappy/modules.py:61-72`): `target` against `value`, and which error is raised.

The verdicts are those of `compatibleC` (any exception of `compatible()` counts as a refusal: `except Exception`).

`CommandType` (`datatypes.py:1128-1183`), the pseudo datatype of a command — argument and result, each a datatype or
`None` — with its `compatible` (argument checked towards `other`, result from `other`), and the loop over the commands
of the proxy check (`proxy.py:99-110`).
-/
namespace Frappy.Datatypes
variable {F : Type} [FloatOps F]

/-- the warnings of the parameter loop, by their format string -/
inductive ProxyWarning where
  | missing          -- 'remote parameter %s:%s does not exist'
  | readOnly         -- 'remote parameter %s:%s is read only'
  | notFully         -- 'remote parameter %s:%s is not fully compatible: %r != %r'
  | incompatible     -- 'remote parameter %s:%s has an incompatible datatype: %r != %r'
  deriving DecidableEq, Repr, Inhabited

def ProxyWarning.name : ProxyWarning → String
  | .missing => "missing" | .readOnly => "read-only" | .notFully => "not-fully" | .incompatible => "incompatible"

/-- the description of one remote parameter, as `SecopClient` holds it: the rebuilt datatype and `readonly` -/
structure RemoteParam (F : Type) where
  datatype : CType F
  readonly : Bool

def passes (r : Except Err Unit) : Bool :=
  match r with
  | .ok _ => true
  | .error _ => false

/-- one round of `while params:` (proxy.py:76-98) for the parameter `pname` of the proxy class -/
def proxyParam (pname : String) (exported readonly : Bool) (dt : CType F) (remote : Option (RemoteParam F)) :
    List ProxyWarning :=
  match remote with
  | none => if exported && pname != "status" then [.missing] else []
  | some r =>
    if readonly then
      if passes (compatibleC r.datatype dt) then [] else [.incompatible]
    else
      (if r.readonly then [.readOnly] else []) ++
      (if passes (compatibleC dt r.datatype) then
         (if passes (compatibleC r.datatype dt) then [] else [.notFully])
       else [.incompatible])

/-- outcome of the check in `Writable.__init__` -/
inductive WritableCheck where
  | ok
  | configError          -- 'the target range extends beyond the value range'
  | programmingError     -- 'the datatypes of target and value are not compatible'
  deriving DecidableEq, Repr, Inhabited

def WritableCheck.name : WritableCheck → String
  | .ok => "ok" | .configError => "ConfigError" | .programmingError => "ProgrammingError"

/-- `type(dt)`: the kind of the root plus the derived class -/
def CType.pyclass (a : CType F) : String := a.erase.kind ++ ":" ++ a.cls

/-- `target_dt.compatible(value_dt)`, else `ConfigError` when both are of the same class, `ProgrammingError` otherwise -/
def writableCheck (value target : CType F) : WritableCheck :=
  if passes (compatibleC target value) then .ok
  else if value.pyclass == target.pyclass then .configError else .programmingError

/-! ## commands -/

/-- `CommandType(argument, result)` -/
structure CmdType (F : Type) where
  argument : Option (CType F)
  result : Option (CType F)

/-- `x != y` of two attributes that are a datatype or `None`, then `x.compatible(y)`: datatypes define no `__eq__`,
two distinct objects are unequal, only `None != None` is false; `None.compatible` is an `AttributeError`,
`x.compatible(None)` a `WrongTypeError` (kind test), an `AttributeError` or a `TypeError` (`other(m)` of an enum) —
all turned into `WrongTypeError` (1176-1183, after `fix:` of `known_findings/C03.json`) -/
def compatOpt (x y : Option (CType F)) : Except Err Unit :=
  match x, y with
  | none, none => .ok ()
  | some a, some b => compatibleC a b
  | _, _ => .error .wrongType

/-- `CommandType.compatible`: the argument must fit the other command, the other command's result must fit here -/
def compatibleCmd (a b : CmdType F) : Except Err Unit :=
  match compatOpt a.argument b.argument with
  | .error e => .error e
  | .ok _ => compatOpt b.result a.result

/-- the command rebuilt from its description (`DATATYPES['command']`, 1405-1406) -/
def rebuildCmd (a : CmdType F) : CmdType F := { argument := a.argument.map rebuildC, result := a.result.map rebuildC }

inductive ProxyCmdWarning where
  | missing          -- 'remote command %s:%s does not exist'
  | notCompatible    -- 'remote command %s:%s is not compatible: %r != %r'
  deriving DecidableEq, Repr, Inhabited

def ProxyCmdWarning.name : ProxyCmdWarning → String
  | .missing => "missing" | .notCompatible => "not-compatible"

/-- one round of `while cmds:` (proxy.py:99-110) -/
def proxyCommand (dt : CmdType F) (remote : Option (CmdType F)) : List ProxyCmdWarning :=
  match remote with
  | none => [.missing]
  | some r => if passes (compatibleCmd dt r) then [] else [.notCompatible]

end Frappy.Datatypes
