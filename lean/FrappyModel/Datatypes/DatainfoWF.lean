import FrappyModel.Datatypes.Datainfo
import FrappyModel.Base.NumCompat
/-
C03 — hypotheses of the rebuild / copy theorems, written from what the constructors enforce and from the
quantifier of the property.

* `Consts.OK D`        the constants are what the source says: `0.0`, a finite non-negative default
                       resolution, a positive finite smallest scale
* `DInfo.WF D t`       what the constructors / `checkProperties` enforce on a tree built by them
                       (`DType.WF` of C01 for the validation-relevant part, plus: resolutions canonical,
                       `fmtstr` ASCII with a `%`, `unit` / `fmtstr` without NUL, enum members sorted by
                       value (`Enum.members`), lengths within the limits of their property datatypes,
                       the scale not below `sys.float_info.min`)
* `DInfo.Exportable t` "the ten SECoP kinds with grid-aligned scaled limits": every scaled limit is the
                       grid value of its own grid index (so that `round(min/scale)·scale = min`)
-/
namespace Frappy
open FloatOps DType

/-- the constants are the ones of the source -/
structure Consts.OK {F : Type} [FloatOps F] (D : Consts F) : Prop where
  zero_eq : (ofInt 0 : Option F) = some D.zero
  zero_canon : addZero D.zero = D.zero
  relRes_finite : isFinite D.relRes = true
  relRes_nonneg : nonneg D.relRes = true
  relRes_canon : addZero D.relRes = D.relRes
  relRes_le_one : resLeOne D.relRes = true
  minScale_finite : isFinite D.minScale = true
  minScale_pos : positive D.minScale = true

namespace DInfo
variable {F : Type} [FloatOps F]

def strOK (utf8 : Bool) (s : String) : Prop :=
  (utf8 = false → Datatypes.isAscii s = true) ∧ Datatypes.hasNul s = false ∧ (s.length : Int) ≤ DType.intLimit

/-- strictly increasing member values (`Enum.members` is sorted by value, values are distinct) -/
def sortedByValue : List (String × Int) → Prop
  | [] => True
  | [_] => True
  | a :: b :: rest => a.2 < b.2 ∧ sortedByValue (b :: rest)

mutual
def WF (D : Consts F) : DInfo F → Prop
  | .double mn mx ar rr unit fmt =>
      (DType.double mn mx ar rr).WF ∧ addZero ar = ar ∧ addZero rr = rr ∧
      strOK true unit ∧ strOK false fmt ∧ Datatypes.fmtOK fmt = true
  | .int mn mx => (DType.int (F := F) mn mx).WF
  | .scaled s mn mx ar rr unit fmt =>
      (DType.scaled s mn mx ar rr).WF ∧ addZero s = s ∧ addZero ar = ar ∧ addZero rr = rr ∧
      le D.minScale s = true ∧
      strOK true unit ∧ strOK false fmt ∧ Datatypes.fmtOK fmt = true
  | .bool => True
  | .enum _ ms => (DType.enum (F := F) ms).WF ∧ sortedByValue ms
  | .string a b _ => a ≤ b ∧ (b : Int) ≤ DType.intLimit
  | .blob a b => a ≤ b ∧ b ≤ 16777216
  | .array e a b => WF D e ∧ a ≤ b ∧ b ≤ 16777216
  | .tuple es => es ≠ [] ∧ WFList D es
  | .struct ms opt _ => ms ≠ [] ∧ (ms.map (·.1)).Nodup ∧ (∀ k ∈ opt, k ∈ ms.map (·.1)) ∧ WFFields D ms
def WFList (D : Consts F) : List (DInfo F) → Prop
  | [] => True
  | t :: ts => WF D t ∧ WFList D ts
def WFFields (D : Consts F) : List (String × DInfo F) → Prop
  | [] => True
  | (_, t) :: ts => WF D t ∧ WFFields D ts
end

/-- a limit is the grid value of its own grid index -/
def Aligned (scale x : F) : Prop := DType.snap scale x = some x

mutual
def Exportable : DInfo F → Prop
  | .scaled s mn mx _ _ _ _ => Aligned s mn ∧ Aligned s mx
  | .array e _ _ => Exportable e
  | .tuple es => ExportableList es
  | .struct ms _ _ => ExportableFields ms
  | _ => True
def ExportableList : List (DInfo F) → Prop
  | [] => True
  | t :: ts => Exportable t ∧ ExportableList ts
def ExportableFields : List (String × DInfo F) → Prop
  | [] => True
  | (_, t) :: ts => Exportable t ∧ ExportableFields ts
end

end DInfo
end Frappy

namespace Frappy.DInfo
variable {F : Type}

mutual
/-- a struct whose members are all optional lists them in member order (what `optional=None` gives; the
datainfo leaves `optional` out in that case, whatever its order) -/
def OptionalInOrder : DInfo F → Prop
  | .array e _ _ => OptionalInOrder e
  | .tuple es => OptionalInOrderList es
  | .struct ms opt _ =>
      (Datatypes.optionalDiffers (ms.map (·.1)) opt = false → opt = ms.map (·.1)) ∧ OptionalInOrderFields ms
  | _ => True
def OptionalInOrderList : List (DInfo F) → Prop
  | [] => True
  | t :: ts => OptionalInOrder t ∧ OptionalInOrderList ts
def OptionalInOrderFields : List (String × DInfo F) → Prop
  | [] => True
  | (_, t) :: ts => OptionalInOrder t ∧ OptionalInOrderFields ts
end

end Frappy.DInfo

/-! ## limits that are not grid aligned: what the round trip through the description does to them -/

namespace Frappy.DInfo
open FloatOps
variable {F : Type} [FloatOps F]

/-- Boolean test of `Aligned` (bit equality) — run by the monitors to see whether a tree is in the quantifier -/
def alignedB (scale x : F) : Bool :=
  match DType.snap scale x with
  | some y => same y x
  | none => false

mutual
def exportableB : DInfo F → Bool
  | .scaled s mn mx _ _ _ _ => alignedB s mn && alignedB s mx
  | .array e _ _ => exportableB e
  | .tuple es => exportableListB es
  | .struct ms _ _ => exportableFieldsB ms
  | _ => true
def exportableListB : List (DInfo F) → Bool
  | [] => true
  | t :: ts => exportableB t && exportableListB ts
def exportableFieldsB : List (String × DInfo F) → Bool
  | [] => true
  | (_, t) :: ts => exportableB t && exportableFieldsB ts
end

mutual
/-- the tree with every scaled limit moved to the grid value of its grid index
(`int(round(limit / scale)) * scale`: what the description stands for); `none` where a grid index or a finite
grid value does not exist (`export_datatype` raises `OverflowError` / the constructor refuses the limit) -/
def snapLimits : DInfo F → Option (DInfo F)
  | .scaled s mn mx ar rr u f =>
    match DType.snap s mn, DType.snap s mx with
    | some mn', some mx' => if isFinite mn' && isFinite mx' then some (.scaled s mn' mx' ar rr u f) else none
    | _, _ => none
  | .array e a b =>
    match snapLimits e with
    | some e' => some (.array e' a b)
    | none => none
  | .tuple es =>
    match snapLimitsList es with
    | some es' => some (.tuple es')
    | none => none
  | .struct ms opt c =>
    match snapLimitsFields ms with
    | some ms' => some (.struct ms' opt c)
    | none => none
  | .double mn mx ar rr u f => some (.double mn mx ar rr u f)
  | .int mn mx => some (.int mn mx)
  | .bool => some .bool
  | .enum n ms => some (.enum n ms)
  | .string a b u => some (.string a b u)
  | .blob a b => some (.blob a b)
def snapLimitsList : List (DInfo F) → Option (List (DInfo F))
  | [] => some []
  | t :: ts =>
    match snapLimits t, snapLimitsList ts with
    | some t', some ts' => some (t' :: ts')
    | _, _ => none
def snapLimitsFields : List (String × DInfo F) → Option (List (String × DInfo F))
  | [] => some []
  | (k, t) :: ts =>
    match snapLimits t, snapLimitsFields ts with
    | some t', some ts' => some ((k, t') :: ts')
    | _, _ => none
end

end Frappy.DInfo
