import FrappyModel.Datatypes.Validate
import FrappyModel.Base.Base64
/-
Model of `import_value` (wire → internal representation) of every datatype and of what the
dispatcher does with a `change` request (`protocol/dispatcher.py:163-165`):
`value = datatype.import_value(value); value = datatype.validate(value, previous=pobj.value)`.

Transcribed (after the `fix:` commits): DataType.import_value 119-125 (`self(value)`: double, int,
bool, enum, string) · ScaledInteger 468-473 · BLOBType 600-605 · ArrayOf 844-846 · TupleOf 934-936 ·
StructOf 1044-1048.  `import_value` of the containers has no `try`: errors of the elements leave
unchanged.
-/
namespace Frappy.Datatypes
open FloatOps
variable {F : Type} [FloatOps F]

/-- `ScaledInteger.import_value`: integers, booleans and whole-number floats only (as `IntRange.__call__`),
then `self.scale * intval` -/
def scaledImport (scale : F) (j : JVal F) : Except Err F :=
  match (intCall (PVal.ofJVal j) : Except Err Int) with
  | .error e => .error e
  | .ok k =>
    match (ofInt k : Option F) with
    | none => .error .wrongType                 -- not reached: `value + 0.0` converted the same integer
    | some y => .ok (mul scale y)

/-- `BLOBType.import_value`: a `str` holding strict base64 -/
def blobImport : JVal F → Except Err (List UInt8)
  | .str s =>
    match Base64.decode? s with
    | some b => .ok b
    | none => .error .wrongType
  | _ => .error .wrongType

/-- `tuple(self.members.import_value(elem) for elem in value)` -/
def mapImport (f : JVal F → Res F) : List (JVal F) → Except Err (List (PVal F))
  | [] => .ok []
  | j :: js =>
    match f j with
    | .error e => .error e
    | .ok r =>
      match mapImport f js with
      | .error e => .error e
      | .ok rs => .ok (r :: rs)

/-- `{str(k): self.members[k].import_value(v) for k, v in value.items()}` -/
def foldImport (f : String → JVal F → Option (Res F)) :
    List (String × JVal F) → List (String × PVal F) → Except Err (List (String × PVal F))
  | [], acc => .ok acc
  | (k, j) :: rest, acc =>
    match f k j with
    | none => .error (.other "KeyError")
    | some (.error e) => .error e
    | some (.ok r) => foldImport f rest (PVal.dictSet acc k r)

mutual
def importValue : DType F → JVal F → Res F
  | .scaled scale _ _ _ _, j => (scaledImport scale j).map .float
  | .blob _ _, j => (blobImport j).map .bytes
  | .array elem minlen maxlen, j =>
    match j with
    | .arr items =>
      if items.length < minlen then .error .range
      else if items.length > maxlen then .error .range
      else (mapImport (importValue elem) items).map .tuple
    | _ => .error .wrongType
  | .tuple elems, j =>
    match j with
    | .arr items =>
      if items.length ≠ elems.length then .error .wrongType
      else (importTuple elems items).map .tuple
    | _ => .error .wrongType
  | .struct members optional _, j =>
    match j with
    | .obj fields =>
      if structCheck (members.map (·.1)) optional true (PVal.ofJVal.ofJFields fields) then
        (foldImport (importMember members) fields []).map .dict
      else .error .wrongType
    | _ => .error .wrongType
  | .double min max ar rr, j => call (.double min max ar rr) (PVal.ofJVal j)
  | .int min max, j => call (.int min max) (PVal.ofJVal j)
  | .bool, j => call .bool (PVal.ofJVal j)
  | .enum ms, j => call (.enum ms) (PVal.ofJVal j)
  | .string minc maxc utf8, j => call (.string minc maxc utf8) (PVal.ofJVal j)
/-- `tuple(sub.import_value(elem) for sub, elem in zip(self.members, value))` -/
def importTuple : List (DType F) → List (JVal F) → Except Err (List (PVal F))
  | [], _ => .ok []
  | _ :: _, [] => .ok []
  | t :: ts, j :: js =>
    match importValue t j with
    | .error e => .error e
    | .ok r =>
      match importTuple ts js with
      | .error e => .error e
      | .ok rs => .ok (r :: rs)
/-- `self.members[k].import_value(v)`; `none` = `KeyError` -/
def importMember : List (String × DType F) → String → JVal F → Option (Res F)
  | [], _, _ => none
  | (k, t) :: rest, key, j => if k = key then some (importValue t j) else importMember rest key j
end

/-- what the dispatcher does with the data part of a `change` request -/
def acceptWire (dt : DType F) (j : JVal F) (prev : Option (PVal F)) : Res F :=
  match importValue dt j with
  | .error e => .error e
  | .ok v => validate dt v prev

/-- what a `change` request does with its data for a plain parameter (no `write_` method, no check function):
`_setParameterValue` (dispatcher.py:171-176) imports the value and validates it against the value held, the
write wrapper (modulebase.py:185-203) validates the result once more, without `previous`; the outcome is stored
(`announceUpdate(..., validate=False)`) and reported -/
def changeValue (dt : DType F) (j : JVal F) (held : PVal F) : Res F :=
  match acceptWire dt j (some held) with
  | .error e => .error e
  | .ok r => validate dt r none

/-- what can happen to the value a parameter holds: a driver update (`announceUpdate(pname, value)`, which converts
with `datatype(value)` and keeps the old value when that raises, modulebase.py:556-565) or a `change` request -/
inductive ParamEvent (F : Type) where
  | update (v : PVal F)
  | change (j : JVal F)

def holdStep (dt : DType F) (held : PVal F) : ParamEvent F → PVal F
  | .update v =>
    match call dt v with
    | .ok r => r
    | .error _ => held
  | .change j =>
    match changeValue dt j held with
    | .ok r => r
    | .error _ => held

/-- the value held after a history of updates and change requests -/
def holdRun (dt : DType F) (held : PVal F) (evs : List (ParamEvent F)) : PVal F := evs.foldl (holdStep dt) held

/-! ### `Command.do` (params.py:522-551): the glue around the argument and the result of a command

    if self.argument:
        if argument is None: raise WrongTypeError(needs an argument)
        argument = self.argument.import_value(argument); argument = self.argument.validate(argument)
        res = func(argument)            # func(*argument) for a tuple, func(**argument) for a struct
    else:
        if argument is not None: raise WrongTypeError(takes no arguments)
        res = func()
    if self.result:
        return self.result(res)
    return None

The command function is the driver: a function parameter (what it returns for the argument it is called with). -/

/-- `self.result(res)` if a result type is declared; otherwise the return value is ignored -/
def commandResult (resT : Option (DType F)) (res : PVal F) : Res F :=
  match resT with
  | some dt => call dt res
  | none => .ok .none

/-- the data of a `do` request: JSON `null` is "no argument" (`argument is None`) -/
def dataArg : Option (JVal F) → Option (JVal F)
  | some .null => none
  | a => a

def commandDo (argT resT : Option (DType F)) (func : Option (PVal F) → PVal F) (data : Option (JVal F)) : Res F :=
  match argT, dataArg data with
  | some _, none => .error .wrongType
  | some adt, some j =>
    match acceptWire adt j none with
    | .error e => .error e
    | .ok a => commandResult resT (func (some a))
  | none, some _ => .error .wrongType
  | none, none => commandResult resT (func none)

end Frappy.Datatypes
