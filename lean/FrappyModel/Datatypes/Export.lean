import FrappyModel.Datatypes.Import
/-
Model of `export_value` (internal representation → what `json.dumps` gets) of every datatype of
`frappy/datatypes.py`, of the composite `get_datatype(json.loads(json.dumps(dt.export_datatype())))`
as far as values can see it (`clientOf`), and of base64 encoding.

Transcribed (after the `fix:` commits of `known_findings/C02.json`):
  FloatRange 282-284 `float(value)` · IntRange 356-358 `int(value)` · ScaledInteger 472-474
  `int(round(value / self.scale))` · EnumType 533-535 `int(self(value))` · BLOBType 611-613
  `b64encode(value).decode('ascii')` · StringType 684-686 `f'{value}'` · BoolType 751-753 `self(value)` ·
  ArrayOf 861-864 · TupleOf 955-958 · StructOf 1065-1069 (`check_type(value, True)`: a value that
  validation returned may lack optional members) · DATATYPES / get_datatype 1355-1413.

`export_value` is documented for values of the type; what it does with other kinds is modelled where
the Python is short (numbers for numbers), otherwise answered `Err.other "unmodelled"` (e.g.
`float('1.5')`, `f'{5}'`): the correspondence run offers valid values only.
`export_value` of the containers has no `try`: errors of the elements leave unchanged.
-/
namespace Frappy.Base64

def alphabet : List Char :=
  "ABCDEFGHIJKLMNOPQRSTUVWXYZabcdefghijklmnopqrstuvwxyz0123456789+/".toList

/-- the character of a sextet (`n < 64`) -/
def sextetChar (n : Nat) : Char := alphabet.getD n 'A'

/-- `base64.b64encode` (RFC 4648, with padding) -/
def encodeChars : List UInt8 → List Char
  | [] => []
  | [a] =>
    [sextetChar (a.toNat / 4), sextetChar ((a.toNat % 4) * 16), '=', '=']
  | [a, b] =>
    [sextetChar (a.toNat / 4), sextetChar ((a.toNat % 4) * 16 + b.toNat / 16), sextetChar ((b.toNat % 16) * 4), '=']
  | a :: b :: c :: rest =>
    sextetChar (a.toNat / 4) :: sextetChar ((a.toNat % 4) * 16 + b.toNat / 16) ::
      sextetChar ((b.toNat % 16) * 4 + c.toNat / 64) :: sextetChar (c.toNat % 64) :: encodeChars rest

def encode (b : List UInt8) : String := String.ofList (encodeChars b)

end Frappy.Base64

namespace Frappy.Datatypes
open FloatOps
variable {F : Type} [FloatOps F]

/-- the float a Python number is under `float(value)` / `value / scale` (no `+ 0.0`: `float(-0.0)` is `-0.0`) -/
def floatOf : PVal F → Except Err F
  | .bool b =>
    match (ofBool b : Option F) with
    | some y => .ok y
    | none => .error (.other "OverflowError")
  | .int i =>
    match (ofInt i : Option F) with
    | some y => .ok y
    | none => .error (.other "OverflowError")
  | .float x => .ok x
  | _ => .error (.other "unmodelled")

/-- `FloatRange.export_value`: `float(value)` -/
def doubleExport (v : PVal F) : Except Err (JVal F) := (floatOf v).map .num

/-- `IntRange.export_value`: `int(value)` -/
def intExport : PVal F → Except Err (JVal F)
  | .bool b => .ok (.int (if b then 1 else 0))
  | .int i => .ok (.int i)
  | .enum _ v => .ok (.int v)
  | .float x =>
    match trunc x with
    | some t => .ok (.int t)
    | none => .error (.other "ValueError")
  | _ => .error (.other "unmodelled")

/-- `ScaledInteger.export_value`: `int(round(value / self.scale))` -/
def scaledExport (scale : F) (v : PVal F) : Except Err (JVal F) :=
  match floatOf v with
  | .error e => .error e
  | .ok x =>
    match DType.gridIndex scale x with
    | some k => .ok (.int k)
    | none => .error (.other "ValueError")

/-- `EnumType.export_value`: `int(self(value))` -/
def enumExport (ms : List (String × Int)) (v : PVal F) : Except Err (JVal F) :=
  match enumCall ms v with
  | .ok (.enum _ k) => .ok (.int k)
  | .ok _ => .error (.other "unmodelled")        -- not reached: `enumCall` answers members only
  | .error e => .error e

/-- `BoolType.export_value`: `self(value)` -/
def boolExport (v : PVal F) : Except Err (JVal F) := (boolCall v).map .bool

/-- `StringType.export_value`: `f'{value}'` -/
def stringExport : PVal F → Except Err (JVal F)
  | .str s => .ok (.str s)
  | _ => .error (.other "unmodelled")

/-- `BLOBType.export_value`: `b64encode(value).decode('ascii')` -/
def blobExport : PVal F → Except Err (JVal F)
  | .bytes b => .ok (.str (Base64.encode b))
  | _ => .error (.other "TypeError")

/-- `[self.members.export_value(elem) for elem in value]` -/
def mapExport (f : PVal F → Except Err (JVal F)) : List (PVal F) → Except Err (List (JVal F))
  | [] => .ok []
  | v :: vs =>
    match f v with
    | .error e => .error e
    | .ok j =>
      match mapExport f vs with
      | .error e => .error e
      | .ok js => .ok (j :: js)

/-- `dict((str(k), self.members[k].export_value(v)) for k, v in value.items())`; `f k v = none` is the `KeyError` -/
def mapFieldsExport (f : String → PVal F → Option (Except Err (JVal F))) :
    List (String × PVal F) → Except Err (List (String × JVal F))
  | [] => .ok []
  | (k, v) :: rest =>
    match f k v with
    | none => .error (.other "KeyError")
    | some (.error e) => .error e
    | some (.ok j) =>
      match mapFieldsExport f rest with
      | .error e => .error e
      | .ok js => .ok ((k, j) :: js)

mutual
/-- `dt.export_value(v)` -/
def exportValue : DType F → PVal F → Except Err (JVal F)
  | .double _ _ _ _, v => doubleExport v
  | .int _ _, v => intExport v
  | .scaled scale _ _ _ _, v => scaledExport scale v
  | .bool, v => boolExport v
  | .enum ms, v => enumExport ms v
  | .string _ _ _, v => stringExport v
  | .blob _ _, v => blobExport v
  | .array elem minlen maxlen, v =>
    match PVal.seqItems? v with
    | none => .error .wrongType
    | some vs =>
      if vs.length < minlen then .error .range
      else if vs.length > maxlen then .error .range
      else (mapExport (exportValue elem) vs).map .arr
  | .tuple elems, v =>
    match PVal.seqItems? v with
    | none => .error .wrongType
    | some vs =>
      if vs.length ≠ elems.length then .error .wrongType
      else (exportTuple elems vs).map .arr
  | .struct members optional _, v =>
    match v with
    | .dict items =>
      if structCheck (members.map (·.1)) optional true items then
        (mapFieldsExport (exportMember members) items).map .obj
      else .error .wrongType
    | _ => .error .wrongType
/-- `[sub.export_value(elem) for sub, elem in zip(self.members, value)]` -/
def exportTuple : List (DType F) → List (PVal F) → Except Err (List (JVal F))
  | [], _ => .ok []
  | _ :: _, [] => .ok []
  | t :: ts, v :: vs =>
    match exportValue t v with
    | .error e => .error e
    | .ok j =>
      match exportTuple ts vs with
      | .error e => .error e
      | .ok js => .ok (j :: js)
/-- `self.members[k].export_value(v)`; `none` = `KeyError` -/
def exportMember : List (String × DType F) → String → PVal F → Option (Except Err (JVal F))
  | [], _, _ => none
  | (k, t) :: rest, key, v => if k = key then some (exportValue t v) else exportMember rest key v
end

/-! ### the datatype a client rebuilds from the description

`get_datatype(json.loads(json.dumps(dt.export_datatype())))`, restricted to what this model of a
datatype holds: the limits of a scaled type travel as grid indices and come back as
`index * scale` (1364-1365), every rebuilt node gets `client = True` (1408-1409); lengths, members,
optional lists and the limits of doubles/ints travel unchanged.  `none`: a limit of a scaled type has
no grid index (not reachable for well-formed trees: the limits are finite). -/

def clientScaled (scale min max ar rr : F) : Option (DType F) :=
  match DType.gridIndex scale min, DType.gridIndex scale max with
  | some kmin, some kmax =>
    match (ofInt kmin : Option F), (ofInt kmax : Option F) with
    | some a, some b => some (.scaled scale (mul a scale) (mul b scale) ar rr)
    | _, _ => none
  | _, _ => none

mutual
def clientOf : DType F → Option (DType F)
  | .scaled scale min max ar rr => clientScaled scale min max ar rr
  | .array elem minlen maxlen =>
    match clientOf elem with
    | some e => some (.array e minlen maxlen)
    | none => none
  | .tuple elems =>
    match clientOfList elems with
    | some es => some (.tuple es)
    | none => none
  | .struct members optional _ =>
    match clientOfFields members with
    | some ms => some (.struct ms optional true)
    | none => none
  | .double min max ar rr => some (.double min max ar rr)
  | .int min max => some (.int min max)
  | .bool => some .bool
  | .enum ms => some (.enum ms)
  | .string minc maxc utf8 => some (.string minc maxc utf8)
  | .blob minb maxb => some (.blob minb maxb)
def clientOfList : List (DType F) → Option (List (DType F))
  | [] => some []
  | t :: ts =>
    match clientOf t, clientOfList ts with
    | some c, some cs => some (c :: cs)
    | _, _ => none
def clientOfFields : List (String × DType F) → Option (List (String × DType F))
  | [] => some []
  | (k, t) :: ts =>
    match clientOf t, clientOfFields ts with
    | some c, some cs => some ((k, c) :: cs)
    | _, _ => none
end

end Frappy.Datatypes
