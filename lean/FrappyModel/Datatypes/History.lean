import FrappyModel.Datatypes.DatainfoWF
/-
C03 — histories on ONE datatype object: the description is asked for, the object is changed, the description is asked
for again.

A datatype object is mutable after its construction (`frappy/datatypes.py`):
  set_main_unit    HasUnit 214-217 (`'$'` in the unit replaced: `setProperty('unit', …)` WITHOUT `checkProperties`) ·
                   DataType 177-178 (nothing) · ArrayOf 916-917 · TupleOf 999-1001 · StructOf 1133-1135 (all members)
  set_properties   DataType 145-152: `setProperty(k, v)` for every item, then `checkProperties()`; any exception becomes
                   a `ProgrammingError` (the properties set before the failure STAY set: the history ends there)
  setProperty      HasProperties (`properties.py:189-193`): the value is validated by the datatype of the `Property` ·
                   ArrayOf 832-837: a key which is not a property of the array goes to `self.members.setProperty`
                   (so `minlen` / `maxlen` of an array of arrays always mean the outer one)
  checkProperties  HasProperties (`properties.py:200-215`): mandatory properties validated, `min… <= max…` ·
                   FloatRange 242-246 / ScaledInteger 416-423: `'%' in fmtstr` · ArrayOf 820-823: `members.checkProperties()` first

None of the `export_datatype` methods keeps state: the description is a function of the properties the object holds
NOW.  In the model this is by construction (`exportDatatype` takes the tree); `run` threads the tree through the steps and
records every description on the way, the harness runs the same steps on one real object.

Not modelled: `scale` of a `ScaledInteger` (its `setProperty` override), `set_name` of an enum (not exported), derived
classes (`LimitsType(m)` holds the SAME member object twice), floats given to integer properties (integers, booleans
and strings given to float properties are: `PropVal.asNum`).
-/
namespace Frappy.Datatypes
open FloatOps
variable {F : Type} [FloatOps F]

/-- a value given to `setProperty` -/
inductive PropVal (F : Type) where
  | num (x : F)
  | int (i : Int)
  | str (s : String)
  | bool (b : Bool)

/-- what `set_properties` raises -/
def progErr : Err := .other "ProgrammingError"

/-- `str.replace('$', unit)` on the characters (structural: the kernel can run it) -/
def substChars (unit : List Char) : List Char → List Char
  | [] => []
  | c :: cs => if c = '$' then unit ++ substChars unit cs else c :: substChars unit cs

/-- `self.unit.replace('$', unit)` when `'$' in self.unit` -/
def substUnit (unit u : String) : String :=
  if u.toList.contains '$' then String.ofList (substChars unit.toList u.toList) else u

mutual
/-- `dt.set_main_unit(unit)` -/
def setMainUnit (unit : String) : DInfo F → DInfo F
  | .double mn mx ar rr u f => .double mn mx ar rr (substUnit unit u) f
  | .scaled s mn mx ar rr u f => .scaled s mn mx ar rr (substUnit unit u) f
  | .array e a b => .array (setMainUnit unit e) a b
  | .tuple es => .tuple (setMainUnitList unit es)
  | .struct ms opt c => .struct (setMainUnitFields unit ms) opt c
  | t => t
def setMainUnitList (unit : String) : List (DInfo F) → List (DInfo F)
  | [] => []
  | t :: ts => setMainUnit unit t :: setMainUnitList unit ts
def setMainUnitFields (unit : String) : List (String × DInfo F) → List (String × DInfo F)
  | [] => []
  | (k, t) :: ts => (k, setMainUnit unit t) :: setMainUnitFields unit ts
end

/-- a length property (`IntRange(0)` / `IntRange(0, UNLIMITED)`) -/
def lenVal (limit : Int) (i : Int) : Except Err Nat :=
  if 0 ≤ i ∧ i ≤ limit then .ok i.toNat else .error progErr

/-- a float property (`FloatRange()`, resolutions `FloatRange(0)`) -/
def numVal (nonNegative : Bool) (x : F) : Except Err F :=
  if isFinite x && (!nonNegative || DType.nonneg x) then .ok (addZero x) else .error progErr

/-- what the datatype of a float property (`FloatRange`) makes of the value given: `value += 0.0` turns integers and
booleans into floats, strings are refused -/
def PropVal.asNum : PropVal F → Option F
  | .num x => some x
  | .int i => ofInt i
  | .bool b => ofInt (if b then 1 else 0)
  | .str _ => none

/-- a float property given any value -/
def numProp (nonNegative : Bool) (v : PropVal F) : Except Err F :=
  match v.asNum with
  | some x => numVal nonNegative x
  | none => .error progErr

/-- `node.setProperty(key, value)` (validated by the datatype of the property; an array hands foreign keys to its members) -/
def setProp : DInfo F → String → PropVal F → Except Err (DInfo F)
  | .double _ mx ar rr u f, "min", x => do return .double (← numProp false x) mx ar rr u f
  | .double mn _ ar rr u f, "max", x => do return .double mn (← numProp false x) ar rr u f
  | .double mn mx _ rr u f, "absolute_resolution", x => do return .double mn mx (← numProp true x) rr u f
  | .double mn mx ar _ u f, "relative_resolution", x => do return .double mn mx ar (← numProp true x) u f
  | .double mn mx ar rr _ f, "unit", .str s => .ok (.double mn mx ar rr s f)
  | .double mn mx ar rr u _, "fmtstr", .str s => .ok (.double mn mx ar rr u s)
  | .int _ mx, "min", .int i => if -DType.intLimit ≤ i ∧ i ≤ DType.intLimit then .ok (.int i mx) else .error progErr
  | .int mn _, "max", .int i => if -DType.intLimit ≤ i ∧ i ≤ DType.intLimit then .ok (.int mn i) else .error progErr
  | .scaled s _ mx ar rr u f, "min", x => do return .scaled s (← numProp false x) mx ar rr u f
  | .scaled s mn _ ar rr u f, "max", x => do return .scaled s mn (← numProp false x) ar rr u f
  | .scaled s mn mx _ rr u f, "absolute_resolution", x => do return .scaled s mn mx (← numProp true x) rr u f
  | .scaled s mn mx ar _ u f, "relative_resolution", x => do return .scaled s mn mx ar (← numProp true x) u f
  | .scaled s mn mx ar rr _ f, "unit", .str x => .ok (.scaled s mn mx ar rr x f)
  | .scaled s mn mx ar rr u _, "fmtstr", .str x => .ok (.scaled s mn mx ar rr u x)
  | .string _ b u, "minchars", .int i => do return .string (← lenVal DType.intLimit i) b u
  | .string a _ u, "maxchars", .int i => do return .string a (← lenVal DType.intLimit i) u
  | .string a b _, "isUTF8", .bool x => .ok (.string a b x)
  | .blob _ b, "minbytes", .int i => do return .blob (← lenVal 16777216 i) b
  | .blob a _, "maxbytes", .int i => do return .blob a (← lenVal 16777216 i)
  | .array e _ b, "minlen", .int i => do return .array e (← lenVal 16777216 i) b
  | .array e a _, "maxlen", .int i => do return .array e a (← lenVal 16777216 i)
  | .array e a b, key, v =>
    if key == "minlen" || key == "maxlen" then .error progErr      -- own property, value of another kind
    else do return .array (← setProp e key v) a b
  | _, _, _ => .error progErr

/-- `node.checkProperties()`: limits ordered, `'%'` in the format string; an array checks its members first -/
def checkProps : DInfo F → Bool
  | .double mn mx _ _ _ f => le mn mx && fmtOK f
  | .int mn mx => decide (mn ≤ mx)
  | .scaled _ mn mx _ _ _ f => le mn mx && fmtOK f
  | .string a b _ => decide (a ≤ b)
  | .blob a b => decide (a ≤ b)
  | .array e a b => checkProps e && decide (a ≤ b)
  | _ => true

/-- `node.set_properties(**props)` -/
def setProps (t : DInfo F) : List (String × PropVal F) → Except Err (DInfo F)
  | [] => if checkProps t then .ok t else .error progErr
  | (k, v) :: rest =>
    match setProp t k v with
    | .ok t' => setProps t' rest
    | .error e => .error e

def setNth {α : Type} : List α → Nat → α → List α
  | [], _, _ => []
  | _ :: xs, 0, y => y :: xs
  | x :: xs, n + 1, y => x :: setNth xs n y

/-- the member at `path` (array: `0`; tuple, struct: position) -/
def nodeAt : List Nat → DInfo F → Option (DInfo F)
  | [], t => some t
  | i :: p, .array e _ _ => if i = 0 then nodeAt p e else none
  | i :: p, .tuple es => match es[i]? with
    | some e => nodeAt p e
    | none => none
  | i :: p, .struct ms _ _ => match ms[i]? with
    | some (_, e) => nodeAt p e
    | none => none
  | _ :: _, _ => none

/-- the tree with the member at `path` changed by `f` (the member object itself is mutated: every container above
sees it) -/
def modifyAt (f : DInfo F → Except Err (DInfo F)) : List Nat → DInfo F → Except Err (DInfo F)
  | [], t => f t
  | i :: p, .array e a b => if i = 0 then do return .array (← modifyAt f p e) a b else .error (.other "IndexError")
  | i :: p, .tuple es => match es[i]? with
    | some e => do return .tuple (setNth es i (← modifyAt f p e))
    | none => .error (.other "IndexError")
  | i :: p, .struct ms opt c => match ms[i]? with
    | some (k, e) => do return .struct (setNth ms i (k, ← modifyAt f p e)) opt c
    | none => .error (.other "IndexError")
  | _ :: _, _ => .error (.other "IndexError")

/-- one step of a history on a datatype object -/
inductive Step (F : Type) where
  | export (path : List Nat)                                      -- `node.export_datatype()`
  | mainUnit (path : List Nat) (unit : String)                    -- `node.set_main_unit(unit)`
  | setProps (path : List Nat) (props : List (String × PropVal F))  -- `node.set_properties(**props)`

/-- the object after the step, and the description the step returned (if it asked for one) -/
def step (D : Consts F) (t : DInfo F) : Step F → Except Err (DInfo F × Option (Except Err (JVal F)))
  | .export path =>
    match nodeAt path t with
    | some n => .ok (t, some (exportDatatype D n))
    | none => .error (.other "IndexError")
  | .mainUnit path unit => do return (← modifyAt (fun n => .ok (setMainUnit unit n)) path t, none)
  | .setProps path props => do return (← modifyAt (fun n => setProps n props) path t, none)

/-- a history: the object at the end and every description returned on the way -/
def run (D : Consts F) : DInfo F → List (Step F) → Except Err (DInfo F × List (Except Err (JVal F)))
  | t, [] => .ok (t, [])
  | t, s :: rest =>
    match step D t s with
    | .error e => .error e
    | .ok (t1, out) =>
      match run D t1 rest with
      | .error e => .error e
      | .ok (t2, outs) => .ok (t2, out.toList ++ outs)

end Frappy.Datatypes
