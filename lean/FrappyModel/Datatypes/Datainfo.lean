import FrappyModel.Datatypes.Validate
/-
C03 — datainfo of a datatype, rebuilding a datatype from its datainfo, copying.

`DInfo F` is a datatype tree carrying *every* property that `export_datatype()` writes — the
validation-relevant ones of `DType F` plus `unit`, `fmtstr` (numeric leaves) and the enum name (kept by
`copy`, not exported).  `DInfo.erase : DInfo F → DType F` forgets them; `validate`/`importValue` of the
tree are those of its erasure.

Transcribed from `frappy/datatypes.py` (after the `fix:` commits of `known_findings/C03.json`):
  export_datatype  FloatRange 243-244 · IntRange 318-319 · ScaledInteger 419-434 (`exportProperties`
                   override 419-425) · EnumType 511-512 · BLOBType 577-578 · StringType 640-641 ·
                   BoolType 714-715 · ArrayOf 801-803 · TupleOf 896-897 · StructOf 1015-1020
  exportProperties `properties.py:174-187`: a property is written when its value differs (`!=`) from the
                   default of its `Property` object
  get_datatype     1384-1408 with the table `DATATYPES` 1345-1381 (`**kwds` = must-ignore of unknown keys);
                   constructors: FloatRange 229-240 · IntRange 309-316 · ScaledInteger 394-417 ·
                   BLOBType 566-575 · StringType 628-638 · ArrayOf 763-774 · TupleOf 881-890 ·
                   EnumType 496-505 (`lib/enum.py:251-311`) · StructOf 992-1009;
                   every exception inside becomes a `WrongTypeError` (1407-1408)
  copy             DataType 158-162 (through the datainfo) · EnumType 507-509 · ArrayOf 779-781 ·
                   TupleOf 892-894 · StructOf 1011-1013

Not modelled (the harness does not generate them): `scale` / enum values given as strings (`float("0.5")`,
"value is the name of another member"), enum members given as a list of pairs, `CommandType`, `LimitsType`.
-/
namespace Frappy

/-- a datatype tree with all exported properties -/
inductive DInfo (F : Type) where
  | double (min max absRes relRes : F) (unit fmtstr : String)
  | int (min max : Int)
  | scaled (scale min max absRes relRes : F) (unit fmtstr : String)
  | bool
  | enum (name : String) (members : List (String × Int))
  | string (minchars maxchars : Nat) (utf8 : Bool)
  | blob (minbytes maxbytes : Nat)
  | array (elem : DInfo F) (minlen maxlen : Nat)
  | tuple (elems : List (DInfo F))
  | struct (members : List (String × DInfo F)) (optional : List String) (client : Bool)
  deriving Inhabited

/-- constants of the carrier the source refers to: `0.0`, the default `relative_resolution` `1.2e-7`,
`sys.float_info.min` (lower limit and default of the `scale` property) -/
structure Consts (F : Type) where
  zero : F
  relRes : F
  minScale : F

namespace DInfo
variable {F : Type}

mutual
/-- forget what does not take part in validation -/
def erase : DInfo F → DType F
  | .double mn mx ar rr _ _ => .double mn mx ar rr
  | .int mn mx => .int mn mx
  | .scaled s mn mx ar rr _ _ => .scaled s mn mx ar rr
  | .bool => .bool
  | .enum _ ms => .enum ms
  | .string a b u => .string a b u
  | .blob a b => .blob a b
  | .array e a b => .array (erase e) a b
  | .tuple es => .tuple (eraseList es)
  | .struct ms opt c => .struct (eraseFields ms) opt c
def eraseList : List (DInfo F) → List (DType F)
  | [] => []
  | t :: ts => erase t :: eraseList ts
def eraseFields : List (String × DInfo F) → List (String × DType F)
  | [] => []
  | (k, t) :: ts => (k, erase t) :: eraseFields ts
end

mutual
/-- what a rebuild through the datainfo changes on purpose: the enum name is not exported
(`pname` = `''`), every struct is marked `client` (1405) -/
def asClient : DInfo F → DInfo F
  | .enum _ ms => .enum "" ms
  | .array e a b => .array (asClient e) a b
  | .tuple es => .tuple (asClientList es)
  | .struct ms opt _ => .struct (asClientFields ms) opt true
  | t => t
def asClientList : List (DInfo F) → List (DInfo F)
  | [] => []
  | t :: ts => asClient t :: asClientList ts
def asClientFields : List (String × DInfo F) → List (String × DInfo F)
  | [] => []
  | (k, t) :: ts => (k, asClient t) :: asClientFields ts
end

end DInfo

namespace Datatypes
open FloatOps
open PVal (dictGet ofJVal)
variable {F : Type} [FloatOps F]

/-! ## export_datatype -/

/-- one item of `exportProperties`: written only when the value differs from the default -/
def optField {α : Type} (differs : Bool) (k : String) (v : α) : List (String × α) :=
  if differs then [(k, v)] else []

/-- `ScaledInteger.exportProperties` (419-425): `0` for a zero resolution, nothing when it equals the scale -/
def scaledAbsResField (D : Consts F) (scale ar : F) : List (String × JVal F) :=
  if feq ar D.zero then [("absolute_resolution", .int 0)]
  else if feq ar scale then []
  else [("absolute_resolution", .num ar)]

/-- `set(self.optional) != set(self.members)` -/
def optionalDiffers (names optional : List String) : Bool :=
  !(names.all optional.contains && optional.all names.contains)

mutual
/-- `dt.export_datatype()`; `.other "OverflowError"` where `int(round(self.min / self.scale))` raises -/
def exportDatatype (D : Consts F) : DInfo F → Except Err (JVal F)
  | .double mn mx ar rr unit fmt => .ok (.obj (
      optField (unit != "") "unit" (.str unit) ++
      optField (!feq mn (neg maxFinite)) "min" (.num mn) ++
      optField (!feq mx maxFinite) "max" (.num mx) ++
      optField (fmt != "%g") "fmtstr" (.str fmt) ++
      optField (!feq ar D.zero) "absolute_resolution" (.num ar) ++
      optField (!feq rr D.relRes) "relative_resolution" (.num rr) ++
      [("type", .str "double")]))
  | .int mn mx => .ok (.obj [("min", .int mn), ("max", .int mx), ("type", .str "int")])
  | .scaled s mn mx ar rr unit fmt =>
    match DType.gridIndex s mn, DType.gridIndex s mx with
    | some kmin, some kmax => .ok (.obj (
        optField (unit != "") "unit" (.str unit) ++
        [("scale", .num s)] ++
        optField (fmt != "%g") "fmtstr" (.str fmt) ++
        optField (!feq rr D.relRes) "relative_resolution" (.num rr) ++
        scaledAbsResField D s ar ++
        [("type", .str "scaled"), ("min", .int kmin), ("max", .int kmax)]))
    | _, _ => .error (.other "OverflowError")
  | .bool => .ok (.obj [("type", .str "bool")])
  | .enum _ ms => .ok (.obj [("type", .str "enum"), ("members", .obj (ms.map (fun m => (m.1, .int m.2))))])
  | .string a b u => .ok (.obj (
      optField (a != 0) "minchars" (.int a) ++
      optField ((b : Int) != DType.intLimit) "maxchars" (.int b) ++
      optField u "isUTF8" (.bool u) ++
      [("type", .str "string")]))
  | .blob a b => .ok (.obj (
      optField (a != 0) "minbytes" (.int a) ++ [("maxbytes", .int b), ("type", .str "blob")]))
  | .array e a b =>
    match exportDatatype D e with
    | .ok j => .ok (.obj [("type", .str "array"), ("minlen", .int a), ("maxlen", .int b), ("members", j)])
    | .error x => .error x
  | .tuple es =>
    match exportList D es with
    | .ok js => .ok (.obj [("type", .str "tuple"), ("members", .arr js)])
    | .error x => .error x
  | .struct ms opt _ =>
    match exportFields D ms with
    | .ok js => .ok (.obj ([("type", .str "struct"), ("members", .obj js)] ++
        optField (optionalDiffers (ms.map (·.1)) opt) "optional" (.arr (opt.map .str))))
    | .error x => .error x
def exportList (D : Consts F) : List (DInfo F) → Except Err (List (JVal F))
  | [] => .ok []
  | t :: ts =>
    match exportDatatype D t with
    | .error x => .error x
    | .ok j =>
      match exportList D ts with
      | .error x => .error x
      | .ok js => .ok (j :: js)
def exportFields (D : Consts F) : List (String × DInfo F) → Except Err (List (String × JVal F))
  | [] => .ok []
  | (k, t) :: ts =>
    match exportDatatype D t with
    | .error x => .error x
    | .ok j =>
      match exportFields D ts with
      | .error x => .error x
      | .ok js => .ok ((k, j) :: js)
end

/-! ## get_datatype -/

/-- keyword argument `k` of the `DATATYPES` lambda: `none` = not given; JSON `null` is Python `None` -/
def arg (fields : List (String × JVal F)) (k : String) : Option (PVal F) := (dictGet fields k).map ofJVal

/-- `x if x is not None else d` / a lambda default -/
def orDefault (a : Option (PVal F)) (d : PVal F) : PVal F :=
  match a with
  | none => d
  | some .none => d
  | some v => v

/-- a property of type `FloatRange(lo, hi)` (default resolutions) -/
def propDouble (D : Consts F) (lo hi : F) (v : PVal F) : Except Err F := doubleValidate lo hi D.zero D.relRes v

/-- a property of type `IntRange(lo, hi)`, as a natural number -/
def propNat (lo hi : Int) (v : PVal F) : Except Err Nat :=
  match intValidate (F := F) lo hi v with
  | .ok i => .ok i.toNat
  | .error e => .error e

def propStr (utf8 : Bool) (v : PVal F) : Except Err String := stringCall 0 DType.intLimit.toNat utf8 v

/-- `float(x)` of a JSON number (strings are not modelled) -/
def pyFloat : PVal F → Option F
  | .bool b => ofBool b
  | .int i => ofInt i
  | .float x => some x
  | _ => none

def intLike? : PVal F → Option Int
  | .bool b => some (if b then 1 else 0)
  | .int i => some i
  | _ => none

/-- `a * b` of two JSON numbers -/
def pyMul (a b : PVal F) : Option (PVal F) :=
  match intLike? a, intLike? b with
  | some i, some j => some (.int (i * j))
  | _, _ =>
    match pyFloat a, pyFloat b with
    | some x, some y => some (.float (mul x y))
    | _, _ => none

/-- a keyword argument that is only set when given (`**floatargs(kwds)`): `d` when absent -/
def kwProp {α : Type} (a : Option (PVal F)) (d : α) (f : PVal F → Except Err α) : Except Err α :=
  match a with
  | none => .ok d
  | some v => f v

def fmtOK (s : String) : Bool := s.toList.contains '%'

/-- `FloatRange(min=min, max=max, **floatargs(kwds))` -/
def mkDouble (D : Consts F) (fields : List (String × JVal F)) : Except Err (DInfo F) := do
  let mn ← propDouble D (neg maxFinite) maxFinite (orDefault (arg fields "min") (.float (neg maxFinite)))
  let mx ← propDouble D (neg maxFinite) maxFinite (orDefault (arg fields "max") (.float maxFinite))
  let unit ← kwProp (arg fields "unit") "" (propStr true)
  let fmt ← kwProp (arg fields "fmtstr") "%g" (propStr false)
  let ar ← kwProp (arg fields "absolute_resolution") D.zero (propDouble D D.zero maxFinite)
  let rr ← kwProp (arg fields "relative_resolution") D.relRes (propDouble D D.zero maxFinite)
  if le mn mx && fmtOK fmt then .ok (.double mn mx ar rr unit fmt) else .error .wrongType

/-- `IntRange(min=min, max=max)`; both keys are required by the lambda -/
def mkInt (fields : List (String × JVal F)) : Except Err (DInfo F) :=
  match arg fields "min", arg fields "max" with
  | some a, some b => do
    let mn ← intValidate (F := F) (-DType.intLimit) DType.intLimit (orDefault a (.int (-16777216)))
    let mx ← intValidate (F := F) (-DType.intLimit) DType.intLimit (orDefault b (.int 16777216))
    if mn ≤ mx then .ok (.int mn mx) else .error .wrongType
  | _, _ => .error .wrongType

/-- `ScaledInteger(scale=scale, min=min*scale, max=max*scale, **floatargs(kwds))` -/
def mkScaled (D : Consts F) (fields : List (String × JVal F)) : Except Err (DInfo F) :=
  match arg fields "scale", arg fields "min", arg fields "max" with
  | some s, some a, some b =>
    match pyFloat s, (pyMul a s).bind pyFloat, (pyMul b s).bind pyFloat with
    | some sf, some af, some bf => do
      let scale ← propDouble D D.minScale maxFinite (.float sf)
      let mn ← propDouble D (neg maxFinite) maxFinite (.float af)
      let mx ← propDouble D (neg maxFinite) maxFinite (.float bf)
      let ar ← propDouble D D.zero maxFinite (orDefault (arg fields "absolute_resolution") (.float sf))
      let unit ← kwProp (arg fields "unit") "" (propStr true)
      let fmt ← kwProp (arg fields "fmtstr") "%g" (propStr false)
      let rr ← kwProp (arg fields "relative_resolution") D.relRes (propDouble D D.zero maxFinite)
      if le mn mx && fmtOK fmt then .ok (.scaled scale mn mx ar rr unit fmt) else .error .wrongType
    | _, _, _ => .error .wrongType
  | _, _, _ => .error .wrongType

/-- `minlen or 100` / `minbytes or 255` / `minchars or UNLIMITED`: Python truthiness of the raw argument -/
def orIfFalsy (v d : PVal F) : PVal F := if PVal.truthy v then v else d

/-- `BLOBType(minbytes=minbytes, maxbytes=maxbytes)`; lengths are `IntRange(0)` = `[0, 2^24]` -/
def mkBlob (fields : List (String × JVal F)) : Except Err (DInfo F) :=
  match arg fields "maxbytes" with
  | some mx =>
    let mnRaw := match arg fields "minbytes" with | none => PVal.int 0 | some v => v
    let mxRaw := match mx with | .none => orIfFalsy mnRaw (.int 255) | v => v
    do
      let a ← propNat (F := F) 0 16777216 mnRaw
      let b ← propNat (F := F) 0 16777216 mxRaw
      if a ≤ b then .ok (.blob a b) else .error .wrongType
  | none => .error .wrongType

/-- `StringType(minchars=minchars, maxchars=maxchars, isUTF8=isUTF8)`; the lambda defaults are
`minchars=0, maxchars=UNLIMITED, isUTF8=False` -/
def mkString (fields : List (String × JVal F)) : Except Err (DInfo F) :=
  let mnRaw := match arg fields "minchars" with | none => PVal.int 0 | some v => v
  let mxRaw' := match arg fields "maxchars" with
    | none => PVal.int DType.intLimit
    | some .none => orIfFalsy mnRaw (.int DType.intLimit)      -- `StringType(n, None)`: exactly `n` characters
    | some v => v
  let uRaw := match arg fields "isUTF8" with | none => PVal.bool false | some v => v
  do
    let a ← propNat (F := F) 0 DType.intLimit mnRaw
    let b ← propNat (F := F) 0 DType.intLimit mxRaw'
    let u ← boolCall uRaw
    if a ≤ b then .ok (.string a b u) else .error .wrongType

/-- `ArrayOf(get_datatype(members), minlen=minlen, maxlen=maxlen)` -/
def mkArray (fields : List (String × JVal F)) (elem : Option (Except Err (DInfo F))) : Except Err (DInfo F) :=
  match arg fields "maxlen", elem with
  | some mx, some (.ok e) =>
    let mnRaw := match arg fields "minlen" with | none => PVal.int 0 | some v => v
    let mxRaw := match mx with | .none => orIfFalsy mnRaw (.int 100) | v => v
    do
      let a ← propNat (F := F) 0 16777216 mnRaw
      let b ← propNat (F := F) 0 16777216 mxRaw
      if a ≤ b then .ok (.array e a b) else .error .wrongType
  | _, _ => .error .wrongType

def allOk {α : Type} : List (Except Err α) → Except Err (List α)
  | [] => .ok []
  | .ok a :: rest =>
    match allOk rest with
    | .ok as => .ok (a :: as)
    | .error e => .error e
  | .error e :: _ => .error e

def allOkFields {α : Type} : List (String × Except Err α) → Except Err (List (String × α))
  | [] => .ok []
  | (k, .ok a) :: rest =>
    match allOkFields rest with
    | .ok as => .ok ((k, a) :: as)
    | .error e => .error e
  | (_, .error e) :: _ => .error e

/-- `TupleOf(*(get_datatype(t) for t in members))`; `members` must be a JSON array -/
def mkTuple (members : Option (JVal F × List (Except Err (DInfo F)))) : Except Err (DInfo F) :=
  match members with
  | some (.arr _, items) =>
    match allOk items with
    | .ok [] => .error .wrongType                        -- 'Empty tuples are not allowed!'
    | .ok es => .ok (.tuple es)
    | .error e => .error e
  | _ => .error .wrongType

/-- `Enum.members` is sorted by value (`lib/enum.py:309`) -/
def insertByValue (m : String × Int) : List (String × Int) → List (String × Int)
  | [] => [m]
  | x :: xs => if m.2 < x.2 then m :: x :: xs else x :: insertByValue m xs

def sortByValue : List (String × Int) → List (String × Int)
  | [] => []
  | m :: ms => insertByValue m (sortByValue ms)

def enumMembers : List (String × JVal F) → Option (List (String × Int))
  | [] => some []
  | (k, .int v) :: rest => (enumMembers rest).map ((k, v) :: ·)
  | _ => none

/-- `EnumType(pname, members=members)`: a JSON object of integers with distinct values, not empty
(names of a JSON object are distinct already) -/
def mkEnum (members : Option (JVal F)) : Except Err (DInfo F) :=
  match members with
  | some (.obj items) =>
    match enumMembers items with
    | some ms =>
      if !ms.isEmpty && DType.nodupB (ms.map (·.2)) && DType.nodupB (ms.map (·.1)) then .ok (.enum "" (sortByValue ms))
      else .error .wrongType
    | none => .error .wrongType
  | _ => .error .wrongType

def strItems : List (JVal F) → Option (List String)
  | [] => some []
  | .str s :: rest => (strItems rest).map (s :: ·)
  | _ => none

/-- `StructOf(optional, **{n: get_datatype(t) for n, t in members.items()})` -/
def mkStruct (fields : List (String × JVal F)) (members : Option (JVal F × List (String × Except Err (DInfo F)))) :
    Except Err (DInfo F) :=
  match members with
  | some (.obj _, items) =>
    match allOkFields items with
    | .ok [] => .error .wrongType                        -- 'Empty structs are not allowed!'
    | .ok ms =>
      let names := ms.map (·.1)
      match dictGet fields "optional" with
      | none => .ok (.struct ms names true)
      | some .null => .ok (.struct ms names true)
      | some (.arr opt) =>
        match strItems opt with
        | some o => if o.all names.contains then .ok (.struct ms o true) else .error .wrongType
        | none => .error .wrongType
      | some _ => .error .wrongType
    | .error e => .error e
  | _ => .error .wrongType

/-- what the recursion hands up for a JSON value: its own conversion as a datainfo, as the keyword
arguments of the old syntax `[base, kwargs]`, and the conversions of its array items / object members -/
structure Conv (F : Type) where
  self : Except Err (DInfo F)
  asKwargs : String → Except Err (DInfo F)
  items : List (Except Err (DInfo F))
  fields : List (String × Except Err (DInfo F))

def subOf (fields : List (String × JVal F)) (sub : List (String × Conv F)) (k : String) : Option (JVal F × Conv F) :=
  match dictGet fields k, dictGet sub k with
  | some j, some c => some (j, c)
  | _, _ => none

/-- `DATATYPES[base](pname=pname, **kwargs)` (a key `pname` collides with the explicit argument) -/
def buildNode (D : Consts F) (base : String) (fields : List (String × JVal F)) (sub : List (String × Conv F)) :
    Except Err (DInfo F) :=
  if (dictGet fields "pname").isSome then .error .wrongType
  else
    let r : Except Err (DInfo F) :=
      match base with
      | "bool" => .ok .bool
      | "int" => mkInt fields
      | "scaled" => mkScaled D fields
      | "double" => mkDouble D fields
      | "blob" => mkBlob fields
      | "string" => mkString fields
      | "array" => mkArray fields ((subOf fields sub "members").map (·.2.self))
      | "tuple" => mkTuple ((subOf fields sub "members").map (fun jc => (jc.1, jc.2.items)))
      | "enum" => mkEnum (dictGet fields "members")
      | "struct" => mkStruct fields ((subOf fields sub "members").map (fun jc => (jc.1, jc.2.fields)))
      | _ => .error .wrongType
    match r with
    | .ok t => .ok t
    | .error _ => .error .wrongType

mutual
def dconv (D : Consts F) : JVal F → Conv F
  | .obj fields =>
    let sub := convFields D fields
    { self := match dictGet fields "type" with
        | some (.str base) => buildNode D base fields sub
        | _ => .error .wrongType
      asKwargs := fun base => buildNode D base fields sub
      items := []
      fields := sub.map (fun kc => (kc.1, kc.2.self)) }
  | .arr items =>
    let cs := convList D items
    { self := match items, cs with
        | [.str base, _], [_, kw] => kw.asKwargs base
        | _, _ => .error .wrongType
      asKwargs := fun _ => .error .wrongType
      items := cs.map (·.self)
      fields := [] }
  | _ => { self := .error .wrongType, asKwargs := fun _ => .error .wrongType, items := [], fields := [] }
def convList (D : Consts F) : List (JVal F) → List (Conv F)
  | [] => []
  | j :: js => dconv D j :: convList D js
def convFields (D : Consts F) : List (String × JVal F) → List (String × Conv F)
  | [] => []
  | (k, j) :: js => (k, dconv D j) :: convFields D js
end

/-- `get_datatype(json)` for `json` not `None` -/
def getDatatype (D : Consts F) (j : JVal F) : Except Err (DInfo F) := (dconv D j).self

/-! ## copy -/

/-- `DataType.copy`: `get_datatype(self.export_datatype())` — only used on leaves -/
def viaDatainfo (D : Consts F) (t : DInfo F) : Except Err (DInfo F) :=
  match exportDatatype D t with
  | .ok j => getDatatype D j
  | .error x => .error x

mutual
/-- `dt.copy()` -/
def copy (D : Consts F) : DInfo F → Except Err (DInfo F)
  | .enum name ms => .ok (.enum name ms)
  | .array e a b =>
    match copy D e with
    | .ok e' => .ok (.array e' a b)
    | .error x => .error x
  | .tuple es =>
    match copyList D es with
    | .ok es' => .ok (.tuple es')
    | .error x => .error x
  | .struct ms opt c =>
    match copyFields D ms with
    | .ok ms' => .ok (.struct ms' opt c)
    | .error x => .error x
  | .double mn mx ar rr u f => viaDatainfo D (.double mn mx ar rr u f)
  | .int mn mx => viaDatainfo D (.int mn mx)
  | .scaled s mn mx ar rr u f => viaDatainfo D (.scaled s mn mx ar rr u f)
  | .bool => viaDatainfo D .bool
  | .string a b u => viaDatainfo D (.string a b u)
  | .blob a b => viaDatainfo D (.blob a b)
def copyList (D : Consts F) : List (DInfo F) → Except Err (List (DInfo F))
  | [] => .ok []
  | t :: ts =>
    match copy D t with
    | .error x => .error x
    | .ok t' =>
      match copyList D ts with
      | .error x => .error x
      | .ok ts' => .ok (t' :: ts')
def copyFields (D : Consts F) : List (String × DInfo F) → Except Err (List (String × DInfo F))
  | [] => .ok []
  | (k, t) :: ts =>
    match copy D t with
    | .error x => .error x
    | .ok t' =>
      match copyFields D ts with
      | .error x => .error x
      | .ok ts' => .ok ((k, t') :: ts')
end

end Datatypes
end Frappy
