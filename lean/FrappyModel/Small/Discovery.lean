/-
Model of `frappy/protocol/discovery.py` (class `UDPListener`), after the repairs listed in
`known_findings/C19.json`.

Strings are lists of characters (`str`: code points), byte strings are lists of numbers `< 256`.
Constants of the source (`MAX_MESSAGE_LEN`, the `recvfrom` size, the text around the fields of a
message, the `except` clause) come in through `Tables`; the driver and the theorems instantiate it
with `FrappyModel/Generated/C19.lean`.

    def __init__(self, equipment_id, description, ifaces, logger, *, startup_broadcast=True):
        self.equipment_id = equipment_id
        self.firmware = 'FRAPPY ' + get_version()
        self.ports = [int(iface.split('://')[1]) for iface in ifaces if iface.startswith('tcp')]
        self.is_enabled = True
        ...
        # (discovery.py:36-72, after the repair)
        self.description = ''
        ...
        available = MAX_MESSAGE_LEN - len(self._getMessage(2**16-1))
        if available < 0:
            self.log.warn(...)
            self.is_enabled = False
        else:
            for char in description or '':
                available -= len(json.dumps(char, ensure_ascii=False).encode('utf-8')) - 2
                if available < 0:
                    self.log.debug('truncating description for udp discovery')
                    break
                self.description += char

    def _getMessage(self, port):
        return json.dumps({'SECoP': 'node', 'port': port, 'equipment_id': self.equipment_id,
                           'firmware': self.firmware, 'description': self.description,
                           }, ensure_ascii=False, separators=(',', ':')).encode('utf-8')

    def run(self):
        if not self.is_enabled:
            return
        if self.startup_broadcast:
            for port in self.ports:
                self.sock.sendto(self._getMessage(port), ('255.255.255.255', UDP_PORT))
        self.running = True
        while self.running and self.is_enabled:
            try:
                msg, addr = self.sock.recvfrom(1024)
            except socket.error:
                return
            try:
                request = json.loads(msg.decode('utf-8'))
            except ValueError:     # UnicodeDecodeError, JSONDecodeError
                continue
            if not isinstance(request, dict) or request.get('SECoP') != 'discover':
                continue
            for port in self.ports:
                self.sock.sendto(self._getMessage(port), addr)
-/
namespace Frappy.Discovery

abbrev Str := List Char
abbrev Bytes := List Nat

/-! ## `str.encode('utf-8')` -/

/-- UTF-8 encoding of one code point -/
def utf8Char (c : Char) : Bytes :=
  if c.toNat < 0x80 then [c.toNat]
  else if c.toNat < 0x800 then [0xC0 + c.toNat / 64, 0x80 + c.toNat % 64]
  else if c.toNat < 0x10000 then [0xE0 + c.toNat / 4096, 0x80 + c.toNat / 64 % 64, 0x80 + c.toNat % 64]
  else [0xF0 + c.toNat / 262144, 0x80 + c.toNat / 4096 % 64, 0x80 + c.toNat / 64 % 64, 0x80 + c.toNat % 64]

def utf8 (s : Str) : Bytes := s.flatMap utf8Char

/-! ## `json.dumps(…, ensure_ascii=False)` of a string and of a non-negative `int` -/

def hexDigit (n : Nat) : Char := if n < 10 then Char.ofNat (48 + n) else Char.ofNat (87 + n)

/-- `json.encoder.ESCAPE_DCT` restricted to what `ESCAPE = [\x00-\x1f\\"\b\f\n\r\t]` matches:
quote, backslash, the five short escapes, `\u00XX` for the other control characters; everything
else (DEL and all non-ASCII characters included) is copied. -/
def escapeChar (c : Char) : Str :=
  if c = '"' then ['\\', '"']
  else if c = '\\' then ['\\', '\\']
  else if c = '\n' then ['\\', 'n']
  else if c = '\r' then ['\\', 'r']
  else if c = '\t' then ['\\', 't']
  else if c = Char.ofNat 8 then ['\\', 'b']
  else if c = Char.ofNat 12 then ['\\', 'f']
  else if c.toNat < 0x20 then ['\\', 'u', '0', '0', hexDigit (c.toNat / 16), hexDigit (c.toNat % 16)]
  else [c]

def escape (s : Str) : Str := s.flatMap escapeChar

def jsonStr (s : Str) : Str := '"' :: (escape s ++ ['"'])

/-- decimal digits of `n`, most significant first; `fuel` bounds the number of digits -/
def decimalFuel : Nat → Nat → Str
  | 0, _ => []
  | f + 1, n => if n < 10 then [Char.ofNat (48 + n)] else decimalFuel f (n / 10) ++ [Char.ofNat (48 + n % 10)]

/-- `json.dumps(n)` for `n ≥ 0` -/
def decimal (n : Nat) : Str := decimalFuel (n + 1) n

/-! ## constants of the source -/

/-- exception classes that `json.loads(msg.decode('utf-8'))` is known to raise, plus a catch-all -/
inductive Exc where
  | unicodeDecodeError | jsonDecodeError | valueError | recursionError | typeError | other
  | osError        -- raised by `sendto` (a sender that can not be answered, e.g. source port 0)
deriving DecidableEq, Repr

structure Tables where
  maxLen : Nat                 -- MAX_MESSAGE_LEN
  recvBuf : Nat                -- recvfrom(1024)
  budgetPort : Nat             -- 2**16-1
  fwPrefix : Str               -- 'FRAPPY '
  seg0 : Str                   -- {"SECoP":"node","port":
  seg1 : Str                   -- ,"equipment_id":
  seg2 : Str                   -- ,"firmware":
  seg3 : Str                   -- ,"description":
  seg4 : Str                   -- }
  catches : Exc → Bool         -- the `except` clause around the decoding
  catchesSend : Bool           -- the answer sends are inside `try … except OSError` (going on with the loop)

/-! ## `_getMessage` -/

def messageText (t : Tables) (id fw desc : Str) (port : Nat) : Str :=
  t.seg0 ++ (decimal port ++ (t.seg1 ++ (jsonStr id ++ (t.seg2 ++ (jsonStr fw ++ (t.seg3 ++ (jsonStr desc ++ t.seg4)))))))

def message (t : Tables) (id fw desc : Str) (port : Nat) : Bytes :=
  utf8 (messageText t id fw desc port)

/-! ## `__init__` -/

/-- an entry of the server's interface table: `<scheme>://<port>` -/
structure Iface where
  scheme : Str
  port : Nat
deriving DecidableEq, Repr

/-- `iface.startswith('tcp')` (the text after the scheme starts with `://`, so the test only sees the scheme) -/
def isTcp (i : Iface) : Bool := ['t', 'c', 'p'].isPrefixOf i.scheme

/-- `[int(iface.split('://')[1]) for iface in ifaces if iface.startswith('tcp')]` -/
def portsOf (ifaces : List Iface) : List Nat := (ifaces.filter isTcp).map (·.port)

/-- `len(json.dumps(char, ensure_ascii=False).encode('utf-8')) - 2` -/
def escLen (c : Char) : Nat := (utf8 (escapeChar c)).length

/-- the `for char in description` loop: `avail` bytes are left -/
def fit : Nat → Str → Str
  | _, [] => []
  | avail, c :: cs => if escLen c ≤ avail then c :: fit (avail - escLen c) cs else []

structure Listener where
  id : Str
  fw : Str
  desc : Str
  ports : List Nat
  enabled : Bool
deriving DecidableEq, Repr

/-- length of the message with an empty description and the widest port number -/
def baseLen (t : Tables) (id fw : Str) : Nat := (message t id fw [] t.budgetPort).length

/-- `UDPListener(equipment_id, description, ifaces, …)`; `description` may be `None` -/
def construct (t : Tables) (id version : Str) (description : Option Str) (ifaces : List Iface) : Listener :=
  if t.maxLen < baseLen t id (t.fwPrefix ++ version) then
    { id := id, fw := t.fwPrefix ++ version, desc := [], ports := portsOf ifaces, enabled := false }
  else
    { id := id, fw := t.fwPrefix ++ version,
      desc := fit (t.maxLen - baseLen t id (t.fwPrefix ++ version)) (description.getD []),
      ports := portsOf ifaces, enabled := true }

/-! ## `run` -/

/-- a value of a member of a received JSON object: a string, or anything else -/
inductive Member where
  | str (s : Str)
  | other
deriving DecidableEq, Repr

/-- what `json.loads` returned, as far as the responder looks at it; `obj` is a `dict` (items in
insertion order, keys distinct) -/
inductive JTop where
  | null | bool | num | str | arr
  | obj (items : List (Str × Member))
deriving DecidableEq, Repr

inductive Dest (α : Type) where
  | broadcast              -- ('255.255.255.255', UDP_PORT)
  | peer (a : α)
deriving DecidableEq, Repr

structure Send (α : Type) where
  payload : Bytes
  dest : Dest α
deriving DecidableEq, Repr

/-- what one received datagram leads to -/
inductive Outcome (α : Type) where
  | answered (sends : List (Send α))
  | ignored
  | unanswerable            -- a request whose sender can not be answered: `sendto` raised, the loop goes on
  | died (e : Exc)          -- an exception leaves `run`: the thread ends
deriving DecidableEq, Repr

def discoverWord : Str := ['d', 'i', 's', 'c', 'o', 'v', 'e', 'r']
def secopKey : Str := ['S', 'E', 'C', 'o', 'P']

/-- `dict.get(key)` -/
def dictGet (key : Str) : List (Str × Member) → Option Member
  | [] => none
  | (k, v) :: rest => if k = key then some v else dictGet key rest

/-- `isinstance(request, dict) and request.get('SECoP') == 'discover'` -/
def isDiscover : JTop → Bool
  | .obj items => dictGet secopKey items == some (.str discoverWord)
  | _ => false

/-- `for port in self.ports: self.sock.sendto(self._getMessage(port), dest)` -/
def sendAll (t : Tables) (L : Listener) (dest : Dest α) : List (Send α) :=
  L.ports.map (fun p => { payload := message t L.id L.fw L.desc p, dest := dest })

/-- the answer to a request from `addr`; `sendOk addr = false`: `sendto(…, addr)` raises OSError (a datagram
with source port 0 cannot be answered).  All messages of a batch go to the same address, so the first send fails. -/
def answer (t : Tables) (L : Listener) (sendOk : α → Bool) (addr : α) : Outcome α :=
  if sendOk addr then .answered (sendAll t L (.peer addr))
  else if t.catchesSend then .unanswerable else .died .osError

/-- the `try … except` around `json.loads(msg.decode('utf-8'))` and the filter after it -/
def afterDecode (t : Tables) (L : Listener) (sendOk : α → Bool) (addr : α) : Except Exc JTop → Outcome α
  | .error e => if t.catches e then .ignored else .died e
  | .ok v => if isDiscover v then answer t L sendOk addr else .ignored

/-- one pass of the loop body for a datagram `dg` from `addr`; `decode` stands for
`json.loads(· .decode('utf-8'))` -/
def handleDatagram (t : Tables) (L : Listener) (decode : Bytes → Except Exc JTop) (sendOk : α → Bool) (dg : Bytes)
    (addr : α) : Outcome α :=
  afterDecode t L sendOk addr (decode (dg.take t.recvBuf))

/-- what `recvfrom` does next -/
inductive Event (α : Type) where
  | datagram (dg : Bytes) (addr : α)
  | closed                   -- `socket.error` (the socket was shut down)

/-- the `while` loop: one outcome per datagram, until the socket is closed or the thread dies -/
def loop (t : Tables) (L : Listener) (decode : Bytes → Except Exc JTop) (sendOk : α → Bool) :
    List (Event α) → List (Outcome α)
  | [] => []
  | .closed :: _ => []
  | .datagram dg addr :: rest =>
    match handleDatagram t L decode sendOk dg addr with
    | .died e => [.died e]
    | o => o :: loop t L decode sendOk rest

/-- the start-up announcement -/
def announce (t : Tables) (L : Listener) (startupBroadcast : Bool) : List (Send α) :=
  if L.enabled && startupBroadcast then sendAll t L .broadcast else []

/-- `run()`: announcement, then the outcomes of the loop -/
def run (t : Tables) (L : Listener) (startupBroadcast : Bool) (decode : Bytes → Except Exc JTop)
    (sendOk : α → Bool) (events : List (Event α)) : List (Send α) × List (Outcome α) :=
  (announce t L startupBroadcast, if L.enabled then loop t L decode sendOk events else [])

end Frappy.Discovery
