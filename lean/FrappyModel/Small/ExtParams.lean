import FrappyModel.Small.Scan
/-
Model of the convenience parameter kinds of `frappy/extparams.py`, `frappy/params.py: Limit` and
`frappy/modulebase.py: checkLimits` (with the read/write wrappers of `HasAccessibles.__init_subclass__`,
modulebase.py:118-200, and `announceUpdate`, modulebase.py:504-560).

Values are integers (an ordered carrier with an exact distance; see META.trusted of the harness: the
binary64 comparisons of the real code are assumed to agree on the values the harness draws).

Every state carries the append-only update stream `evs` (value updates sent by `announceUpdate`, with
`omit_unchanged_within = 0`) and `ok` = "the operation returned" (false: it raised; for a driver-side assignment: the value was
not stored, `announceUpdate` recorded a `readerror` instead).  Driver method
bodies (`read_x`, `write_x` written by the module programmer) are ORACLES: their outcome is an argument
of the operation.

## StructParam (extparams.py:33-175, repaired code)

    finish():  struct_cb(value):   insideRW += 1; for m, p in paramdict: setattr(modobj, p.name, value[m]); insideRW -= 1
               cb_m(value):        if not insideRW: prev = dict(struct); prev[m] = value; setattr(modobj, struct, prev)
    combined layout (hasStructRW: read_<struct> or write_<struct> written by the programmer; the one that is missing is the
    plain wrapper: a read returns the cached value, a write stores the validated value), for every member without a
    programmer-written method of that name:
       read_<member>  = lambda: read_<struct>()[member]
       write_<member> = lambda v: d = dict(struct); d[member] = v; write_<struct>(d); return read_<member>()
    per-member layout:
       read_<struct>  = insideRW += 1; result[m] = read_<m>() for all m; finally insideRW -= 1,
                        and if a member failed: setattr(struct, dict(struct, **result))
       write_<struct> = the same with write_<m>(value[m]), but (repaired, C04) nothing is re-assigned when the FIRST member
                        failed (`0 < len(result)`): nothing was written then
-/
namespace Frappy.ExtParams

abbrev Val := Int
abbrev Dict := List (String × Val)

/-- Python `d[k] = v` on an insertion-ordered dict -/
def Dict.set : Dict → String → Val → Dict
  | [], k, v => [(k, v)]
  | (k', x) :: t, k, v => if k' = k then (k', v) :: t else (k', x) :: Dict.set t k v

/-- `dict(d, **r)` -/
def Dict.merge (d r : Dict) : Dict := r.foldl (fun acc e => Dict.set acc e.1 e.2) d

/-- what a driver body raises: a `SECoPError` (HardwareError, CommunicationFailedError, …) or any other exception
(`ValueError` from parsing a garbled reply, `KeyError`, `ZeroDivisionError`, …).  The wrappers and `announceUpdate`
treat the two kinds alike (`except Exception` around a read body, no handler around a write body); the kind is
carried along so that every theorem quantifies over both and the escaping exception is observed. -/
inductive ExcKind
  | secop
  | value
  | key
  | zerodiv
  deriving Repr, DecidableEq, Inhabited

/-- outcome of a driver read body: a value or an exception -/
inductive RRes (α : Type)
  | ok (x : α)
  | fail (k : ExcKind)
  deriving Repr, DecidableEq, Inhabited

/-- outcome of a driver write body: a value, `None` (the wrapper takes the requested value), or an exception -/
inductive WRes (α : Type)
  | ret (x : α)
  | retNone
  | fail (k : ExcKind)
  deriving Repr, DecidableEq, Inhabited

inductive Ev
  | struct (d : Dict)                -- update of the struct parameter
  | mem (m : String) (x : Val)       -- update of a member parameter
  deriving Repr, DecidableEq, Inhabited

structure Cfg where
  members : List String              -- paramdict order
  hasRS : Bool                       -- the programmer wrote read_<struct>
  hasWS : Bool                       -- the programmer wrote write_<struct>
  hasR : String → Bool               -- the programmer wrote read_<m> (either layout)
  hasW : String → Bool               -- the programmer wrote write_<m> (either layout)
  omitUnch : Bool := false           -- `omit_unchanged_within`: 0 (false) or longer than the whole history (true)

/-- `hasStructRW = hasattr(owner, 'read_<struct>') or hasattr(owner, 'write_<struct>')` -/
def Cfg.combined (cfg : Cfg) : Bool := cfg.hasRS || cfg.hasWS

structure St where
  struct : Dict
  mem : Dict
  sP : Bool := false                 -- the next update of the struct cannot be omitted: `readerror` is set or it was never announced
  mP : List String := []             -- the members for which the same holds
  evs : List Ev := []
  ok : Bool := true
  exc : Option ExcKind := none       -- the driver exception that escaped from the operation (`none`: none, or a framework error)
  deriving Repr, DecidableEq, Inhabited

/-- `StructOf.validate` as far as the model needs it: exactly the members, (canonical) order -/
def wf (cfg : Cfg) (d : Dict) : Bool := d.map Prod.fst == cfg.members

def emit (s : St) (e : Ev) : St := { s with evs := s.evs ++ [e] }
def failed (s : St) : St := { s with ok := false }
def fine (s : St) : St := { s with ok := true }
/-- the operation ends with the exception `e` of a driver body -/
def failedExc (e : Option ExcKind) (s : St) : St := { s with ok := false, exc := e }

/-- `announceUpdate` returns before storing, callbacks and update message (modulebase.py:563-575): the value is the one
in the cache, the window is open and nothing is pending -/
def omittedS (cfg : Cfg) (same pend : Bool) : Bool := cfg.omitUnch && same && !pend

def pendM (s : St) (m : String) : Bool := s.mP.contains m
def clearM (s : St) (m : String) : List String := s.mP.filter (· != m)

/-- an error is announced for the struct parameter / a member parameter (`announceUpdate(…, err=e)`): `readerror` is set; the
callbacks do not get along with the extra argument (an exception inside them is swallowed) -/
def structError (s : St) : St := { s with sP := true }
def memberError (m : String) (s : St) : St := { s with mP := if s.mP.contains m then s.mP else s.mP ++ [m] }

/-- `announceUpdate(member, x)` while `insideRW > 0` (the member callback does nothing) -/
def announceMemberIn (cfg : Cfg) (m : String) (x : Val) (s : St) : St :=
  if omittedS cfg (s.mem.lookup m == some x) (pendM s m) then s
  else emit { s with mem := s.mem.set m x, mP := clearM s m } (.mem m x)

/-- the loop of `struct_cb`; a missing key ends it (the `KeyError` is swallowed by `announceUpdate`) -/
def setMembers (cfg : Cfg) : List String → Dict → St → St
  | [], _, s => s
  | m :: ms, d, s =>
    match d.lookup m with
    | none => s
    | some x => setMembers cfg ms d (announceMemberIn cfg m x s)

/-- `announceUpdate(struct, d)` with an already validated `d`: unless omitted — store, callbacks, update message -/
def announceStruct (cfg : Cfg) (d : Dict) (s : St) : St :=
  if omittedS cfg (s.struct == d) s.sP then s
  else emit (setMembers cfg cfg.members d { s with struct := d, sP := false }) (.struct d)

/-- `setattr(modobj, struct, d)`: `announceUpdate` validates; an invalid value only sets `readerror` -/
def assignStruct (cfg : Cfg) (d : Dict) (s : St) : St :=
  if wf cfg d then announceStruct cfg d s else structError s

/-- `announceUpdate(member, x)` with `insideRW = 0`: unless omitted, the member callback writes the struct first -/
def announceMember (cfg : Cfg) (m : String) (x : Val) (s : St) : St :=
  if omittedS cfg (s.mem.lookup m == some x) (pendM s m) then s
  else emit (assignStruct cfg (s.struct.set m x) { s with mem := s.mem.set m x, mP := clearM s m }) (.mem m x)

/-! ### combined layout -/

/-- wrapped `read_<struct>` around the programmer's body returning `r` -/
def readStructA (cfg : Cfg) (r : RRes Dict) (s : St) : St :=
  match r with
  | .fail k => failedExc (some k) (structError s)
  | .ok d => if wf cfg d then fine (announceStruct cfg d s) else failed (structError s)

/-- wrapped `write_<struct>(v)` (a write wrapper announces no errors) -/
def writeStructA (cfg : Cfg) (v : Dict) (w : WRes Dict) (s : St) : St :=
  if !wf cfg v then failed s else
  match w with
  | .fail k => failedExc (some k) s
  | .retNone => fine (announceStruct cfg v s)
  | .ret d => if wf cfg d then fine (announceStruct cfg d s) else failed s

/-- `read_<struct>` in the combined layout: the programmer's body, or (only `write_<struct>` written) the plain wrapper
returning the cached value -/
def readStructC (cfg : Cfg) (r : RRes Dict) (s : St) : St :=
  if cfg.hasRS then readStructA cfg r s else fine s

/-- `write_<struct>(v)` in the combined layout: the programmer's body, or (only `read_<struct>` written) the plain wrapper
storing the validated value -/
def writeStructC (cfg : Cfg) (v : Dict) (w : WRes Dict) (s : St) : St :=
  if cfg.hasWS then writeStructA cfg v w s else writeStructA cfg v .retNone s

/-- wrapped generated `read_<member>`: a failure of `read_<struct>` passes through both wrappers, each announces it -/
def readMemberA (cfg : Cfg) (m : String) (r : RRes Dict) (s : St) : St :=
  let s1 := readStructC cfg r s
  if !s1.ok then memberError m s1 else
  match s1.struct.lookup m with
  | none => failed (memberError m s1)
  | some x => fine (announceMember cfg m x s1)

/-- wrapped programmer-written `read_<m>` (either layout; without one: the plain wrapper returning the cached value) -/
def readMemberB (cfg : Cfg) (m : String) (r : RRes Val) (s : St) : St :=
  if cfg.hasR m then
    match r with
    | .fail k => failedExc (some k) (memberError m s)
    | .ok x => fine (announceMember cfg m x s)
  else fine s

/-- `read_<member>` in the combined layout: the programmer's when there is one, else the generated one -/
def readMemberC (cfg : Cfg) (m : String) (r : RRes Dict) (rB : RRes Val) (s : St) : St :=
  if cfg.hasR m then readMemberB cfg m rB s else readMemberA cfg m r s

/-- wrapped generated `write_<member>(v)` -/
def writeMemberA (cfg : Cfg) (m : String) (v : Val) (w : WRes Dict) (r : RRes Dict) (rB : RRes Val) (s : St) : St :=
  let s1 := writeStructC cfg (s.struct.set m v) w s
  if !s1.ok then s1 else
  let s2 := readMemberC cfg m r rB s1
  if !s2.ok then s2 else
  match s2.mem.lookup m with
  | none => failed s2
  | some x => fine (announceMember cfg m x s2)

/-! ### per-member layout -/

def writeMemberB (cfg : Cfg) (m : String) (v : Val) (w : WRes Val) (s : St) : St :=
  if cfg.hasW m then
    match w with
    | .fail k => failedExc (some k) s
    | .retNone => fine (announceMember cfg m v s)
    | .ret x => fine (announceMember cfg m x s)
  else fine (announceMember cfg m v s)

/-- loop state of the generated struct methods -/
structure Loop where
  st : St
  result : Dict := []
  stop : Bool := false
  exc : Option ExcKind := none       -- the exception that ended the loop

/-- one iteration of `result[m] = read_<m>()` under `insideRW > 0`; `r m` is what the body of `read_<m>` does -/
def readIter (cfg : Cfg) (r : String → RRes Val) (l : Loop) (m : String) : Loop :=
  if l.stop then l else
  if cfg.hasR m then
    match r m with
    | .fail k => { l with st := memberError m l.st, stop := true, exc := some k }
    | .ok x => { l with st := announceMemberIn cfg m x l.st, result := l.result ++ [(m, x)] }
  else
    match l.st.mem.lookup m with
    | none => { l with stop := true }
    | some x => { l with result := l.result ++ [(m, x)] }

/-- one iteration of `result[m] = write_<m>(value[m])` under `insideRW > 0` -/
def writeIter (cfg : Cfg) (v : Dict) (w : String → WRes Val) (l : Loop) (m : String) : Loop :=
  if l.stop then l else
  match v.lookup m with
  | none => { l with stop := true }
  | some req =>
    if cfg.hasW m then
      match w m with
      | .fail k => { l with stop := true, exc := some k }
      | .retNone => { l with st := announceMemberIn cfg m req l.st, result := l.result ++ [(m, req)] }
      | .ret x => { l with st := announceMemberIn cfg m x l.st, result := l.result ++ [(m, x)] }
    else { l with st := announceMemberIn cfg m req l.st, result := l.result ++ [(m, req)] }

/-- the wrapper of the generated struct method ends with an exception: a read wrapper announces it, a write wrapper does not -/
def loopError (isRead : Bool) (s : St) : St := if isRead then structError s else s

/-- the condition of the `finally` clause once the loop has ended early: `read_<struct>` re-synchronises whenever
`len(result) < len(flist)` (147), `write_<struct>` only after a failure IN BETWEEN, `0 < len(result) < len(funclist)` (166):
when the first member refused nothing was written and nothing is to be made consistent -/
def resyncs (isRead : Bool) (result : Dict) : Bool := isRead || !result.isEmpty

/-- what follows the loop: `finally` (re-synchronise after a failure), then the wrapper -/
def finishLoop (cfg : Cfg) (isRead : Bool) (l : Loop) : St :=
  if l.result.length < cfg.members.length then
    if resyncs isRead l.result then
      failedExc l.exc (loopError isRead (assignStruct cfg (Dict.merge l.st.struct l.result) l.st))
    else failedExc l.exc l.st
  else if wf cfg l.result then fine (announceStruct cfg l.result l.st)
  else failed (loopError isRead l.st)

def readStructB (cfg : Cfg) (r : String → RRes Val) (s : St) : St :=
  finishLoop cfg true (cfg.members.foldl (readIter cfg r) { st := s })

def writeStructB (cfg : Cfg) (v : Dict) (w : String → WRes Val) (s : St) : St :=
  if !wf cfg v then failed s else
  finishLoop cfg false (cfg.members.foldl (writeIter cfg v w) { st := s })

/-! ### operations -/

inductive Op
  | readStruct (rA : RRes Dict) (rB : String → RRes Val)               -- oracle of read_<m>, by member
  | writeStruct (v : Dict) (wA : WRes Dict) (wB : String → WRes Val)   -- oracle of write_<m>, by member
  | readMember (m : String) (rA : RRes Dict) (rB : RRes Val)
  | writeMember (m : String) (v : Val) (wA : WRes Dict) (rA : RRes Dict) (wB : WRes Val) (rB : RRes Val)
  | driverAssignStruct (v : Dict)
  | driverAssignMember (m : String) (v : Val)

def step (cfg : Cfg) (s : St) : Op → St
  | .readStruct rA rB => if cfg.combined then readStructC cfg rA s else readStructB cfg rB s
  | .writeStruct v wA wB => if cfg.combined then writeStructC cfg v wA s else writeStructB cfg v wB s
  | .readMember m rA rB =>
    if !cfg.members.contains m then failed s
    else if cfg.combined && !cfg.hasR m then readMemberA cfg m rA s else readMemberB cfg m rB s
  | .writeMember m v wA rA wB rB =>
    if !cfg.members.contains m then failed s
    else if cfg.combined && !cfg.hasW m then writeMemberA cfg m v wA rA rB s else writeMemberB cfg m v wB s
  | .driverAssignStruct v => if wf cfg v then fine (assignStruct cfg v s) else failed (structError s)   -- not stored: `readerror`
  | .driverAssignMember m v => if !cfg.members.contains m then failed s else fine (announceMember cfg m v s)

def step1 (cfg : Cfg) (s : St) (op : Op) : St := step cfg { s with evs := [], exc := none } op

/-- states after each operation (the quiescent points) -/
def run (cfg : Cfg) (s : St) (ops : List Op) : List St := Frappy.Scan.scan (step1 cfg) s ops

/-- state after a whole history -/
def exec (cfg : Cfg) (s : St) (ops : List Op) : St := ops.foldl (step1 cfg) s

def init (cfg : Cfg) : St :=
  { struct := cfg.members.map (fun m => (m, 0)), mem := cfg.members.map (fun m => (m, 0)) }

/-! ### overlapping operations (several threads; repaired code: the guard counter `insideRW` is kept per thread)

Every `announceUpdate` runs under `updateLock`, callbacks included; every read_/write_ wrapper runs under `accessLock`.
So at most one wrapped access is in progress at a time, and what can get in between its steps are the driver-side
assignments of other threads (`self.<struct> = d`, `self.<member> = x`: `updateLock` only), each a complete update with all
its callbacks.  The callbacks of such an assignment consult the guard counter of THEIR thread (0), not the one of the thread
inside the access, so they are not suppressed.  Reads of the cache outside `updateLock` (a member without `read_<m>` in the
loop of the generated `read_<struct>`) may see a state in the middle of another thread's update: an oracle (`seen`).
-/

/-- what another thread does while an access is in progress -/
inductive AOp
  | assignStruct (v : Dict)
  | assignMember (m : String) (v : Val)
  deriving Repr, DecidableEq, Inhabited

def astep (cfg : Cfg) (s : St) : AOp → St
  | .assignStruct v => assignStruct cfg v s
  | .assignMember m v => if cfg.members.contains m then announceMember cfg m v s else s

def interrupt (cfg : Cfg) (ops : List AOp) (s : St) : St := ops.foldl (astep cfg) s

/-- where the assignments of other threads fall during one generated `read_<struct>` / `write_<struct>` of the per-member
layout (every position between two acquisitions of `updateLock` by the accessing thread) -/
structure Overlap where
  before : String → List AOp := fun _ => []   -- before member `m` is treated (before its update; for a member without `read_<m>`: before its cache read)
  seen : String → Option Val := fun _ => none -- what the cache read of a member without `read_<m>` sees (`none`: the state the model has reached)
  atEnd : List AOp := []                      -- after the loop, before `finally` reads the struct / before the result is announced
  afterRead : List AOp := []                  -- between `getattr(self, <struct>)` in `finally` and the update with the merged value
  beforeErr : List AOp := []                  -- before the read wrapper announces the error

def readIterO (cfg : Cfg) (r : String → RRes Val) (ov : Overlap) (l : Loop) (m : String) : Loop :=
  if l.stop then l else
  let s1 := interrupt cfg (ov.before m) l.st
  if cfg.hasR m then
    match r m with
    | .fail k => { l with st := memberError m s1, stop := true, exc := some k }
    | .ok x => { l with st := announceMemberIn cfg m x s1, result := l.result ++ [(m, x)] }
  else
    match (ov.seen m).orElse (fun _ => s1.mem.lookup m) with
    | none => { l with st := s1, stop := true }
    | some x => { l with st := s1, result := l.result ++ [(m, x)] }

def writeIterO (cfg : Cfg) (v : Dict) (w : String → WRes Val) (ov : Overlap) (l : Loop) (m : String) : Loop :=
  if l.stop then l else
  let s1 := interrupt cfg (ov.before m) l.st
  match v.lookup m with
  | none => { l with st := s1, stop := true }
  | some req =>
    if cfg.hasW m then
      match w m with
      | .fail k => { l with st := s1, stop := true, exc := some k }
      | .retNone => { l with st := announceMemberIn cfg m req s1, result := l.result ++ [(m, req)] }
      | .ret x => { l with st := announceMemberIn cfg m x s1, result := l.result ++ [(m, x)] }
    else { l with st := announceMemberIn cfg m req s1, result := l.result ++ [(m, req)] }

def finishLoopO (cfg : Cfg) (isRead : Bool) (ov : Overlap) (l : Loop) : St :=
  let s1 := interrupt cfg ov.atEnd l.st
  let s2 := interrupt cfg ov.afterRead s1
  if l.result.length < cfg.members.length then
    if resyncs isRead l.result then
      failedExc l.exc (loopError isRead (interrupt cfg ov.beforeErr (assignStruct cfg (Dict.merge s1.struct l.result) s2)))
    else failedExc l.exc s2
  else if wf cfg l.result then fine (announceStruct cfg l.result s2)
  else failed (loopError isRead (interrupt cfg ov.beforeErr s2))

def readStructO (cfg : Cfg) (r : String → RRes Val) (ov : Overlap) (s : St) : St :=
  finishLoopO cfg true ov (cfg.members.foldl (readIterO cfg r ov) { st := s })

def writeStructO (cfg : Cfg) (v : Dict) (w : String → WRes Val) (ov : Overlap) (s : St) : St :=
  if !wf cfg v then failed s else
  finishLoopO cfg false ov (cfg.members.foldl (writeIterO cfg v w ov) { st := s })

/-! the generated member methods of the combined layout are several steps (updates under `updateLock`, reads of the cache
outside it); `iv`: what other threads do before step 0, 1, … of the access.  The values handed on are the RETURNED ones, not
what the cache holds when the next step begins. -/

def ivAt (iv : List (List AOp)) (k : Nat) : List AOp := iv.getD k []

/-- generated `read_<m>` (`read_<struct>()[m]`), steps `k` (the update by `read_<struct>`, or the read of the cached struct
when the programmer wrote only `write_<struct>`) and `k + 1` (the update of the member) → (state, value returned) -/
def readMemberAV (cfg : Cfg) (m : String) (r : RRes Dict) (iv : List (List AOp)) (k : Nat) (s : St) : St × Option Val :=
  let s1 := readStructC cfg r (interrupt cfg (ivAt iv k) s)
  let s2 := interrupt cfg (ivAt iv (k + 1)) s1
  if !s1.ok then (memberError m s2, none) else
  let ret := if cfg.hasRS then (match r with | .ok d => d.lookup m | .fail _ => none) else s1.struct.lookup m
  match ret with
  | none => (failed (memberError m s2), none)
  | some x => (fine (announceMember cfg m x s2), some x)

/-- programmer-written `read_<m>`, step `k` → (state, value returned) -/
def readMemberBV (cfg : Cfg) (m : String) (rB : RRes Val) (iv : List (List AOp)) (k : Nat) (s : St) : St × Option Val :=
  let s0 := interrupt cfg (ivAt iv k) s
  match rB with
  | .fail e => (failedExc (some e) (memberError m s0), none)
  | .ok x => (fine (announceMember cfg m x s0), some x)

/-- generated `write_<m>(v)`: step 0 the read of the cached struct, 1 the update by `write_<struct>`, 2… `read_<m>`, last the
update of the member with the value `read_<m>` returned -/
def writeMemberAO (cfg : Cfg) (m : String) (v : Val) (w : WRes Dict) (r : RRes Dict) (rB : RRes Val) (iv : List (List AOp))
    (s : St) : St :=
  let sa := interrupt cfg (ivAt iv 0) s
  let s1 := writeStructC cfg (sa.struct.set m v) w (interrupt cfg (ivAt iv 1) sa)
  if !s1.ok then s1 else
  let sr := if cfg.hasR m then readMemberBV cfg m rB iv 2 s1 else readMemberAV cfg m r iv 2 s1
  if !sr.1.ok then sr.1 else
  match sr.2 with
  | none => failed sr.1
  | some x => fine (announceMember cfg m x (interrupt cfg (ivAt iv (if cfg.hasR m then 3 else 4)) sr.1))

/-- histories in which accesses overlap with assignments of other threads -/
inductive OOp
  | seq (op : Op)                                                                   -- an operation nothing gets into
  | readStructO (rA : RRes Dict) (rB : String → RRes Val) (ov : Overlap)
  | writeStructO (v : Dict) (wA : WRes Dict) (wB : String → WRes Val) (ov : Overlap)
  | readMemberO (m : String) (rA : RRes Dict) (iv : List (List AOp))              -- generated member methods of the combined layout
  | writeMemberO (m : String) (v : Val) (wA : WRes Dict) (rA : RRes Dict) (rB : RRes Val) (iv : List (List AOp))

/-- in the combined layout `read_<struct>` / `write_<struct>` are one update: whatever other threads do comes before it -/
def ostep (cfg : Cfg) (s : St) : OOp → St
  | .seq op => step cfg s op
  | .readStructO rA rB ov =>
    if cfg.combined then readStructC cfg rA (interrupt cfg (ov.atEnd ++ ov.afterRead) s) else readStructO cfg rB ov s
  | .writeStructO v wA wB ov =>
    if cfg.combined then writeStructC cfg v wA (interrupt cfg (ov.atEnd ++ ov.afterRead) s) else writeStructO cfg v wB ov s
  | .readMemberO m rA iv =>
    if cfg.members.contains m && cfg.combined && !cfg.hasR m then (readMemberAV cfg m rA iv 0 s).1 else failed s
  | .writeMemberO m v wA rA rB iv =>
    if cfg.members.contains m && cfg.combined && !cfg.hasW m then writeMemberAO cfg m v wA rA rB iv s else failed s

def ostep1 (cfg : Cfg) (s : St) (op : OOp) : St := ostep cfg { s with evs := [], exc := none } op
def orun (cfg : Cfg) (s : St) (ops : List OOp) : List St := Frappy.Scan.scan (ostep1 cfg) s ops
def oexec (cfg : Cfg) (s : St) (ops : List OOp) : St := ops.foldl (ostep1 cfg) s

/-! ### the guard counter as it was before `fix:` 8a147a3: one integer for all threads, `insideRW += 1` = load, store

A thread inside an access runs `enter` (load, store +1) … `leave` (load, store −1); the interpreter may switch threads between
the load and the store.  `CStep t a`: thread `t` performs `a`. -/
inductive CAct
  | load                      -- LOAD_ATTR insideRW
  | storeInc                  -- STORE_ATTR insideRW (loaded value + 1)
  | storeDec                  -- STORE_ATTR insideRW (loaded value − 1)
  deriving Repr, DecidableEq, Inhabited

structure CSt where
  counter : Int := 0
  loaded : Nat → Int := fun _ => 0    -- per thread: the value on its stack

def cstep (s : CSt) (ta : Nat × CAct) : CSt :=
  match ta.2 with
  | .load => { s with loaded := fun t => if t = ta.1 then s.counter else s.loaded t }
  | .storeInc => { s with counter := s.loaded ta.1 + 1 }
  | .storeDec => { s with counter := s.loaded ta.1 - 1 }

/-- the actions of one thread entering and leaving once -/
def enterLeave : List CAct := [.load, .storeInc, .load, .storeDec]

/-! ## FloatEnumParam (extparams.py:178-310)

    write_<name>(value):  write_<idx>(min(vdict, key=lambda i: abs(vdict[i] - value))); return getattr(mobj, name)
    __get__:              valuedict[parameters[idx_name].value]
    callback on <idx>:    announceUpdate(name, getattr(modobj, name))
    callback on <name>:   (repaired code) if value != valuedict[<idx>]: closest = min(vdict, key=…)
                          if closest == <idx>: announceUpdate(name, valuedict[closest]) else: setattr(modobj, <idx>, closest)
-/

structure FCfg where
  vdict : List (Int × Val)       -- `valuedict` in its insertion order: index ↦ value
  lo : Val                       -- FloatRange(min(values), max(values))
  hi : Val
  hasR : Bool                    -- the programmer wrote read_<idx>
  hasW : Bool                    -- the programmer wrote write_<idx>
  omitUnch : Bool := false       -- `omit_unchanged_within`: 0 (false) or longer than the whole history (true); frappy's
                                 -- default of 0.1 s lies in between: which of the two applies to an update depends on timing
  deriving Repr

inductive FEv
  | value (x : Val)
  | idx (i : Int)
  deriving Repr, DecidableEq, Inhabited

structure FSt where
  idx : Int
  value : Val                    -- the cache entry of the float parameter (what `read` replies)
  idxErr : Bool := false         -- the next update of the index cannot be omitted: `readerror` is set or it was never announced
  valErr : Bool := false         -- the same for the float parameter
  evs : List FEv := []
  ok : Bool := true
  exc : Option ExcKind := none
  deriving Repr, DecidableEq, Inhabited

def dist (a x : Val) : Nat := (a - x).natAbs

/-- the fold of Python's `min(iterable, key=…)`: a later element wins only when strictly smaller -/
def closestFrom (best : Int × Val) : List (Int × Val) → Val → Int × Val
  | [], _ => best
  | c :: cs, x => closestFrom (if dist c.2 x < dist best.2 x then c else best) cs x

def closest : List (Int × Val) → Val → Option Int
  | [], _ => none
  | c :: cs, x => some (closestFrom c cs x).1

def femit (s : FSt) (e : FEv) : FSt := { s with evs := s.evs ++ [e] }

/-- `announceUpdate` returns before storing, callbacks and update message: "no change within short time -> omit"
(modulebase.py:563-575: the value is the one in the cache, no error is pending, the window is still open) -/
def omitted (cfg : FCfg) (same err : Bool) : Bool := cfg.omitUnch && same && !err

/-- `announceUpdate(name, v)` with `v = valuedict[index]` (from `trigger_setter`, from the write wrapper of the float
parameter, from `trigger_index`): store, the callback `trigger_index` finds nothing to do, update -/
def announceVal (cfg : FCfg) (v : Val) (s : FSt) : FSt :=
  if omitted cfg (s.value == v) s.valErr then s else femit { s with value := v, valErr := false } (.value v)

/-- `announceUpdate(idx, j)` for a valid index: store, callback `trigger_setter`, update -/
def announceIdx (cfg : FCfg) (j : Int) (s : FSt) : FSt :=
  if omitted cfg (s.idx == j) s.idxErr then s else
  match cfg.vdict.lookup j with
  | none => femit { s with idx := j, idxErr := false } (.idx j)       -- `valuedict[j]` raises inside the callback (swallowed)
  | some v => femit (announceVal cfg v { s with idx := j, idxErr := false }) (.idx j)

def validIdx (cfg : FCfg) (j : Int) : Bool := (cfg.vdict.lookup j).isSome

/-- wrapped `write_<idx>(i)` -/
def writeIdx (cfg : FCfg) (i : Int) (w : WRes Int) (s : FSt) : FSt :=
  if !validIdx cfg i then { s with ok := false } else
  if cfg.hasW then
    match w with
    | .fail k => { s with ok := false, exc := some k }
    | .retNone => { announceIdx cfg i s with ok := true }
    | .ret j => if validIdx cfg j then { announceIdx cfg j s with ok := true } else { s with ok := false }
  else { announceIdx cfg i s with ok := true }

/-- wrapped generated `write_<name>(x)` -/
def writeFloat (cfg : FCfg) (x : Val) (w : WRes Int) (s : FSt) : FSt :=
  if x < cfg.lo || cfg.hi < x then { s with ok := false } else
  match closest cfg.vdict x with
  | none => { s with ok := false }
  | some i =>
    let s1 := writeIdx cfg i w s
    if !s1.ok then s1 else
    match cfg.vdict.lookup s1.idx with
    | none => { s1 with ok := false }
    | some v => announceVal cfg v s1

/-- the callback `trigger_index` on the float parameter (repaired code): a value that is not the value of the current
index selects the closest label; when that is another index, assigning it updates the float parameter through
`trigger_setter`; when it is the current index (whose unchanged update might be omitted) the float parameter is corrected
directly -/
def triggerIndex (cfg : FCfg) (x : Val) (s : FSt) : FSt :=
  match cfg.vdict.lookup s.idx with
  | none => s                                         -- `vdict[idx]` raises (swallowed)
  | some cur =>
    if cur == x then s else
    match closest cfg.vdict x with
    | none => s
    | some i =>
      if i = s.idx then announceVal cfg cur s else announceIdx cfg i s

/-- `self.<name> = x` from the driver (`Parameter.__set__` → `announceUpdate`): unless omitted, the cache entry takes any
float (converted, not range-checked), the callback `trigger_index` runs, and the update message of the outer
`announceUpdate` carries the value the cache holds at that time -/
def assignFloat (cfg : FCfg) (x : Val) (s : FSt) : FSt :=
  if omitted cfg (s.value == x) s.valErr then s else
  let s2 := triggerIndex cfg x { s with value := x, valErr := false }
  femit s2 (.value s2.value)

inductive FOp
  | writeFloat (x : Val) (w : WRes Int)
  | writeIdx (i : Int) (w : WRes Int)
  | readIdx (r : RRes Int)
  | readFloat
  | driverAssignIdx (j : Int)
  | driverAssignFloat (x : Val)
  deriving Repr, Inhabited

/-- an error is announced for the index parameter (`announceUpdate(idx, err=e)`): `readerror` is set, the callback
`trigger_setter` does not take the extra argument (`TypeError`, swallowed) -/
def idxError (s : FSt) (e : Option ExcKind) : FSt := { s with ok := false, exc := e, idxErr := true }

def fstep (cfg : FCfg) (s : FSt) : FOp → FSt
  | .writeFloat x w => writeFloat cfg x w s
  | .writeIdx i w => writeIdx cfg i w s
  | .readIdx r =>
    if cfg.hasR then
      match r with
      | .fail k => idxError s (some k)
      | .ok j => if validIdx cfg j then { announceIdx cfg j s with ok := true } else idxError s none
    else { s with ok := true }
  | .readFloat => { s with ok := true }
  | .driverAssignIdx j => if validIdx cfg j then { announceIdx cfg j s with ok := true } else idxError s none
  | .driverAssignFloat x => { assignFloat cfg x s with ok := true }

/-- initial state: the index parameter starts with the default of its enum, the float parameter with the
value of that index (`FloatEnumParam.finish`, repaired code); both may carry the `not initialized` error -/
def finit (cfg : FCfg) (idx0 : Int) (idxErr : Bool := false) (valErr : Bool := false) : FSt :=
  { idx := idx0, value := (cfg.vdict.lookup idx0).getD cfg.lo, idxErr := idxErr, valErr := valErr }

def fstep1 (cfg : FCfg) (s : FSt) (op : FOp) : FSt := fstep cfg { s with evs := [], exc := none } op
def frun (cfg : FCfg) (s : FSt) (ops : List FOp) : List FSt := Frappy.Scan.scan (fstep1 cfg) s ops
def fexec (cfg : FCfg) (s : FSt) (ops : List FOp) : FSt := ops.foldl (fstep1 cfg) s

/-! ### the `labels` argument (FloatEnumParam.__init__, extparams.py:226-263)

    nextidx = 0; edict = {}; vdict = {}
    for elem in labels:
        if isinstance(elem, str): idx, label = nextidx, elem
        else:
            if isinstance(elem[0], str): elem = [nextidx] + list(elem)
            idx, label, *tail = elem
            if tail: vdict[idx], = tail
        edict[label] = idx; nextidx = idx + 1
    for label, idx in edict.items():
        if idx not in vdict: vdict[idx] = <the number the label text stands for>   # else ProgrammingError
    enumtype = EnumType(**edict)                                                   # two names for one index: ProgrammingError
    datatype = FloatRange(min(vdict.values()), max(vdict.values()))
-/

/-- one element of `labels`: a bare label or a tuple `([index], label, [value])`; `derived` = the number the label text
stands for (`'20mV'` → 0.02; `none`: it has not the form `<float><prefix><unit>`) — the text conversion is an oracle -/
structure LabelSpec where
  idx : Option Int
  label : String
  value : Option Val
  derived : Option Val
  deriving Repr, DecidableEq, Inhabited

/-- Python `d[k] = v` on insertion-ordered dicts with these key types -/
def setI : List (Int × Val) → Int → Val → List (Int × Val)
  | [], k, v => [(k, v)]
  | (k', x) :: t, k, v => if k' = k then (k', v) :: t else (k', x) :: setI t k v

def setS : List (String × Int) → String → Int → List (String × Int)
  | [], k, v => [(k, v)]
  | (k', x) :: t, k, v => if k' = k then (k', v) :: t else (k', x) :: setS t k v

/-- the first loop: `edict` and the explicitly given values -/
def collectLabels : List LabelSpec → Int → List (String × Int) → List (Int × Val) → List (String × Int) × List (Int × Val)
  | [], _, ed, vd => (ed, vd)
  | e :: es, next, ed, vd =>
    let i := e.idx.getD next
    collectLabels es (i + 1) (setS ed e.label i) (match e.value with | some v => setI vd i v | none => vd)

/-- the second loop: values of the indices that have none yet, from the label text -/
def fillValues (derive : String → Option Val) : List (String × Int) → List (Int × Val) → Option (List (Int × Val))
  | [], vd => some vd
  | (lab, i) :: rest, vd =>
    if (vd.lookup i).isSome then fillValues derive rest vd
    else match derive lab with
      | none => none
      | some v => fillValues derive rest (setI vd i v)

def minVal : List (Int × Val) → Val → Val
  | [], m => m
  | c :: cs, m => minVal cs (if c.2 < m then c.2 else m)

def maxVal : List (Int × Val) → Val → Val
  | [], m => m
  | c :: cs, m => maxVal cs (if m < c.2 then c.2 else m)

structure ParsedLabels where
  edict : List (String × Int)      -- label ↦ index (the members of the enum)
  vdict : List (Int × Val)         -- index ↦ value, in `valuedict` order
  lo : Val
  hi : Val
  deriving Repr, DecidableEq, Inhabited

/-- `FloatEnumParam.__init__` up to the datatypes; `none` = it raises -/
def parseLabels (specs : List LabelSpec) : Option ParsedLabels :=
  let (ed, vd0) := collectLabels specs 0 [] []
  let derive := fun lab => (specs.find? (fun e => e.label == lab)).bind (·.derived)
  match fillValues derive ed vd0 with
  | none => none
  | some vd =>
    if !(ed.map Prod.snd).Nodup then none          -- EnumType: `b=0 conflicts with a=0`
    else match vd with
      | [] => none                                 -- no labels at all: `min()` of an empty sequence
      | c :: cs => some { edict := ed, vdict := vd, lo := minVal cs c.2, hi := maxVal cs c.2 }

/-! ## Limit parameters (params.py:555-580, modulebase.py:156-200, 885-910, datatypes.py:1252-1265; repaired code)

    HasAccessibles.__init_subclass__ (for every class `cls` of the hierarchy, when it is created):
        for postfix in ('_limits', '_min', '_max'):
            if <p><postfix> in accessibles:
                base = next(b for b in reversed(cls.__mro__) if <p><postfix> in b.__dict__)   # where it is defined first
                if 'check_<p>' not in base.__dict__:                                          # no own check method there
                    setattr(base, 'check_<p>', lambda self, value: self.checkLimits(value, <p>))
        cfuncs = tuple(filter(None, (b.__dict__.get('check_<p>') for b in cls.__mro__)))
    write wrapper:   validate(value);  for c in cfuncs: if c(self, value): break;  write_<p>(…)
    checkLimits(value, pname):
        if <p>_limits exists:  min_, max_ = <p>_limits;  not min_ <= value <= max_ -> RangeError
        min_ = <p>_min or -inf; max_ = <p>_max or +inf
        min_ > max_ -> RangeError; value < min_ -> RangeError; value > max_ -> RangeError
    <p>_limits has datatype LimitsType(datatype of p): an inverted pair is a RangeError
-/

/-- what a programmer-written `check_<p>(value)` does with a value: returns `None` (the next check method is called),
returns `True` (no further check methods: `if c(self, value): break`), or raises (an oracle, like the `write_<p>` body) -/
inductive CRes
  | pass
  | stop
  | fail (k : ExcKind)
  deriving Repr, DecidableEq, Inhabited

/-- one class of the MRO of the module class, as far as the limits of `<p>` are concerned: which limit parameters
its body declares and whether its body defines `check_<p>` -/
structure Layer where
  declMin : Bool := false
  declMax : Bool := false
  declLimits : Bool := false
  ownCheck : Bool := false
  ro : Option Bool := none       -- the class body gives `<p>` a `readonly` property (the class declaring `<p>` always does; a
                                 -- subclass may override it: `<p> = Parameter(readonly=…)`)
  deriving Repr, DecidableEq, Inhabited

structure LCfg where
  lo : Val                       -- datatype range of the base parameter (and of every limit parameter)
  hi : Val
  layers : List Layer            -- the classes of the module class in MRO order (most derived first)
  hasW : Bool                    -- the programmer wrote write_<p>
  omitUnch : Bool := false       -- `omit_unchanged_within`: 0 (false) or longer than the whole history (true)
  roCfg : Option Bool := none    -- the configuration of the module sets `readonly` of `<p>` (`{'readonly': False}` makes a
                                 -- parameter declared readonly in the class writable for clients)
  deriving Repr, DecidableEq

/-- `readonly` of `<p>` as the class hierarchy leaves it: the most derived class that sets the property wins -/
def classReadonly : List Layer → Bool
  | [] => false
  | l :: rest => match l.ro with
    | some b => b
    | none => classReadonly rest

/-- `readonly` of `<p>` on the module object: what the dispatcher consults before a `change` request reaches `write_<p>`.
The write wrapper itself (check methods included) exists whatever this says: "the configuration may turn a readonly parameter
into a writable one, and a readonly parameter may still be internally writable" (modulebase.py:182) -/
def LCfg.readonly (cfg : LCfg) : Bool := cfg.roCfg.getD (classReadonly cfg.layers)

/-- `<p>_min in accessibles`: some class of the hierarchy declares it -/
def LCfg.hasMin (cfg : LCfg) : Bool := cfg.layers.any (·.declMin)
def LCfg.hasMax (cfg : LCfg) : Bool := cfg.layers.any (·.declMax)
def LCfg.hasLimits (cfg : LCfg) : Bool := cfg.layers.any (·.declLimits)

inductive LEv
  | value (x : Val)
  | min (x : Val)
  | max (x : Val)
  | limits (a b : Val)
  deriving Repr, DecidableEq, Inhabited

structure LSt where
  value : Val
  min : Val
  max : Val
  limits : Val × Val
  vErr : Bool := false           -- the next update of <p> cannot be omitted: `readerror` is set or it was never announced
  minErr : Bool := false
  maxErr : Bool := false
  limErr : Bool := false
  evs : List LEv := []
  ok : Bool := true
  exc : Option ExcKind := none
  deriving Repr, DecidableEq, Inhabited

def inRange (cfg : LCfg) (x : Val) : Bool := decide (cfg.lo ≤ x) && decide (x ≤ cfg.hi)

/-- `checkLimits` (true = no exception) -/
def checkLimits (cfg : LCfg) (s : LSt) (x : Val) : Bool :=
  (!cfg.hasLimits || (decide (s.limits.1 ≤ x) && decide (x ≤ s.limits.2)))
  && !(cfg.hasMin && cfg.hasMax && decide (s.max < s.min))
  && (!cfg.hasMin || decide (s.min ≤ x))
  && (!cfg.hasMax || decide (x ≤ s.max))

def lfail (s : LSt) : LSt := { s with ok := false }

/-- `announceUpdate` of an unchanged value without a pending error while the window is open: nothing stored, no message -/
def omittedL (cfg : LCfg) (same err : Bool) : Bool := cfg.omitUnch && same && !err

/-- `announceUpdate(<p>, x)` and the same for the limit parameters (no callbacks are registered on them) -/
def setValue (cfg : LCfg) (x : Val) (s : LSt) : LSt :=
  if omittedL cfg (s.value == x) s.vErr then { s with ok := true }
  else { s with value := x, vErr := false, evs := s.evs ++ [.value x], ok := true }

def setMin (cfg : LCfg) (x : Val) (s : LSt) : LSt :=
  if omittedL cfg (s.min == x) s.minErr then { s with ok := true }
  else { s with min := x, minErr := false, evs := s.evs ++ [.min x], ok := true }

def setMax (cfg : LCfg) (x : Val) (s : LSt) : LSt :=
  if omittedL cfg (s.max == x) s.maxErr then { s with ok := true }
  else { s with max := x, maxErr := false, evs := s.evs ++ [.max x], ok := true }

def setLimits (cfg : LCfg) (a b : Val) (s : LSt) : LSt :=
  if omittedL cfg (s.limits == (a, b)) s.limErr then { s with ok := true }
  else { s with limits := (a, b), limErr := false, evs := s.evs ++ [.limits a b], ok := true }

/-- class `l`, followed in the MRO by the classes `rest`, is the class where one of the limit parameters is defined
first (`next(b for b in reversed(cls.__mro__) if limname in b.__dict__)`) -/
def isFirstDef (l : Layer) (rest : List Layer) : Bool :=
  (l.declMin && !rest.any (·.declMin)) || (l.declMax && !rest.any (·.declMax)) ||
  (l.declLimits && !rest.any (·.declLimits))

/-- outcome of the loop over the check methods -/
structure ChkRes where
  ok : Bool                      -- no check method raised
  exc : Option ExcKind := none   -- the exception of a programmer's check method
  stopAt : Option Nat := none    -- MRO position of the programmer's check method that returned `True`
  deriving Repr, DecidableEq, Inhabited

/-- `for c in cfuncs: if c(self, value): break` with `cfuncs` = the `check_<p>` entries of the class dicts in MRO order:
the programmer's method where the class body defines one (oracle `c`, by MRO position), else the automatic
`checkLimits` call where the class defines a limit parameter first, else nothing.  `lim` = `checkLimits` does not raise. -/
def runChecks (lim : Bool) (c : List CRes) : List Layer → Nat → ChkRes
  | [], _ => { ok := true }
  | l :: rest, i =>
    if l.ownCheck then
      match c.getD i .pass with
      | .pass => runChecks lim c rest (i + 1)
      | .stop => { ok := true, stopAt := some i }
      | .fail k => { ok := false, exc := some k }
    else if isFirstDef l rest then
      if lim then runChecks lim c rest (i + 1) else { ok := false }
    else runChecks lim c rest (i + 1)

inductive LOp
  | write (x : Val) (c : List CRes) (w : WRes Val) (client : Bool := true)
      -- `change <p>` of a client (`client`) / a call of `write_<p>(x)` inside the driver; `c`: what the check methods do
  | writeMin (x : Val)
  | writeMax (x : Val)
  | writeLimits (a b : Val)
  | driverAssign (x : Val)
  | driverAssignMin (x : Val)
  | driverAssignMax (x : Val)
  | driverAssignLimits (a b : Val)
  deriving Repr, DecidableEq, Inhabited

/-- `LimitsType.validate` -/
def validLimits (cfg : LCfg) (a b : Val) : Bool := inRange cfg a && inRange cfg b && decide (a ≤ b)

def lstep (cfg : LCfg) (s : LSt) : LOp → LSt
  | .write x c w client =>
    if client && cfg.readonly then lfail s         -- `ReadOnlyError` of the dispatcher: `write_<p>` is not called
    else if !inRange cfg x then lfail s
    else if !(runChecks (checkLimits cfg s x) c cfg.layers 0).ok then
      { s with ok := false, exc := (runChecks (checkLimits cfg s x) c cfg.layers 0).exc }
    else if cfg.hasW then
      match w with
      | .fail k => { s with ok := false, exc := some k }
      | .retNone => setValue cfg x s
      | .ret y => if inRange cfg y then setValue cfg y s else lfail s
    else setValue cfg x s
  | .writeMin x => if cfg.hasMin && inRange cfg x then setMin cfg x s else lfail s
  | .writeMax x => if cfg.hasMax && inRange cfg x then setMax cfg x s else lfail s
  | .writeLimits a b =>
    if cfg.hasLimits && validLimits cfg a b then setLimits cfg a b s else lfail s
  -- driver-side assignments: `announceUpdate` converts (`datatype(value)`), it does not check ranges or the order
  | .driverAssign x => setValue cfg x s
  | .driverAssignMin x =>
    if cfg.hasMin then setMin cfg x s else lfail s
  | .driverAssignMax x =>
    if cfg.hasMax then setMax cfg x s else lfail s
  | .driverAssignLimits a b =>
    if cfg.hasLimits then setLimits cfg a b s else lfail s

def lstep1 (cfg : LCfg) (s : LSt) (op : LOp) : LSt := lstep cfg { s with evs := [], exc := none } op
def lrun (cfg : LCfg) (s : LSt) (ops : List LOp) : List LSt := Frappy.Scan.scan (lstep1 cfg) s ops
def lexec (cfg : LCfg) (s : LSt) (ops : List LOp) : LSt := ops.foldl (lstep1 cfg) s

/-- defaults of the limit parameters: the range of the datatype (`Limit.set_datatype`) -/
def linit (cfg : LCfg) (v : Val) (vErr : Bool := false) (minErr : Bool := false) (maxErr : Bool := false)
    (limErr : Bool := false) : LSt :=
  { value := v, min := cfg.lo, max := cfg.hi, limits := (cfg.lo, cfg.hi), vErr := vErr, minErr := minErr, maxErr := maxErr,
    limErr := limErr }

end Frappy.ExtParams
