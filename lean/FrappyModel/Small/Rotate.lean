/-
Model of `frappy/logging.py: LogfileHandler.doRollover` (with `mlzlog.LogfileHandler.doRollover/_open`).

A directory is the list of entry names (no duplicates).  `le` is the order `sorted()` uses on
the path strings, `isLog` says which entries are log files of this handler
(`<prefix>-….log`; the symlink `current` and foreign files are not).

    def doRollover(self):
        super().doRollover()            # close; baseFilename := prefix-<today>.log; _open() (mode 'a': creates it)
        if self.max_days:
            prefix = self._filenameprefix + '-'
            with os.scandir(dirname(self.baseFilename)) as it:
                files = sorted(entry.path for entry in it
                               if entry.name.startswith(prefix) and entry.name.endswith('.log'))
            for filepath in files[:-self.max_days]:
                os.remove(filepath)
-/
namespace Frappy.Rotate

variable {α : Type} [DecidableEq α]

/-- `_open()` with mode `'a'`: the file of today exists afterwards. -/
def openNew (dir : List α) (new : α) : List α :=
  if new ∈ dir then dir else dir ++ [new]

/-- `sorted(...)` of the log files of this handler. -/
def sortedLogs (le : α → α → Bool) (isLog : α → Bool) (dir : List α) : List α :=
  (dir.filter isLog).mergeSort le

/-- `files[:-n]` for `n > 0`. -/
def dropLastN (files : List α) (n : Nat) : List α :=
  files.take (files.length - n)

/-- the files handed to `os.remove`. -/
def removed (le : α → α → Bool) (isLog : α → Bool) (dir : List α) (n : Nat) : List α :=
  dropLastN (sortedLogs le isLog dir) n

/-- directory after `doRollover` with retention `n` (`max_days`), `new` = today's file. -/
def rollover (le : α → α → Bool) (isLog : α → Bool) (dir : List α) (new : α) (n : Nat) : List α :=
  let d := openNew dir new
  if n = 0 then d else d.filter (fun f => !(removed le isLog d n).contains f)

end Frappy.Rotate
