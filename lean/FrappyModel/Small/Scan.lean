/-
States after each operation of a history (the quiescent points): `scan f s [a, b, c] = [f s a, f (f s a) b, …]`.
Shared by the C18 models.
-/
namespace Frappy.Scan

def scan {σ α : Type} (f : σ → α → σ) (s : σ) : List α → List σ
  | [] => []
  | a :: as => f s a :: scan f (f s a) as

/-- every recorded state is the state after a non-empty prefix of the history -/
theorem mem_scan {σ α : Type} (f : σ → α → σ) (as : List α) : ∀ (s s' : σ), s' ∈ scan f s as →
    ∃ pre a post, as = pre ++ a :: post ∧ s' = f (pre.foldl f s) a := by
  induction as with
  | nil => intro s s' h; simp [scan] at h
  | cons a as ih =>
    intro s s' h
    simp only [scan, List.mem_cons] at h
    rcases h with h | h
    · exact ⟨[], a, as, rfl, by simpa using h⟩
    · obtain ⟨pre, b, post, heq, hs⟩ := ih (f s a) s' h
      exact ⟨a :: pre, b, post, by simp [heq], by simpa using hs⟩

theorem length_scan {σ α : Type} (f : σ → α → σ) (as : List α) : ∀ s, (scan f s as).length = as.length := by
  induction as with
  | nil => intro s; rfl
  | cons a as ih => intro s; simp [scan, ih]

end Frappy.Scan
