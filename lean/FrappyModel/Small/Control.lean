import FrappyModel.Small.Scan
/-
Model of the control hand-over mixins `frappy/mixins.py:26-116` (`HasControlledBy`, `HasOutputModule`).

A node with several output modules `0 … nout-1` and `n` input modules `0 … n-1`; input `i` is attached to output
`outOf i` (`output_module`), the inputs register at their output in the order of their numbers (`initModule` →
`register_input`).  Every output has its OWN registry `inputCallbacks` (an instance attribute created by the first
`register_input`).  `cb o` is the `controlled_by` of output `o` (`none` = `self`), `act i` the `control_active`
flag of input `i`.

    HasOutputModule.activate_control():    for name, deactivate in out.inputCallbacks.items():
                                               if name != self.name: deactivate(self.name)
                                           out.controlled_by = self.name
                                           self.set_control_active(True)
    HasOutputModule.deactivate_control():  if self.control_active: self.set_control_active(False)
    HasControlledBy.self_controlled():     if self.controlled_by: self.controlled_by = 0
                                               for deactivate in inputCallbacks.values(): deactivate(self.name)
    HasControlledBy.update_target(module, value):
        if self.controlled_by != module:
            deactivate_control = self.inputCallbacks.get(self.controlled_by)   # an EnumMember hashes like its
            if deactivate_control: deactivate_control(module)                   # int value: never found
        self.target = value

Quirk transcribed: `inputCallbacks` is keyed by module *names*, `self.controlled_by` is an `EnumMember`
whose hash is the hash of its integer value, so the lookup in `update_target` never finds a callback and
nobody is switched off there.
-/
namespace Frappy.Control

/-- the wiring of a node -/
structure Cfg where
  n : Nat                 -- number of input modules
  nout : Nat              -- number of output modules
  outOf : Nat → Nat       -- the output an input is attached to
  omitUnch : Bool := false  -- `omit_unchanged_within`: 0 (false) or longer than the whole history (true): an assignment of
                            -- the value a parameter already has sends no update then

inductive Ev
  | cb (o : Nat) (c : Option Nat)     -- update of `controlled_by` of output `o`
  | act (i : Nat) (b : Bool)          -- update of `control_active` of input `i`
  deriving Repr, DecidableEq, Inhabited

structure St where
  cb : Nat → Option Nat
  act : Nat → Bool
  cbP : Nat → Bool := fun _ => false    -- the next update of `controlled_by` of output `o` cannot be omitted (never announced / error)
  actP : Nat → Bool := fun _ => false   -- the same for `control_active` of input `i`
  evs : List Ev := []
  ok : Bool := true

def emit (s : St) (e : Ev) : St := { s with evs := s.evs ++ [e] }

/-- the registry of output `o`: the names of its inputs in registration order -/
def inputsOf (cfg : Cfg) (o : Nat) : List Nat := (List.range cfg.n).filter (fun i => cfg.outOf i == o)

/-- `deactivate_control` of input `i` -/
def deactivate (i : Nat) (s : St) : St :=
  if s.act i then emit { s with act := fun j => if j = i then false else s.act j,
                                actP := fun j => if j = i then false else s.actP j } (.act i false) else s

/-- the loop over an `inputCallbacks` registry (registration order), skipping `skip` -/
def deactivateAll (skip : Option Nat) : List Nat → St → St
  | [], s => s
  | i :: is, s => deactivateAll skip is (if skip = some i then s else deactivate i s)

/-- `out.controlled_by = c` -/
def setCb (cfg : Cfg) (o : Nat) (c : Option Nat) (s : St) : St :=
  { s with cb := fun o' => if o' = o then c else s.cb o', cbP := fun o' => if o' = o then false else s.cbP o',
           evs := if cfg.omitUnch && s.cb o == c && !s.cbP o then s.evs else s.evs ++ [.cb o c] }

/-- `set_control_active(True)` of input `k` -/
def setActive (cfg : Cfg) (k : Nat) (s : St) : St :=
  { s with act := fun j => if j = k then true else s.act j, actP := fun j => if j = k then false else s.actP j,
           evs := if cfg.omitUnch && s.act k && !s.actP k then s.evs else s.evs ++ [.act k true] }

/-- `activate_control` of input `k` -/
def activate (cfg : Cfg) (k : Nat) (s : St) : St :=
  let s1 := deactivateAll (some k) (inputsOf cfg (cfg.outOf k)) s
  setActive cfg k (setCb cfg (cfg.outOf k) (some k) s1)

/-- `self_controlled` of output `o` -/
def selfControlled (cfg : Cfg) (o : Nat) (s : St) : St :=
  match s.cb o with
  | none => s
  | some _ => deactivateAll none (inputsOf cfg o) (setCb cfg o none s)

inductive Op
  | writeIn (k : Nat) (guarded : Bool)   -- client `change in_k:target`; the body calls activate_control (guarded: only if not active)
  | writeOut (o : Nat)                    -- client `change out_o:target`; the body calls self_controlled
  | activate (k : Nat)                    -- driver-side calls
  | deactivate (k : Nat)
  | selfControlled (o : Nat)
  | updateTarget (o : Nat) (k : Nat)      -- `out_o.update_target(in_k.name, v)`
  deriving Repr, DecidableEq, Inhabited

def validIn (cfg : Cfg) (k : Nat) : Bool := decide (k < cfg.n) && decide (cfg.outOf k < cfg.nout)

def step (cfg : Cfg) (s : St) : Op → St
  | .writeIn k guarded =>
    if validIn cfg k then (if guarded && s.act k then s else activate cfg k s) else { s with ok := false }
  | .writeOut o => if o < cfg.nout then selfControlled cfg o s else { s with ok := false }
  | .activate k => if validIn cfg k then activate cfg k s else { s with ok := false }
  | .deactivate k => if validIn cfg k then deactivate k s else { s with ok := false }
  | .selfControlled o => if o < cfg.nout then selfControlled cfg o s else { s with ok := false }
  | .updateTarget o k =>
    -- an output nobody registered at still has the class attribute `inputCallbacks = ()`: `().get` raises
    if o < cfg.nout && validIn cfg k && !(inputsOf cfg o).isEmpty then s else { s with ok := false }

/-- one operation of a history: the update stream and the outcome flag are per operation -/
def step1 (cfg : Cfg) (s : St) (op : Op) : St := step cfg { s with evs := [], ok := true } op

/-- states after each operation (the quiescent points) -/
def run (cfg : Cfg) (s : St) (ops : List Op) : List St := Frappy.Scan.scan (step1 cfg) s ops

/-- state after a whole history -/
def exec (cfg : Cfg) (s : St) (ops : List Op) : St := ops.foldl (step1 cfg) s

def init : St := { cb := fun _ => none, act := fun _ => false }

end Frappy.Control
