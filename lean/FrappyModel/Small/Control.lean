import FrappyModel.Small.Scan
/-
Model of the control hand-over mixins `frappy/mixins.py:26-116` (`HasControlledBy`, `HasOutputModule`).

One output module and `n` input modules `0 … n-1` (registered in this order by `register_input`).
`cb` is the output's `controlled_by` (`none` = `self`), `act i` the `control_active` flag of input `i`.

    HasOutputModule.activate_control():    for name, deactivate in out.inputCallbacks.items():
                                               if name != self.name: deactivate(self.name)
                                           out.controlled_by = self.name
                                           self.set_control_active(True)
    HasOutputModule.deactivate_control():  if self.control_active: self.set_control_active(False)
    HasControlledBy.self_controlled():     if self.controlled_by: self.controlled_by = 0
                                               for deactivate in inputCallbacks.values(): deactivate(self.name)
    HasControlledBy.update_target(module, value):
        if self.controlled_by != module:
            deactivate_control = self.inputCallbacks.get(self.controlled_by)   # an EnumMember hashes like its
            if deactivate_control: deactivate_control(module)                   # int value: never found
        self.target = value

Quirk transcribed: `inputCallbacks` is keyed by module *names*, `self.controlled_by` is an `EnumMember`
whose hash is the hash of its integer value, so the lookup in `update_target` never finds a callback and
nobody is switched off there.
-/
namespace Frappy.Control

inductive Ev
  | cb (c : Option Nat)               -- update of `controlled_by`
  | act (i : Nat) (b : Bool)          -- update of `control_active` of input `i`
  deriving Repr, DecidableEq, Inhabited

structure St where
  cb : Option Nat
  act : Nat → Bool
  evs : List Ev := []
  ok : Bool := true

def emit (s : St) (e : Ev) : St := { s with evs := s.evs ++ [e] }

/-- `deactivate_control` of input `i` -/
def deactivate (i : Nat) (s : St) : St :=
  if s.act i then emit { s with act := fun j => if j = i then false else s.act j } (.act i false) else s

/-- the loop over `inputCallbacks` (registration order), skipping `skip` -/
def deactivateAll (skip : Option Nat) : List Nat → St → St
  | [], s => s
  | i :: is, s => deactivateAll skip is (if skip = some i then s else deactivate i s)

/-- `activate_control` of input `k` -/
def activate (n k : Nat) (s : St) : St :=
  let s1 := deactivateAll (some k) (List.range n) s
  let s2 := emit { s1 with cb := some k } (.cb (some k))
  emit { s2 with act := fun j => if j = k then true else s2.act j } (.act k true)

/-- `self_controlled` of the output -/
def selfControlled (n : Nat) (s : St) : St :=
  match s.cb with
  | none => s
  | some _ => deactivateAll none (List.range n) (emit { s with cb := none } (.cb none))

inductive Op
  | writeIn (k : Nat) (guarded : Bool)   -- client `change in_k:target`; the body calls activate_control (guarded: only if not active)
  | writeOut                              -- client `change out:target`; the body calls self_controlled
  | activate (k : Nat)                    -- driver-side calls
  | deactivate (k : Nat)
  | selfControlled
  | updateTarget (k : Nat)                -- `out.update_target(in_k.name, v)`
  deriving Repr, DecidableEq, Inhabited

def step (n : Nat) (s : St) : Op → St
  | .writeIn k guarded =>
    if k < n then (if guarded && s.act k then s else activate n k s) else { s with ok := false }
  | .writeOut => selfControlled n s
  | .activate k => if k < n then activate n k s else { s with ok := false }
  | .deactivate k => if k < n then deactivate k s else { s with ok := false }
  | .selfControlled => selfControlled n s
  | .updateTarget k => if k < n then s else { s with ok := false }

/-- one operation of a history: the update stream and the outcome flag are per operation -/
def step1 (n : Nat) (s : St) (op : Op) : St := step n { s with evs := [], ok := true } op

/-- states after each operation (the quiescent points) -/
def run (n : Nat) (s : St) (ops : List Op) : List St := Frappy.Scan.scan (step1 n) s ops

/-- state after a whole history -/
def exec (n : Nat) (s : St) (ops : List Op) : St := ops.foldl (step1 n) s

def init : St := { cb := none, act := fun _ => false }

end Frappy.Control
