import FrappyModel.Small.Scan
/-
Model of the control hand-over mixins `frappy/mixins.py:26-116` (`HasControlledBy`, `HasOutputModule`).

A node with several output modules `0 … nout-1` and `n` input modules `0 … n-1`; input `i` is attached to output
`outOf i` (`output_module`), the inputs register at their output in the order of their numbers (`initModule` →
`register_input`).  Every output has its OWN registry `inputCallbacks` (an instance attribute created by the first
`register_input`).  `cb o` is the `controlled_by` of output `o` (`none` = `self`), `act i` the `control_active`
flag of input `i`.

    HasOutputModule.activate_control():    for name, deactivate in out.inputCallbacks.items():
                                               if name != self.name: deactivate(self.name)
                                           out.controlled_by = self.name
                                           self.set_control_active(True)
    HasOutputModule.deactivate_control():  if self.control_active: self.set_control_active(False)
    HasOutputModule.set_control_active(active):  self.control_active = active     # "to be overridden for switching hw control"
    HasControlledBy.self_controlled():     if self.controlled_by:
                                               for deactivate in inputCallbacks.values(): deactivate(self.name)
                                               self.controlled_by = 0            # (repaired code: after the loop)
    HasControlledBy.update_target(module, value):
        if self.controlled_by != module:
            deactivate_control = self.inputCallbacks.get(self.controlled_by)   # an EnumMember hashes like its
            if deactivate_control: deactivate_control(module)                   # int value: never found
        self.target = value

Quirk transcribed: `inputCallbacks` is keyed by module *names*, `self.controlled_by` is an `EnumMember`
whose hash is the hash of its integer value, so the lookup in `update_target` never finds a callback and
nobody is switched off there.
-/
namespace Frappy.Control

/-- the wiring of a node -/
structure Cfg where
  n : Nat                 -- number of input modules
  nout : Nat              -- number of output modules
  outOf : Nat → Nat       -- the output an input is attached to
  omitUnch : Bool := false  -- `omit_unchanged_within`: 0 (false) or longer than the whole history (true): an assignment of
                            -- the value a parameter already has sends no update then

inductive Ev
  | cb (o : Nat) (c : Option Nat)     -- update of `controlled_by` of output `o`
  | act (i : Nat) (b : Bool)          -- update of `control_active` of input `i`
  deriving Repr, DecidableEq, Inhabited

structure St where
  cb : Nat → Option Nat
  act : Nat → Bool
  cbP : Nat → Bool := fun _ => false    -- the next update of `controlled_by` of output `o` cannot be omitted (never announced / error)
  actP : Nat → Bool := fun _ => false   -- the same for `control_active` of input `i`
  evs : List Ev := []
  ok : Bool := true

def emit (s : St) (e : Ev) : St := { s with evs := s.evs ++ [e] }

/-- the registry of output `o`: the names of its inputs in registration order -/
def inputsOf (cfg : Cfg) (o : Nat) : List Nat := (List.range cfg.n).filter (fun i => cfg.outOf i == o)

/-- what `set_control_active(active)` of an input does.  The mixin's method only marks the module
(`self.control_active = active`); it is documented as "to be overridden for switching hw control", and switching hardware
can fail: the driver's method marks the module (`super().set_control_active(active)`) and returns, or raises — before the
flag was changed (hardware first) or after it (flag first).  An oracle, like every driver body. -/
inductive SRes
  | ok
  | failBefore
  | failAfter
  deriving Repr, DecidableEq, Inhabited

/-- the outcomes of the `set_control_active` calls of ONE operation, by input and direction (every input is asked at most
once per direction in one operation) -/
abbrev Faults := Nat → Bool → SRes

def noFaults : Faults := fun _ _ => .ok

/-- `self.control_active = b` of input `i` -/
def mark (cfg : Cfg) (i : Nat) (b : Bool) (s : St) : St :=
  { s with act := fun j => if j = i then b else s.act j, actP := fun j => if j = i then false else s.actP j,
           evs := if cfg.omitUnch && (s.act i == b) && !s.actP i then s.evs else s.evs ++ [.act i b] }

/-- `set_control_active(b)` of input `i`; `ok = false`: the exception is on its way out of the operation -/
def setAct (cfg : Cfg) (f : Faults) (i : Nat) (b : Bool) (s : St) : St :=
  match f i b with
  | .ok => mark cfg i b s
  | .failBefore => { s with ok := false }
  | .failAfter => { mark cfg i b s with ok := false }

/-- `deactivate_control` of input `i` -/
def deactivate (cfg : Cfg) (f : Faults) (i : Nat) (s : St) : St :=
  if s.act i then setAct cfg f i false s else s

/-- the loop over an `inputCallbacks` registry (registration order), skipping `skip`; an exception ends it -/
def deactivateAll (cfg : Cfg) (f : Faults) (skip : Option Nat) : List Nat → St → St
  | [], s => s
  | i :: is, s =>
    if !s.ok then s else deactivateAll cfg f skip is (if skip = some i then s else deactivate cfg f i s)

/-- `out.controlled_by = c` -/
def setCb (cfg : Cfg) (o : Nat) (c : Option Nat) (s : St) : St :=
  { s with cb := fun o' => if o' = o then c else s.cb o', cbP := fun o' => if o' = o then false else s.cbP o',
           evs := if cfg.omitUnch && s.cb o == c && !s.cbP o then s.evs else s.evs ++ [.cb o c] }

/-- `activate_control` of input `k`: the others are switched off first; only when that went through the output is renamed
and `k` switched on -/
def activate (cfg : Cfg) (f : Faults) (k : Nat) (s : St) : St :=
  let s1 := deactivateAll cfg f (some k) (inputsOf cfg (cfg.outOf k)) s
  if !s1.ok then s1 else setAct cfg f k true (setCb cfg (cfg.outOf k) (some k) s1)

/-- `self_controlled` of output `o` (repaired code: the inputs are switched off first, then the output names itself) -/
def selfControlled (cfg : Cfg) (f : Faults) (o : Nat) (s : St) : St :=
  match s.cb o with
  | none => s
  | some _ =>
    let s1 := deactivateAll cfg f none (inputsOf cfg o) s
    if !s1.ok then s1 else setCb cfg o none s1

inductive Op
  | writeIn (k : Nat) (guarded : Bool)   -- client `change in_k:target`; the body calls activate_control (guarded: only if not active)
  | writeOut (o : Nat)                    -- client `change out_o:target`; the body calls self_controlled
  | activate (k : Nat)                    -- driver-side calls
  | deactivate (k : Nat)
  | selfControlled (o : Nat)
  | updateTarget (o : Nat) (k : Nat)      -- `out_o.update_target(in_k.name, v)`
  deriving Repr, DecidableEq, Inhabited

def validIn (cfg : Cfg) (k : Nat) : Bool := decide (k < cfg.n) && decide (cfg.outOf k < cfg.nout)

def step (cfg : Cfg) (f : Faults) (s : St) : Op → St
  | .writeIn k guarded =>
    if validIn cfg k then (if guarded && s.act k then s else activate cfg f k s) else { s with ok := false }
  | .writeOut o => if o < cfg.nout then selfControlled cfg f o s else { s with ok := false }
  | .activate k => if validIn cfg k then activate cfg f k s else { s with ok := false }
  | .deactivate k => if validIn cfg k then deactivate cfg f k s else { s with ok := false }
  | .selfControlled o => if o < cfg.nout then selfControlled cfg f o s else { s with ok := false }
  | .updateTarget o k =>
    -- an output nobody registered at still has the class attribute `inputCallbacks = ()`: `().get` raises
    if o < cfg.nout && validIn cfg k && !(inputsOf cfg o).isEmpty then s else { s with ok := false }

/-- one operation of a history, with what the `set_control_active` methods do during it: the update stream and the outcome
flag are per operation -/
def step1 (cfg : Cfg) (s : St) (op : Op × Faults) : St := step cfg op.2 { s with evs := [], ok := true } op.1

/-- states after each operation (the quiescent points) -/
def run (cfg : Cfg) (s : St) (ops : List (Op × Faults)) : List St := Frappy.Scan.scan (step1 cfg) s ops

/-- state after a whole history -/
def exec (cfg : Cfg) (s : St) (ops : List (Op × Faults)) : St := ops.foldl (step1 cfg) s

/-- a history in which no `set_control_active` fails -/
def plain (ops : List Op) : List (Op × Faults) := ops.map (fun op => (op, noFaults))

def init : St := { cb := fun _ => none, act := fun _ => false }

end Frappy.Control
