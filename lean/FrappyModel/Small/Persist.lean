/-
Model of `frappy/persistent.py` (PersistentMixin), as repaired by the `fix:` commits listed in
`known_findings/C17.json`, with the parts of `frappy/modulebase.py` it relies on
(`_handle_writes` 468-505: `given`, `writeDict`; `announceUpdate` 547-551: callbacks, exceptions
swallowed; `writeInitParams` 797-821).

    def __save_params(self):                                                  # persistent.py 149-168
        data = {k: v.export_value() for k, v in self.parameters.items() if getattr(v, 'persistent', False)}
        if data != self.persistentData:
            ... tmpfile = <target> + '.tmp' ...
            try:
                with open(tmpfile, 'w', encoding='utf-8') as f:               # op 0            open (create / truncate)
                    json.dump(data, f, indent=2)                              #   f.write(chunk) each: into the buffers of the
                    f.write('\n')                                             #   text file; ops 1..n = what the buffered writer
                                                                              #   hands to the descriptor, whenever it does
                                                                              #   (at the latest when `__exit__` flushes)
                                                                              # op n+1          close of the descriptor (__exit__)
                os.rename(tmpfile, self.persistentFile)                       # op n+2          rename
                self.persistentData = data                                    # believed := data, only now
            finally:
                try: os.remove(tmpfile)                                       # op n+3          remove
                except FileNotFoundError: pass

The file system is a partial map `Path ⇀ Bytes`.  Durability is modelled at the granularity of the operations that
reach the operating system: `open`, every `write` on the file descriptor, its `close`, `rename`, `remove`.  `f` is
Python's buffered text file: the text of the snapshot reaches the descriptor in chunks chosen by the buffer layers
(for a small file: one write, issued by `__exit__`), so `chunks` below is *any* list whose concatenation is the text -
the theorems quantify over it, the driver receives the chunking recorded from Python's `io` for the buffer sizes in
use.  What matters for the order of operations is only that all writes precede the `close`, and the `close` precedes
the `rename` (the `with` block ends before `os.rename`).  After a failing write the file object is closed on the way
out and may write again (`Fault.after`).  `rename` is atomic, nothing is reordered (the code issues no fsync; page-cache
write-back and power-loss reordering of data and metadata are outside this model).
-/
namespace Frappy.Persist

abbrev Bytes := List UInt8

/-! ## file system -/
section fs
variable {P : Type} [DecidableEq P]

/-- `Path ⇀ Bytes` -/
abbrev FS (P : Type) := P → Option Bytes

def FS.set (fs : FS P) (p : P) (c : Option Bytes) : FS P := fun q => if q = p then c else fs q

inductive FsOp (P : Type)
  | openTrunc (p : P)                  -- open(p, 'w'): create or truncate
  | write (p : P) (chunk : Bytes)      -- f.write(chunk): append
  | close (p : P)
  | rename (src dst : P)               -- os.rename: atomic replace
  | remove (p : P)                     -- os.remove
  deriving DecidableEq, Repr

def applyOp (fs : FS P) : FsOp P → FS P
  | .openTrunc p => fs.set p (some [])
  | .write p c => match fs p with
    | some b => fs.set p (some (b ++ c))
    | none => fs
  | .close _ => fs
  | .rename s d => match fs s with
    | some b => (fs.set d (some b)).set s none
    | none => fs                                   -- FileNotFoundError, nothing happens
  | .remove p => fs.set p none                     -- absent: FileNotFoundError, caught by the code

def applyOps (fs : FS P) (ops : List (FsOp P)) : FS P := ops.foldl applyOp fs

/-- An operation as it happened: `failed = true` means it raised `OSError`.  A failed operation has
no effect, except a failed `write`, whose `chunk` is then the part that reached the file before the
error (possibly empty). -/
structure Ev (P : Type) where
  op : FsOp P
  failed : Bool
  deriving DecidableEq, Repr

def failEffect (fs : FS P) : FsOp P → FS P
  | .write p part => applyOp fs (.write p part)
  | _ => fs

def applyEv (fs : FS P) (e : Ev P) : FS P :=
  if e.failed then failEffect fs e.op else applyOp fs e.op

def applyEvs (fs : FS P) (evs : List (Ev P)) : FS P := evs.foldl applyEv fs

/-- the operations of one successful save, in the order the code issues them -/
def saveOps (tgt tmp : P) (chunks : List Bytes) : List (FsOp P) :=
  .openTrunc tmp :: (chunks.map (.write tmp) ++ [.close tmp, .rename tmp tgt, .remove tmp])

/-- an injected error: operation number `idx` (0 = the `open`) of the save raises `OSError`.  If it is a write, `part`
is what it wrote before failing, and `after` are the writes the file object still issues when it is closed on the way
out - Python's buffered writer keeps what it could not write and tries again in `close()`; what exactly it writes
then is its business (any list of chunks), and each of these writes may fail in turn (`true`: a full disk does not
go away): the pair is (what reached the file, it raised). -/
structure Fault where
  idx : Nat
  part : Bytes
  after : List (Bytes × Bool)
  cleanup : Bool          -- a second fault in the clean-up: the `os.remove` of the `finally` fails as well (not FileNotFoundError)
  deriving DecidableEq, Repr

def okEv (o : FsOp P) : Ev P := ⟨o, false⟩
def badEv (o : FsOp P) : Ev P := ⟨o, true⟩

/-- the events of one call and how it ended -/
structure Run (P : Type) where
  evs : List (Ev P)
  renamed : Bool          -- the rename happened: the new snapshot is the target now
  raised : Bool           -- an `OSError` leaves `__save_params`

def Run.cons (e : Ev P) (r : Run P) : Run P := { r with evs := e :: r.evs }

/-- fault counter: `some j` = `j` more operations succeed, the next one raises; `none` = no fault -/
def tick : Option Nat → Option Nat
  | some (j + 1) => some j
  | _ => none

/-- the `os.remove(tmpfile)` of the `finally` after something else has failed; `cl = true`: it fails, too (and its error
is the one that leaves the call) -/
def rmEv (tmp : P) (cl : Bool) : Ev P := ⟨.remove tmp, cl⟩

/-- after the last write: `__exit__` closes, `os.rename`, then `finally: os.remove`.  A failing close or
rename skips to the `finally`; a failing remove (other than FileNotFoundError) propagates. -/
def tailRun (tgt tmp : P) (cl : Bool) : Option Nat → Run P
  | some 0 => ⟨[badEv (.close tmp), rmEv tmp cl], false, true⟩
  | some 1 => ⟨[okEv (.close tmp), badEv (.rename tmp tgt), rmEv tmp cl], false, true⟩
  | some 2 => ⟨[okEv (.close tmp), okEv (.rename tmp tgt), badEv (.remove tmp)], true, true⟩
  | _ => ⟨[okEv (.close tmp), okEv (.rename tmp tgt), okEv (.remove tmp)], true, false⟩

/-- the events of a write that failed and what follows it: the `with` block is left (the file object may write
again what it still holds, then closes), then the `finally` (remove) -/
def failedWrite (tmp : P) (part : Bytes) (after : List (Bytes × Bool)) (cl : Bool) : List (Ev P) :=
  badEv (.write tmp part) :: (after.map (fun c => ⟨.write tmp c.1, c.2⟩) ++ [okEv (.close tmp), rmEv tmp cl])

/-- the writes by which the text of `json.dump` and the final newline reach the file descriptor (inside the `with`
block or when `__exit__` flushes: both come before the `close` of the descriptor); a failing write leaves the
`with` block -/
def writesRun (tgt tmp : P) (part : Bytes) (after : List (Bytes × Bool)) (cl : Bool) : List Bytes → Option Nat → Run P
  | [], k => tailRun tgt tmp cl k
  | c :: cs, k =>
    match k with
    | some 0 => ⟨failedWrite tmp part after cl, false, true⟩
    | _ => (writesRun tgt tmp part after cl cs (tick k)).cons (okEv (.write tmp c))

/-- one call of the writing part of `__save_params` under an optional fault; a failing `open` goes
straight to the `finally` -/
def saveRun (tgt tmp : P) (chunks : List Bytes) (fault : Option Fault) : Run P :=
  match fault with
  | none => (writesRun tgt tmp [] [] false chunks none).cons (okEv (.openTrunc tmp))
  | some f =>
    match f.idx with
    | 0 => ⟨[badEv (.openTrunc tmp), rmEv tmp f.cleanup], false, true⟩
    | j + 1 => (writesRun tgt tmp f.part f.after f.cleanup chunks (some j)).cons (okEv (.openTrunc tmp))

end fs

/-! ## the "believed saved" snapshot -/

/-- result of one call of `__save_params` -/
structure SaveOut (P D : Type) where
  believed : D            -- `persistentData` afterwards
  evs : List (Ev P)       -- file operations performed
  raised : Bool

/-- `__save_params`: `same` is Python's `==` on the exported dictionaries, `ser` the chunks
`json.dump(data, f, indent=2)` and `f.write('\n')` hand to `f.write` -/
def saveStep {P D : Type} [DecidableEq P] (same : D → D → Bool) (ser : D → List Bytes) (tgt tmp : P)
    (believed : D) (data : D) (fault : Option Fault) : SaveOut P D :=
  if same data believed then ⟨believed, [], false⟩
  else
    let r := saveRun tgt tmp (ser data) fault
    ⟨if r.renamed then data else believed, r.evs, r.raised⟩

/-! ## loading -/

/-- what `json.load` can return -/
inductive JV (N : Type)
  | null
  | bool (b : Bool)
  | num (n : N)
  | str (s : String)
  | arr (l : List (JV N))
  | obj (kv : List (String × JV N))

abbrev Dict (N : Type) := List (String × JV N)

/-- first half of `loadPersistentData` (98-107): `parse b = none` stands for `ValueError`
(`UnicodeDecodeError`, `JSONDecodeError`) or `RecursionError`; JSON that is not an object counts as corrupt -/
def loadRaw {N : Type} (parse : Bytes → Option (JV N)) (file : Option Bytes) : Dict N :=
  match file with
  | none => []
  | some b =>
    match parse b with
    | some (.obj kv) => kv
    | _ => []

/-- a parameter of the module as far as persistence is concerned -/
structure Param (V : Type) where
  name : String
  persistent : Bool       -- flag `on` or `auto`
  auto : Bool             -- flag `auto`: saved by a callback on every change
  given : Bool            -- a value was given in the configuration (or as Parameter argument)
  hasWrite : Bool         -- `hasattr(self, 'write_' + pname)`: every writable parameter has the generated wrapper
  driver : Bool           -- the class defines a write method of its own (its calls are the driver write log)
  value : V

def findParam {V : Type} (ps : List (Param V)) (name : String) : Option (Param V) :=
  ps.find? (fun p => p.name == name)

/-- loop body of `loadPersistentData` (108-118): `imp` is `datatype(datatype.import_value(value))`
(`none` = it raised); an unknown name is a `KeyError`, caught like everything else -/
def importEntry {N V : Type} (ps : List (Param V)) (imp : String → JV N → Option V) (e : String × JV N) :
    Option (String × V) :=
  match findParam ps e.1 with
  | some p => if p.persistent then (imp e.1 e.2).map (fun v => (e.1, v)) else none
  | none => none

def loadEntries {N V : Type} (ps : List (Param V)) (imp : String → JV N → Option V) (raw : Dict N) :
    List (String × V) :=
  raw.filterMap (importEntry ps imp)

/-! ## module state -/

/-- Python `d[k] = v` on an insertion-ordered dict -/
def dset {V : Type} (d : List (String × V)) (k : String) (v : V) : List (String × V) :=
  match d with
  | [] => [(k, v)]
  | (k', v') :: rest => if k' == k then (k, v) :: rest else (k', v') :: dset rest k v

def setValue {V : Type} (ps : List (Param V)) (name : String) (v : V) : List (Param V) :=
  ps.map (fun p => if p.name == name then { p with value := v } else p)

/-- the external functions (datatypes, json, Python `==`) and the two paths -/
structure Env (P N V : Type) where
  tgt : P
  tmp : P
  parse : Bytes → Option (JV N)          -- decode + json.load
  ser : Dict N → List Bytes              -- json.dump chunks + newline, utf-8
  same : Dict N → Dict N → Bool          -- Python ==
  imp : String → JV N → Option V         -- datatype(datatype.import_value(·)) of the named parameter
  exp : String → V → JV N                -- datatype.export_value
  wval : String → V → Option V           -- datatype.validate inside the write wrapper (`none` = it raised)

structure MState (N V : Type) where
  params : List (Param V)
  writeDict : List (String × V)
  believed : Dict N                      -- persistentData
  initData : List (String × V)
  hooks : List String                    -- the names `n` for which `paramCallbacks[n]` holds `self.saveParameters`

/-- `{k: v.export_value() for persistent parameters}` -/
def exportAll {P N V : Type} (env : Env P N V) (ps : List (Param V)) : Dict N :=
  (ps.filter (·.persistent)).map (fun p => (p.name, env.exp p.name p.value))

/-- start-up loop body (83-94): value of one parameter after `__init__` -/
def startParam {V : Type} (loaded : List (String × V)) (p : Param V) : Param V :=
  if p.persistent && !p.given then
    match loaded.lookup p.name with
    | some v => { p with value := v }
    | none => p
  else p

/-- start-up loop body: registration for writing to the hardware (92-94) -/
def startWrite {V : Type} (wd : List (String × V)) (p : Param V) : List (String × V) :=
  if p.persistent && !p.given && p.hasWrite then dset wd p.name p.value else wd

structure StepOut (P N V : Type) where
  ms : MState N V
  evs : List (Ev P)                      -- file operations (write side)
  writes : List (String × V)             -- calls of write_<pname> (driver log)
  raised : Bool                          -- an OSError left the call

section machine
variable {P N V : Type} [DecidableEq P]

def doSave (env : Env P N V) (ms : MState N V) (fault : Option Fault) : StepOut P N V :=
  let o := saveStep env.same env.ser env.tgt env.tmp ms.believed (exportAll env ms.params) fault
  ⟨{ ms with believed := o.believed }, o.evs, [], o.raised⟩

/-- `saveParameters` (134-147): nothing while configured writes are pending -/
def saveParameters (env : Env P N V) (ms : MState N V) (fault : Option Fault) : StepOut P N V :=
  if ms.writeDict.isEmpty then doSave env ms fault else ⟨ms, [], [], false⟩

/-- `announceUpdate` of a valid value (modulebase 547-583): store it, then call what is registered in
`paramCallbacks[pname]` - for persistence that is `saveParameters`, registered by `addCallback` in
`PersistentMixin.__init__` for the `auto` parameters.  An exception of a callback is swallowed (`except Exception:
pass`), and the callback **stays registered**: `hooks` is not touched, so a save that failed is tried again at the
next update. -/
def announce (env : Env P N V) (ms : MState N V) (name : String) (v : V) (fault : Option Fault) :
    StepOut P N V :=
  let ms1 := { ms with params := setValue ms.params name v }
  match findParam ms.params name with
  | some _ =>
    if ms.hooks.contains name then
      let o := saveParameters env ms1 fault
      ⟨o.ms, o.evs, [], false⟩
    else ⟨ms1, [], [], false⟩
  | none => ⟨ms, [], [], false⟩

/-- a fault is consumed by the first save that touches the disk -/
def restFault (evs : List (Ev P)) (fault : Option Fault) : Option Fault :=
  if evs.isEmpty then fault else none

/-- `writeInitParams` (797-821) over the snapshot `list(self.writeDict)`; the write methods accept and
return the value -/
def writeInitLoop (env : Env P N V) : List String → MState N V → Option Fault → StepOut P N V
  | [], ms, _ => ⟨ms, [], [], false⟩
  | k :: ks, ms, fault =>
    match ms.writeDict.lookup k with
    | none => writeInitLoop env ks ms fault
    | some v =>
      let ms1 := { ms with writeDict := ms.writeDict.filter (fun e => !(e.1 == k)) }
      let hw := match findParam ms.params k with
        | some p => p.hasWrite
        | none => false
      let drv := match findParam ms.params k with
        | some p => p.driver
        | none => false
      -- with a write method: validate, call it, announce what it returned; a rejected value is only logged
      let wv := if hw then env.wval k v else some v
      let o := match wv with
        | some v' => announce env ms1 k v' fault
        | none => ⟨ms1, [], [], false⟩
      let r := writeInitLoop env ks o.ms (restFault o.evs fault)
      ⟨r.ms, o.evs ++ r.evs, (match wv with
        | some v' => if hw && drv then [(k, v')] else []
        | none => []) ++ r.writes, false⟩

def writeInit (env : Env P N V) (ms : MState N V) (fault : Option Fault) : StepOut P N V :=
  writeInitLoop env (ms.writeDict.map (·.1)) ms fault

/-- loop of `loadParameters` after the repair (C05): `self.writeDict.update(loaded)` — every loaded value is handed
to `writeInitParams`, which writes it or assigns it (both through `announceUpdate`); nothing is stored directly -/
def applyLoaded (ms : MState N V) : List (String × V) → MState N V
  | [] => ms
  | (k, v) :: rest => applyLoaded { ms with writeDict := dset ms.writeDict k v } rest

/-- `loadParameters` (118-132); `file` is the content of the target file now -/
def loadParameters (env : Env P N V) (ms : MState N V) (file : Option Bytes) (fault : Option Fault) :
    StepOut P N V :=
  let raw := loadRaw env.parse file
  let ms1 := applyLoaded { ms with believed := raw } (loadEntries ms.params env.imp raw)
  writeInit env ms1 fault

/-- `factory_reset` (170-173) -/
def factoryReset (env : Env P N V) (ms : MState N V) (fault : Option Fault) : StepOut P N V :=
  writeInit env { ms with writeDict := ms.initData.foldl (fun d e => dset d e.1 e.2) ms.writeDict } fault

/-- `addCallback(pname, self.saveParameters)` for every parameter whose flag is `auto` (84-86) -/
def autoNames (ps : List (Param V)) : List String :=
  (ps.filter (fun p => p.persistent && p.auto)).map (·.name)

/-- `PersistentMixin.__init__` (76-95) after `Module.__init__` produced `ps` (values = configured value or
default, `given` set) and `wd0` (the configured values to be written) -/
def startUp (env : Env P N V) (ps : List (Param V)) (wd0 : List (String × V)) (file : Option Bytes)
    (fault : Option Fault) : StepOut P N V :=
  let raw := loadRaw env.parse file
  let loaded := loadEntries ps env.imp raw
  let ps1 := ps.map (startParam loaded)
  let ms : MState N V :=
    { params := ps1,
      writeDict := ps1.foldl startWrite wd0,
      believed := raw,
      initData := (ps.filter (·.persistent)).map (fun p => (p.name, p.value)),
      hooks := autoNames ps }
  doSave env ms fault

inductive Act (V : Type)
  | set (name : String) (v : V)         -- announceUpdate(name, v)
  | save                                -- saveParameters()
  | writeInit                           -- writeInitParams()
  | load                                -- loadParameters()
  | factoryReset
  | seterr (name : String)              -- announceUpdate(name, err=e): a read error (or a value the datatype refuses)

/-- one action of a history on the world (module state, disk) -/
def act (env : Env P N V) (ms : MState N V) (file : Option Bytes) (a : Act V) (fault : Option Fault) :
    StepOut P N V :=
  match a with
  | .set n v => announce env ms n v fault
  | .save => saveParameters env ms fault
  | .writeInit => writeInit env ms fault
  | .load => loadParameters env ms file fault
  | .factoryReset => factoryReset env ms fault
  -- the value stays; the callbacks are called with two arguments `(value, err)`, which `saveParameters(self, _=None)`
  -- does not take: the `TypeError` is swallowed like any exception of a callback, nothing is saved, the callback stays
  | .seterr _ => ⟨ms, [], [], false⟩

structure World (P N V : Type) where
  ms : MState N V
  fs : FS P

def World.step (env : Env P N V) (w : World P N V) (a : Act V × Option Fault) : World P N V :=
  let o := act env w.ms (w.fs env.tgt) a.1 a.2
  ⟨o.ms, applyEvs w.fs o.evs⟩

def World.run (env : Env P N V) (w : World P N V) (h : List (Act V × Option Fault)) : World P N V :=
  h.foldl (World.step env) w

end machine

end Frappy.Persist
