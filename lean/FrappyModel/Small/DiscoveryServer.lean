import FrappyModel.Small.Discovery
/-
Model of the part of `frappy/server.py: Server.run / restart` that decides which interfaces the
discovery responder is constructed with (after the repairs listed in `known_findings/C19.json`).

    def run(self):
        while self._restart:
            self._restart = False
            ...
            self.interfaces = {}                                   # (A) per round
            ...
            for interface in interfaces:                           # one thread per configured interface:
                mkthread(self._interfaceThread, opts, lock, failed, interfaces, ...)
            interfaces_started.wait()
            ...
            if not self.interfaces:
                self.log.error('no interface started')
                return
            ...
            self.discovery = UDPListener(
                self.secnode.equipment_id,
                self.secnode.get_secnode_property('description'),
                [f"{uri.split('://')[0]}://{iface.port}"           # (B) the port really bound
                 for uri, iface in list(self.interfaces.items())],
                self.log.getChild('discovery'))
            mkthread(self.discovery.run)
            for t in iface_threads: t.join()                       # until restart() / shutdown()
            ...
            if self._restart: self.restart_hook()

    def _interfaceThread(self, opts, lock, failed, interfaces, start_cb):
        iface = opts['uri']
        try:
            with cls(scheme, ..., opts, self) as interface:        # binds; raises when the port is taken
                with lock:
                    self.interfaces[iface] = interface
                start_cb()
                interface.serve_forever()
        except Exception as e:
            with lock: failed[iface] = e ...

    def restart(self):
        if not self._restart:
            self._restart = True
            if self.discovery:
                self.discovery.shutdown()                          # (C)
            for iface in self.interfaces.values(): iface.shutdown()

Whether a start attempt succeeds, which port it is bound to and in which order the threads enter
their interface into the dict are oracles (`Attempt` lists).  (A), (B), (C) are read off the source
on every run (`ServerTables`, generated).  Not modelled: the 12 s start-up timeout (an interface
that comes up later enters the dict after the responder was constructed).
-/
namespace Frappy.Discovery

/-- how a start attempt of `_interfaceThread` ends -/
inductive StartResult where
  | failed
  | started (bound : Nat)          -- serving; `bound` = the port really bound (`interface.port`)
deriving DecidableEq, Repr

/-- one start attempt: the configured interface (the `uri`) and its outcome -/
structure Attempt where
  iface : Iface
  result : StartResult
deriving DecidableEq, Repr

/-- `self.interfaces`: uri → interface object (represented by its bound port), in insertion order -/
abbrev IfDict := List (Iface × Nat)

/-- `d[k] = v` of a Python dict: an existing key keeps its place -/
def dictSet (d : IfDict) (k : Iface) (v : Nat) : IfDict :=
  if d.any (fun e => e.1 == k) then d.map (fun e => if e.1 = k then (k, v) else e) else d ++ [(k, v)]

/-- what one finished start attempt does to `self.interfaces` -/
def recordAttempt (d : IfDict) (a : Attempt) : IfDict :=
  match a.result with
  | .failed => d
  | .started b => dictSet d a.iface b

structure ServerTables where
  resetPerRound : Bool               -- (A) `self.interfaces = {}` inside the restart loop
  announcesBoundPort : Bool          -- (B) the responder gets the bound ports (else: the configured uris)
  restartClosesDiscovery : Bool      -- (C) `restart()` shuts the responder down

/-- `self.interfaces` when all start attempts of a round are through (in the order they took the lock) -/
def startInterfaces (st : ServerTables) (prev : IfDict) (attempts : List Attempt) : IfDict :=
  attempts.foldl recordAttempt (if st.resetPerRound then [] else prev)

/-- the interface list handed to `UDPListener` -/
def announcedIfaces (st : ServerTables) (d : IfDict) : List Iface :=
  d.map (fun e => if st.announcesBoundPort then ⟨e.1.scheme, e.2⟩ else e.1)

/-- the server between two passes of the loop: the dict, and the responders still running -/
structure SrvState where
  interfaces : IfDict
  live : List Listener
deriving Repr

def SrvState.init : SrvState := ⟨[], []⟩

/-- one pass of the loop up to `mkthread(self.discovery.run)`; `false`: 'no interface started', `run` returns -/
def startRound (st : ServerTables) (t : Tables) (id version : Str) (description : Option Str) (s : SrvState)
    (attempts : List Attempt) : SrvState × Bool :=
  if startInterfaces st s.interfaces attempts = [] then
    ({ interfaces := [], live := s.live }, false)
  else
    ({ interfaces := startInterfaces st s.interfaces attempts,
       live := s.live ++ [construct t id version description
                 (announcedIfaces st (startInterfaces st s.interfaces attempts))] }, true)

/-- `restart()`: `self.discovery` — the responder constructed last — is shut down (or not) -/
def restartStep (st : ServerTables) (s : SrvState) : SrvState :=
  { s with live := if st.restartClosesDiscovery then s.live.dropLast else s.live }

/-- `run()` over the rounds of a run (one list of start attempts per round, a restart in between):
the state of the server after the start-up of each round -/
def runRounds (st : ServerTables) (t : Tables) (id version : Str) (description : Option Str) :
    SrvState → List (List Attempt) → List SrvState
  | _, [] => []
  | s, attempts :: rest =>
    (startRound st t id version description s attempts).1 ::
      (if (startRound st t id version description s attempts).2 then
        runRounds st t id version description
          (restartStep st (startRound st t id version description s attempts).1) rest
       else [])

end Frappy.Discovery
