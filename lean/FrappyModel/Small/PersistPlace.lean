import FrappyModel.Small.Persist
/-
WHERE the persistent-parameter file lives, and what the code does about the directories on the way to it
(`frappy/persistent.py`):

    def __init__(self, name, logger, cfgdict, srv):
        ...
        persistentdir = generalConfig.logdir / 'persistent'                                    # 78
        os.makedirs(persistentdir, exist_ok=True)                                              # 79
        self.persistentFile = persistentdir / f'{self.secNode.equipment_id}.{self.name}.json'  # 80
        ...
    def __save_params(self):
        ...
        if data != self.persistentData:
            persistentdir = self.persistentFile.parent                                         # 154
            tmpfile = self.persistentFile.parent / (self.persistentFile.name + '.tmp')         # 155
            if not persistentdir.is_dir():                                                     # 156
                persistentdir.mkdir(parents=True, exist_ok=True)                               # 157
            try:
                with open(tmpfile, 'w', encoding='utf-8') as f:       # FileNotFoundError when the directory is missing
                ...

A path is the list of its components below the log directory (`[]` = the log directory itself).  The equipment id is
free text (`secnode.py:43`: an option of the node, default: the name of the configuration): `pathlib` cuts the file name
`<equipment_id>.<module>.json` at every `/`, so an id like `lab/cryo7` puts the file into a subdirectory of
`<logdir>/persistent` which `__init__` does not create.  Directories can also disappear while the server runs (the
default log directory is below `/tmp`).  The flat model `Small/Persist` knows nothing of directories: its `open` succeeds
unless a fault is injected.  Here `open` raises `FileNotFoundError` when the parent of the file is not a directory
(`saveRunAt`), the code's `is_dir()` / `mkdir(parents=True)` is `ensureDir`, and `saveStepAt` is `__save_params` with
both.  The theorems (`Props/C17`, section `place`) show that `saveStepAt` is `saveStep` of the flat model at the derived
paths for *every* state of the directories - which is what justifies running the module machine of `Small/Persist` on
`PWorld` below.

Not modelled: an equipment id that starts with `/` (pathlib then drops `<logdir>/persistent` altogether) or has a
component `..` (the operating system resolves it: the file leaves the persistent directory); a regular file standing
where a directory is needed; `mkdir` failing (read-only file system).
-/
namespace Frappy.Persist

/-- components below the log directory; `[]` is the log directory -/
abbrev Path := List String

/-! ## the name of the file -/

/-- the text cut at every `/` (`acc`: the characters of the current component, last first) -/
def splitSlash : List Char → List Char → List String
  | acc, [] => [String.ofList acc.reverse]
  | acc, c :: r => if c = '/' then String.ofList acc.reverse :: splitSlash [] r else splitSlash (c :: acc) r

/-- what `pathlib` makes of the right operand of `/` (a relative one): cut at `/`, empty components and `.` dropped -/
def pathParts (s : String) : List String :=
  (splitSlash [] s.toList).filter (fun c => !(c == "" || c == "."))

/-- line 78 -/
def persistentDir : Path := ["persistent"]

/-- the f-string of line 80 -/
def fileName (eq mod : String) : String := eq ++ "." ++ mod ++ ".json"

/-- line 80: `persistentdir / f'{equipment_id}.{name}.json'` -/
def persistentFile (eq mod : String) : Path := persistentDir ++ pathParts (fileName eq mod)

/-- line 155: `parent / (name + '.tmp')` -/
def tmpFile : Path → Path
  | [] => [".tmp"]
  | [x] => [x ++ ".tmp"]
  | x :: y :: r => x :: tmpFile (y :: r)

/-- `Path.parent` -/
def parentDir (p : Path) : Path := p.dropLast

/-! ## directories -/

/-- every prefix of a path, the log directory first -/
def prefixes : Path → List Path
  | [] => [[]]
  | x :: r => [] :: (prefixes r).map (x :: ·)

/-- `os.makedirs(d, exist_ok=True)` / `Path.mkdir(parents=True, exist_ok=True)`: `d` and every directory above it
exist afterwards (`ds`: the directories that exist) -/
def mkdirs (ds : List Path) (d : Path) : List Path := ds ++ prefixes d

/-- lines 156-157 -/
def ensureDir (ds : List Path) (d : Path) : List Path := if d ∈ ds then ds else mkdirs ds d

/-- `d` is `p` or above it -/
def under (d p : Path) : Bool := d.isPrefixOf p

/-- the tree below (and including) `d` is removed - by a clean-up job, an operator, a tmp cleaner -/
def wipeDirs (ds : List Path) (d : Path) : List Path := ds.filter (fun x => !under d x)

def wipeFiles (fs : FS Path) (d : Path) : FS Path := fun p => if under d p then none else fs p

/-! ## saving, with directories -/

/-- `open(tmp, 'w')` in a directory that does not exist raises `FileNotFoundError` (an `OSError`): for the code this is
the same as a failing `open` - straight to the `finally`, whose `os.remove` finds nothing (`FileNotFoundError`, caught) -/
def noDirFault : Fault := ⟨0, [], [], false⟩

/-- the writing part of `__save_params` when the directories are `ds` at the moment of the `open` -/
def saveRunAt (ds : List Path) (tgt tmp : Path) (chunks : List Bytes) (fault : Option Fault) : Run Path :=
  if parentDir tmp ∈ ds then saveRun tgt tmp chunks fault else saveRun tgt tmp chunks (some noDirFault)

/-- `__save_params` (150-169) with the directories: result of the call and the directories afterwards -/
def saveStepAt {D : Type} (same : D → D → Bool) (ser : D → List Bytes) (tgt : Path) (ds : List Path)
    (believed data : D) (fault : Option Fault) : SaveOut Path D × List Path :=
  if same data believed then (⟨believed, [], false⟩, ds)
  else
    let ds1 := ensureDir ds (parentDir tgt)
    let r := saveRunAt ds1 tgt (tmpFile tgt) (ser data) fault
    (⟨if r.renamed then data else believed, r.evs, r.raised⟩, ds1)

/-! ## the module machine at its place -/

/-- the environment of `Small/Persist` with the two paths derived from equipment id and module name -/
def Env.placed {P N V : Type} (env : Env P N V) (eq mod : String) : Env Path N V :=
  { tgt := persistentFile eq mod, tmp := tmpFile (persistentFile eq mod), parse := env.parse, ser := env.ser,
    same := env.same, imp := env.imp, exp := env.exp, wval := env.wval }

/-- module state, files, directories -/
structure PWorld (N V : Type) where
  ms : MState N V
  fs : FS Path
  dirs : List Path

/-- what happens to a running module: an action of `Small/Persist` (with an optional I/O fault), or the tree below a
directory is removed behind its back -/
inductive PAct (V : Type)
  | act (a : Act V) (fault : Option Fault)
  | wipe (d : Path)

/-- the directories after a call that performed the file operations `evs`: every save that has something to write
passes lines 154-157 first (and `open` is its first operation), one that has nothing to write touches nothing -/
def dirsAfter {P : Type} (ds : List Path) (tgt : Path) (evs : List (Ev P)) : List Path :=
  if evs.isEmpty then ds else ensureDir ds (parentDir tgt)

section machine
variable {N V : Type}

/-- `PersistentMixin.__init__` (76-95) on the directories `ds`: line 79, then start-up as in `Small/Persist` - a file in
a directory that does not exist is a file that does not exist (`fs tgt = none`, `FileNotFoundError` in line 99) -/
def startUpAt (env : Env Path N V) (ds : List Path) (ps : List (Param V)) (wd0 : List (String × V)) (fs : FS Path)
    (fault : Option Fault) : StepOut Path N V × List Path :=
  let ds1 := mkdirs ds persistentDir
  let o := startUp env ps wd0 (fs env.tgt) fault
  (o, dirsAfter ds1 env.tgt o.evs)

/-- one step of a history; the answer of the call (events, driver writes, raised) and the world afterwards -/
def PWorld.step (env : Env Path N V) (w : PWorld N V) : PAct V → StepOut Path N V × PWorld N V
  | .wipe d => (⟨w.ms, [], [], false⟩, ⟨w.ms, wipeFiles w.fs d, wipeDirs w.dirs d⟩)
  | .act a fault =>
    let o := act env w.ms (w.fs env.tgt) a fault
    (o, ⟨o.ms, applyEvs w.fs o.evs, dirsAfter w.dirs env.tgt o.evs⟩)

def PWorld.run (env : Env Path N V) (w : PWorld N V) (h : List (PAct V)) : PWorld N V :=
  h.foldl (fun w a => (PWorld.step env w a).2) w

end machine

end Frappy.Persist
