import FrappyModel.Small.Discovery
import FrappyModel.Small.DiscoveryServer
import FrappyModel.Generated.C19
/-
The constants of `frappy/protocol/discovery.py` as re-extracted from the tree under test
(`FrappyModel/Generated/C19.lean`), packed for the model.  Used by the driver and by the theorems.
-/
namespace Frappy.Discovery

/-- the `except` clause around `json.loads(msg.decode('utf-8'))`, per exception class -/
def generatedCatches : Exc → Bool
  | .unicodeDecodeError => Generated.C19.catchesUnicodeDecodeError
  | .jsonDecodeError => Generated.C19.catchesJSONDecodeError
  | .valueError => Generated.C19.catchesValueError
  | .recursionError => Generated.C19.catchesRecursionError
  | .typeError => Generated.C19.catchesTypeError
  | .other => false
  | .osError => false        -- raised by `sendto`, not by the decoding

def generatedTables : Tables :=
  { maxLen := Generated.C19.maxMessageLen, recvBuf := Generated.C19.recvBufSize,
    budgetPort := Generated.C19.budgetPort, fwPrefix := Generated.C19.firmwarePrefix,
    seg0 := Generated.C19.seg0, seg1 := Generated.C19.seg1, seg2 := Generated.C19.seg2,
    seg3 := Generated.C19.seg3, seg4 := Generated.C19.seg4, catches := generatedCatches,
    catchesSend := Generated.C19.catchesSendError }

def generatedServerTables : ServerTables :=
  { resetPerRound := Generated.C19.interfacesResetPerRound,
    announcesBoundPort := Generated.C19.announcesBoundPort,
    restartClosesDiscovery := Generated.C19.restartClosesDiscovery }

end Frappy.Discovery
