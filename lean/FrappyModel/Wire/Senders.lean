import FrappyModel.Wire.Framing
/-
Wire / concurrent senders — `TCPRequestHandler.send_reply` (frappy/protocol/interface/tcp.py:93-112):

    outdata = encode_msg_frame(*data)
    with self.send_lock:
        if self.running:
            self.request.sendall(outdata)

called by the handler thread (replies, help text) and by any number of other threads (updates from
poller threads, log messages).  `sendall` may hand the frame to the socket in several pieces; a
sender is between `acquire` and `release` while it does so.  Senders are numbered; sender `i` has a
queue of frames it is going to send.

`sendall` may also raise after some of the pieces went out (a time-out with the output buffer full, a reset):

                try: self.request.sendall(outdata)
                except …: self.running = False

(tcp.py:104-112, every exception).  From then on every `send_reply` of every thread takes the lock, finds
`self.running` false and writes nothing.
-/
namespace Frappy.Wire

structure SockState where
  /-- the bytes the peer receives -/
  out : Bytes
  /-- `send_lock`: who holds it -/
  lock : Option Nat
  /-- per sender: (bytes of its current frame already written, bytes still to write), inside `sendall` -/
  cur : Nat → Option (Bytes × Bytes)
  /-- per sender: the frames it will send next -/
  queue : Nat → List Bytes
  /-- ghost: the frames completely sent so far, in the order of completion -/
  done : List Bytes
  /-- ghost: the same with the number of the sender of each frame -/
  doneBy : List (Nat × Bytes)
  /-- `self.running`: false once a `sendall` has raised -/
  running : Bool
  /-- ghost: the part of its frame which the `sendall` that raised had written -/
  tail : Bytes
  /-- ghost, per sender: the frames that were not delivered -- the torn one, then those dropped afterwards -/
  lost : Nat → List Bytes

def upd {α : Type} (f : Nat → α) (i : Nat) (a : α) : Nat → α := fun j => if j = i then a else f j

/-- one atomic step of one sender -/
inductive SendStep : SockState → SockState → Prop
  /-- `send_lock.acquire()` succeeds only when nobody holds the lock; `self.running` is true: `sendall` begins -/
  | acquire (s : SockState) (i : Nat) (f : Bytes) (q : List Bytes) :
      s.lock = none → s.running = true → s.queue i = f :: q →
      SendStep s { s with lock := some i, cur := upd s.cur i (some ([], f)), queue := upd s.queue i q }
  /-- `sendall` writes the next `k` bytes (no test of the lock here: the code does not test it either) -/
  | write (s : SockState) (i : Nat) (w r : Bytes) (k : Nat) :
      s.cur i = some (w, r) →
      SendStep s { s with out := s.out ++ r.take k, cur := upd s.cur i (some (w ++ r.take k, r.drop k)) }
  /-- `sendall` has written everything and returns; `send_lock.release()` -/
  | release (s : SockState) (i : Nat) (w : Bytes) :
      s.cur i = some (w, []) →
      SendStep s { s with lock := none, cur := upd s.cur i none, done := s.done ++ [w], doneBy := s.doneBy ++ [(i, w)] }
  /-- `sendall` raises with a part `r` of the frame not written (whatever pieces went out before stay out);
  the `except` clause sets `self.running = False`; the lock is released -/
  | fail (s : SockState) (i : Nat) (w r : Bytes) :
      s.cur i = some (w, r) → r ≠ [] →
      SendStep s { s with lock := none, cur := upd s.cur i none, running := false, tail := w,
                          lost := upd s.lost i (s.lost i ++ [w ++ r]) }
  /-- `send_reply` after a send has failed: the lock is taken, `self.running` is false, nothing is written, the lock
  is released (one step: nothing another sender could observe happens in between) -/
  | skip (s : SockState) (i : Nat) (f : Bytes) (q : List Bytes) :
      s.lock = none → s.running = false → s.queue i = f :: q →
      SendStep s { s with queue := upd s.queue i q, lost := upd s.lost i (s.lost i ++ [f]) }

inductive SendReach (init : SockState) : SockState → Prop
  | start : SendReach init init
  | step (s t : SockState) : SendReach init s → SendStep s t → SendReach init t

/-- nothing sent yet, nobody sending; `queue` says what each sender is going to send -/
def sockInit (queue : Nat → List Bytes) : SockState :=
  { out := [], lock := none, cur := fun _ => none, queue := queue, done := [], doneBy := [], running := true, tail := [],
    lost := fun _ => [] }

/-- the frames sender `i` has completely sent, in the order in which the peer got them -/
def sentBy (s : SockState) (i : Nat) : List Bytes := (s.doneBy.filter (fun p => p.1 == i)).map Prod.snd

/-- the frame sender `i` is writing, if it is inside `sendall` -/
def inFlight (s : SockState) (i : Nat) : List Bytes :=
  match s.cur i with
  | none => []
  | some (w, r) => [w ++ r]

end Frappy.Wire
