import FrappyModel.Wire.Codec
/-
Wire / request loop — `RequestHandler.handle` and `handle_help` (frappy/protocol/interface/handler.py:87-188)
with the framing and decoding of `TCPRequestHandler` (tcp.py:67-79) and `send_reply` (tcp.py:93-112).

The dispatcher is a parameter: a function from its own state and the decoded request to whatever it
does — replies it sends itself (`conn.send_reply`, e.g. the updates of `activate`), and then a returned
triple, a raised SECoP error, any other raised `Exception`, or a returned value that cannot be sent
(`None`, not a triple, not serialisable).  `send_reply` is an atomic append of one frame (it runs
under `send_lock`); sends are assumed to succeed (`self.running` stays true).
-/
namespace Frappy.Wire

/-- the constants of frappy/protocol/messages.py and errors.py the wire layer uses; the instance
the driver and the theorems use is generated from the source (`Frappy.Generated.C07`) -/
structure Tables where
  request2reply : List (Bytes × Bytes)
  identRequest : Bytes
  identReply : Bytes
  errorPrefix : Bytes
  helpRequest : Bytes
  helpReply : Bytes
  eventReply : Bytes
  logEvent : Bytes
  describeRequest : Bytes
  helpLineCount : Nat
  helpLineAction : Bytes
  handlerErrorClass : Bytes
  errorClasses : List Bytes
  /-- actions of lines that are not replies (events, error events, log messages, help text lines) -/
  asyncActions : List Bytes
  /-- actions of the requests a module carries out (`read`, `change`, `do`): the only ones that may
  change what later requests are answered -/
  stateActions : List Bytes

/-- what `dispatcher.handle_request(conn, msg)` ends with -/
inductive DispResult (J : Type) where
  /-- returns a triple -/
  | ok (t : Triple J)
  /-- raises a `SECoPError` whose `name` is `cls` -/
  | secop (cls : Bytes)
  /-- raises another `Exception` -/
  | exc
  /-- returns something that cannot be sent: `None`/empty, not a triple, not serialisable -/
  | garbage

structure DispOut (J : Type) where
  /-- messages the dispatcher sends itself before it returns (`conn.send_reply`) -/
  async : List (Triple J)
  res : DispResult J

/-- a dispatcher with state `σ` -/
abbrev Disp (σ J : Type) := σ → Triple J → DispOut J × σ

inductive Kind where
  | reply | help | async
deriving DecidableEq, Repr

/-- one `send_reply`: what kind of line, which request line was being processed, the triple sent -/
structure Out (J : Type) where
  kind : Kind
  req : Bytes
  msg : Triple J
deriving DecidableEq

/-- `(ERRORPREFIX + action, specifier, [cls, text, {}])` -/
def errorReply {J : Type} (T : Tables) (L : Lib J) (action : Bytes) (spec : Option Bytes) (cls : Bytes) : Triple J :=
  ⟨T.errorPrefix ++ action, spec, some (L.errReport cls)⟩

/-- result of `next_message()` for one de-framed line -/
inductive Next (J : Type) where
  | msg (t : Triple J)
  /-- `DecodeError(raw_msg=message)` -/
  | bad (raw : Bytes)

/-- tcp.py:70-79 for a line that `get_msg` produced -/
def nextMessage {J : Type} (T : Tables) (L : Lib J) (line : Bytes) : Next J :=
  if strip line = [] then .msg ⟨T.helpRequest, none, none⟩
  else match decodeMsg L line with
    | some t => .msg t
    | none => .bad line

/-- handler.py:114-130: `msg = err.raw_msg.strip().decode('latin-1').split(' ', 3) + [None]`, reply
`(ERRORPREFIX + msg[0], msg[1], ['InternalError', …])` -/
def decodeErrorReply {J : Type} (T : Tables) (L : Lib J) (raw : Bytes) : Triple J :=
  let c := cut (latin1 (strip raw))
  errorReply T L c.1 (c.2.map (fun r => (cut r).1)) T.handlerErrorClass

/-- decimal digits of `n`, most significant first, in front of `acc` (fuel ≥ number of digits) -/
def decimalAux : Nat → Nat → Bytes → Bytes
  | 0, _, acc => acc
  | f + 1, n, acc =>
    if n / 10 = 0 then (48 + n % 10) :: acc else decimalAux f (n / 10) ((48 + n % 10) :: acc)

/-- decimal digits of `n` (`f'{idx + 1}'`) -/
def decimal (n : Nat) : Bytes := decimalAux (n + 1) n []

/-- `handle_help`: one `('_', f'{idx+1}', line)` per line of `HelpMessage` -/
def helpLines {J : Type} (T : Tables) (L : Lib J) (req : Bytes) : List (Out J) :=
  (List.range T.helpLineCount).map
    (fun i => ⟨.help, req, ⟨T.helpLineAction, some (decimal (i + 1)), some (L.helpText i)⟩⟩)

/-- handler.py:137-182 after `handle_request` came back: the one reply for request `t` -/
def resultReply {J : Type} (T : Tables) (L : Lib J) (t : Triple J) : DispResult J → Triple J
  | .ok r => r
  | .secop cls => errorReply T L t.action t.spec cls
  | .exc => errorReply T L t.action t.spec T.handlerErrorClass
  | .garbage => errorReply T L t.action t.spec T.handlerErrorClass

/-- everything sent while one de-framed line is processed, and the dispatcher state afterwards -/
def handleLine {J σ : Type} (T : Tables) (L : Lib J) (d : Disp σ J) (st : σ) (line : Bytes) : List (Out J) × σ :=
  match nextMessage T L line with
  | .bad raw => ([⟨.reply, line, decodeErrorReply T L raw⟩], st)
  | .msg t =>
    if t.action = T.helpRequest then
      (helpLines T L line ++ [⟨.reply, line, ⟨T.helpReply, none, none⟩⟩], st)
    else
      let r := d st t
      (r.1.async.map (fun m => ⟨.async, line, m⟩) ++ [⟨.reply, line, resultReply T L t r.1.res⟩], r.2)

/-- the inner loop over the lines found in the buffer -/
def serveLines {J σ : Type} (T : Tables) (L : Lib J) (d : Disp σ J) : σ → List Bytes → List (Out J) × σ
  | st, [] => ([], st)
  | st, l :: ls =>
    let r := handleLine T L d st l
    let r' := serveLines T L d r.2 ls
    (r.1 ++ r'.1, r'.2)

structure Served (J σ : Type) where
  outs : List (Out J)
  buf : Bytes
  st : σ

/-- `handle()`: for every received chunk, ingest, de-frame, answer; ends when `recv` returns `b''` -/
def serve {J σ : Type} (T : Tables) (L : Lib J) (d : Disp σ J) : Bytes → σ → List Bytes → Served J σ
  | buf, st, [] => ⟨[], buf, st⟩
  | buf, st, c :: cs =>
    let f := feed buf c
    let r := serveLines T L d st f.lines
    let s := serve T L d f.rest r.2 cs
    ⟨r.1 ++ s.outs, s.buf, s.st⟩

/-! ## The peer goes away: `sendall` fails

`send_reply` (tcp.py:93-112): `with send_lock: if self.running: try sendall(frame) except …: self.running = False`.
Both loops of `handle()` are `while self.running`: the line being processed is finished (the
dispatcher is not interrupted, its further sends and the reply are skipped), no further line is
taken out of the buffer, no further chunk is received.  The socket is a parameter: how many
`sendall` calls still succeed.  The call after these writes some bytes of its frame and raises (a time-out
with the output buffer full, a reset …): `torn` is the frame handed to that call, `received` what the peer
then has.  Whatever the socket would do with later calls is of no importance: `send_reply` tests
`self.running` before it touches the socket, so there are none. -/

structure SockSt where
  /-- number of `sendall` calls that will still succeed -/
  left : Nat
  /-- `self.running` -/
  running : Bool
deriving DecidableEq, Repr

/-- the `send_reply` calls made while one line is processed: the frames delivered, the socket afterwards -/
def sendAll {α : Type} (s : SockSt) (frames : List α) : List α × SockSt :=
  if !s.running then ([], s)
  else if frames.length ≤ s.left then (frames, ⟨s.left - frames.length, true⟩)
  else (frames.take s.left, ⟨0, false⟩)

/-- the frame handed to the `sendall` call that fails, if the socket fails while `frames` are sent -/
def tornOf {α : Type} (s : SockSt) (frames : List α) : Option α :=
  if s.running then frames[s.left]? else none

structure ServedF (J σ : Type) where
  /-- the frames delivered -/
  outs : List (Out J)
  st : σ
  sock : SockSt
  /-- number of lines taken out of the buffer and processed -/
  done : Nat
  /-- the frame whose `sendall` raised (of which a part may have gone out) -/
  torn : Option (Out J)

/-- the inner loop `while self.running: msg = self.next_message() …` -/
def serveLinesF {J σ : Type} (T : Tables) (L : Lib J) (d : Disp σ J) : SockSt → σ → List Bytes → ServedF J σ
  | s, st, [] => ⟨[], st, s, 0, none⟩
  | s, st, l :: ls =>
    if !s.running then ⟨[], st, s, 0, none⟩
    else
      let r := handleLine T L d st l
      let sent := sendAll s r.1
      let r' := serveLinesF T L d sent.2 r.2 ls
      ⟨sent.1 ++ r'.outs, r'.st, r'.sock, r'.done + 1, (tornOf s r.1).or r'.torn⟩

/-- `handle()` with a socket whose `sendall` may fail: the outer loop `while self.running` -/
def serveF {J σ : Type} (T : Tables) (L : Lib J) (d : Disp σ J) : SockSt → Bytes → σ → List Bytes → ServedF J σ
  | s, _, st, [] => ⟨[], st, s, 0, none⟩
  | s, buf, st, c :: cs =>
    if !s.running then ⟨[], st, s, 0, none⟩
    else
      let f := feed buf c
      let r := serveLinesF T L d s st f.lines
      let r' := serveF T L d r.sock f.rest r.st cs
      ⟨r.outs ++ r'.outs, r'.st, r'.sock, r.done + r'.done, r.torn.or r'.torn⟩

/-- the byte strings handed to `sendall`, in order -/
def wire {J : Type} (L : Lib J) (outs : List (Out J)) : List Bytes := outs.map (fun o => encodeFrame L o.msg)

def replies {J : Type} (outs : List (Out J)) : List (Out J) := outs.filter (fun o => o.kind == .reply)

/-- what the peer has received at the end of a run in which the failing `sendall` wrote `k` bytes of its
frame before it raised: the frames delivered, then the first `k` bytes of the torn frame -/
def received {J σ : Type} (L : Lib J) (r : ServedF J σ) (k : Nat) : Bytes :=
  (wire L r.outs).flatten ++ (match r.torn with
    | some o => (encodeFrame L o.msg).take k
    | none => [])

end Frappy.Wire
