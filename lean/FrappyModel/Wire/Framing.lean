/-
Wire / framing — what `TCPRequestHandler.ingest` / `next_message` (frappy/protocol/interface/tcp.py:67-79)
and `get_msg` (frappy/protocol/interface/__init__.py:37-44) do with the bytes received from a peer.

Bytes are natural numbers (0..255 on the wire; nothing in the model depends on the bound).
-/
namespace Frappy.Wire

abbrev Bytes := List Nat

/-- `EOL = b'\n'` -/
def EOL : Nat := 10
/-- `' '` -/
def SP : Nat := 32

/-- `get_msg(_bytes)`: `None, _bytes` when there is no EOL (here `none`), else `_bytes.split(EOL, 1)`:
the bytes before the *first* EOL and everything after it. -/
def getMsg : Bytes → Option (Bytes × Bytes)
  | [] => none
  | b :: rest =>
    if b = EOL then some ([], rest)
    else match getMsg rest with
      | none => none
      | some (m, r) => some (b :: m, r)

/-- result of emptying the receive buffer: the complete messages found (oldest first) and the
residual buffer (`self.data` afterwards) -/
structure Drained where
  lines : List Bytes
  rest : Bytes
deriving Repr, DecidableEq

/-- the inner `while` of `RequestHandler.handle` (handler.py:109-113) seen from the framing side:
`next_message()` until it returns `None`.  Fuel bounds the number of iterations; `feed` supplies
more fuel than the buffer has bytes. -/
def drain : Nat → Bytes → Drained
  | 0, buf => ⟨[], buf⟩
  | n + 1, buf =>
    match getMsg buf with
    | none => ⟨[], buf⟩
    | some (m, r) => let d := drain n r; ⟨m :: d.lines, d.rest⟩

/-- one turn of the outer loop: `ingest(newdata)` (`self.data += newdata`), then drain -/
def feed (buf chunk : Bytes) : Drained :=
  drain ((buf ++ chunk).length + 1) (buf ++ chunk)

/-- the outer loop over the chunks `recv` returns, starting with buffer `buf` -/
def feedAll (buf : Bytes) : List Bytes → Drained
  | [] => ⟨[], buf⟩
  | c :: cs =>
    let d := feed buf c
    let e := feedAll d.rest cs
    ⟨d.lines ++ e.lines, e.rest⟩

end Frappy.Wire
