import FrappyModel.Wire.Framing
/-
Wire / codec — `decode_msg` and `encode_msg_frame` (frappy/protocol/interface/__init__.py:28-51).

Python's `json` module and its UTF-8 codec are library behaviour: they are the
fields of `Lib`, and the laws the theorems assume about them are the fields of `LibLaws`
(FrappyModel/Spec/C07.lean).  Strings are represented by their UTF-8 bytes; splitting a decoded
string at `' '` is splitting its bytes at 0x20 (0x20 never occurs inside a multi-byte sequence).
-/
namespace Frappy.Wire

/-- the library functions the codec calls; `J` is whatever `json.loads` returns -/
structure Lib (J : Type) where
  /-- `bytes.decode('utf-8')` succeeds -/
  utf8ok : Bytes → Bool
  /-- `json.loads(text)` for the text with the given UTF-8 bytes; `none` = it raises -/
  loads : Bytes → Option J
  /-- `json.dumps(data)` (as UTF-8 bytes; the output is ASCII) -/
  dumps : J → Bytes
  /-- the data of an error reply: `[name, text, {}]` for the error class `name` -/
  errReport : Bytes → J
  /-- the text of help line `i` -/
  helpText : Nat → J

/-- white space of `bytes.strip()`: `b' \t\n\r\x0b\x0c'` -/
def isWs (b : Nat) : Bool := b == 32 || (9 ≤ b && b ≤ 13)

def lstrip (l : Bytes) : Bytes := l.dropWhile isWs
def rstrip (l : Bytes) : Bytes := (l.reverse.dropWhile isWs).reverse
/-- `bytes.strip()` -/
def strip (l : Bytes) : Bytes := rstrip (lstrip l)

/-- `s.split(' ', 1)`: the part before the first space, and the part after it if there is a space -/
def cut : Bytes → Bytes × Option Bytes
  | [] => ([], none)
  | b :: r =>
    if b = SP then ([], some r)
    else let c := cut r; (b :: c.1, c.2)

/-- the three fields `(s.split(' ', 2) + ['', ''])[0:3]` -/
structure Parts where
  action : Bytes
  spec : Bytes
  data : Bytes
deriving Repr, DecidableEq

def parts (l : Bytes) : Parts :=
  match cut l with
  | (a, none) => ⟨a, [], []⟩
  | (a, some r) =>
    match cut r with
    | (s, none) => ⟨a, s, []⟩
    | (s, some d) => ⟨a, s, d⟩

/-- a message triple `(action, specifier, data)`; `none` is Python's `None` -/
structure Triple (J : Type) where
  action : Bytes
  spec : Option Bytes
  data : Option J
deriving DecidableEq

/-- `x or None` for a string -/
def orNone (b : Bytes) : Option Bytes := if b = [] then none else some b

/-- `decode_msg(msg)`: `none` = an exception (UnicodeDecodeError, JSONDecodeError, RecursionError …) -/
def decodeMsg {J : Type} (L : Lib J) (msg : Bytes) : Option (Triple J) :=
  let s := strip msg
  if L.utf8ok s then
    let p := parts s
    if p.data = [] then some ⟨p.action, orNone p.spec, none⟩
    else match L.loads p.data with
      | some j => some ⟨p.action, orNone p.spec, some j⟩
      | none => none
  else none

/-- `' '.join((action, specifier or '', '' if data is None else json.dumps(data)))` -/
def joined {J : Type} (L : Lib J) (t : Triple J) : Bytes :=
  t.action ++ SP :: (t.spec.getD [] ++ SP :: (match t.data with | none => [] | some j => L.dumps j))

/-- `s.rstrip(' ')` -/
def rstripSp (l : Bytes) : Bytes := (l.reverse.dropWhile (· == SP)).reverse

/-- `encode_msg_frame(action, specifier, data)`: `' '.join(msg).rstrip(' ').encode('utf-8') + EOL` -/
def encodeFrame {J : Type} (L : Lib J) (t : Triple J) : Bytes :=
  rstripSp (joined L t) ++ [EOL]

/-- `raw.decode('latin-1')` re-encoded as UTF-8 (what `encode_msg_frame` later does with the text) -/
def latin1 (l : Bytes) : Bytes :=
  l.flatMap (fun b => if b < 128 then [b] else [192 + b / 64, 128 + b % 64])

end Frappy.Wire
