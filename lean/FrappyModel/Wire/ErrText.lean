import FrappyModel.Wire.Codec
/-
Wire / error text — the second element of an error report `[name, text, {…}]`.

The request loop builds it inside its `except` clauses (frappy/protocol/interface/handler.py:137-163):
`str(err)` for a `SECoPError`, which is `SECoPError.format(True)` (frappy/errors.py:56-84) on top of
`BaseException.__str__` (the C implementation: no argument → `''`, one argument → `str(arg)`, more →
`str(args)`, the text of the tuple).  An error raised by driver code may carry any arguments: none, several,
objects that are not strings (an exception that was caught, a number, `None`, bytes …).  `str()` and
`repr()` of the argument objects are parameters (`ErrArg`): they are total for the objects Python itself provides.
-/
namespace Frappy.Wire

/-- one argument of an exception: the bytes of `str(arg)` and of `repr(arg)` -/
structure ErrArg where
  str : Bytes
  repr : Bytes
deriving DecidableEq, Repr

/-- `', '.join(items)` -/
def joinComma : List Bytes → Bytes
  | [] => []
  | [a] => a
  | a :: rest => a ++ [44, 32] ++ joinComma rest

/-- `BaseException.__str__`: `''`, `str(args[0])`, or `str(args)` = `'(' + ', '.join(map(repr, args)) + ')'` -/
def excStr : List ErrArg → Bytes
  | [] => []
  | [a] => a.str
  | a :: b :: rest => [40] ++ joinComma ((a :: b :: rest).map (·.repr)) ++ [41]

/-- what `SECoPError.format` looks at -/
structure ErrInfo where
  /-- `self.name2class.get(self.name) == type(self)`: the class is the one registered for its SECoP name -/
  registered : Bool
  /-- `type(self).__name__` -/
  typeName : Bytes
  /-- `self.raising_methods`: appended to by the read / write wrappers and by `callPollFunc` while the error travels up -/
  methods : List Bytes
  args : List ErrArg
deriving DecidableEq, Repr

/-- `''.join(' in ' + m for m in mlist)` -/
def inMethods (mlist : List Bytes) : Bytes := mlist.flatMap (fun m => [32, 105, 110, 32] ++ m)

/-- errors.py:75-78: `mlist[:-1]` when stripped and not empty -/
def shownMethods (stripped : Bool) (methods : List Bytes) : List Bytes :=
  if stripped then methods.dropLast else methods

/-- errors.py:79-80 (quirk kept: only the joined methods are stripped, so that a class name is followed by `in` without a blank) -/
def errPrefix (stripped : Bool) (e : ErrInfo) : Bytes :=
  (if e.registered then [] else e.typeName) ++ strip (inMethods (shownMethods stripped e.methods))

/-- `SECoPError.format(stripped)`; `str(err)` is `format(True)` -/
def formatError (stripped : Bool) (e : ErrInfo) : Bytes :=
  let p := errPrefix stripped e
  if p = [] then excStr e.args else p ++ [58, 32] ++ excStr e.args

/-- `str(err)` as the request loop evaluates it -/
def errText (e : ErrInfo) : Bytes := formatError true e

end Frappy.Wire
