import FrappyModel.Wire.ReqLoop
/-
Wire / dispatcher — `Dispatcher.handle_request` and the `handle_*` methods at protocol level
(frappy/protocol/dispatcher.py:194-215 action dispatch; 217-338 the handlers).

What the node and its modules do is a parameter (`NodeIf`): the descriptive data and the checks of
`activate` / `logging` are functions of the request alone (the structure of a node is fixed once it
runs); `read` / `change` / `do` are carried out by a module and thread the node state `ν` through;
the bookkeeping of subscriptions and remote log levels (`κ`) decides only which *events* a
connection gets, never a reply.  Time stamps are not modelled (`pong` is one constant value).
-/
namespace Frappy.Wire

/-- the further constants of frappy/protocol/messages.py and errors.py the dispatcher uses -/
structure DTables where
  readRequest : Bytes
  writeRequest : Bytes
  commandRequest : Bytes
  pingRequest : Bytes
  activateRequest : Bytes
  deactivateRequest : Bytes
  loggingRequest : Bytes
  /-- `ProtocolError.name` -/
  protocolError : Bytes
  /-- default accessible of `read m` / `change m` -/
  valueName : Bytes
  targetName : Bytes

/-- what a module (or the node) does with a request: a value, a raised SECoP error, another exception -/
inductive ModResult (J : Type) where
  | ok (j : J)
  | secop (cls : Bytes)
  | exc

/-- the node behind the dispatcher -/
structure NodeIf (ν κ J : Type) where
  /-- `secnode.get_descriptive_data(specifier)` (argument: `specifier or ''`) -/
  describe : Bytes → ModResult J
  /-- `handle_activate` for a non-empty specifier: `none` = module (and parameter) exist, else the class raised -/
  activateCheck : Bytes → Option Bytes
  /-- `handle_logging`: module lookup and `setRemoteLogging(conn, level, …)`; `ok` carries nothing of interest -/
  logging : Option Bytes → Option J → ModResult Unit
  /-- Python truth value of request data (`if data:`) -/
  truthy : J → Bool
  /-- `[None, {'t': currenttime()}]` -/
  pong : J
  /-- `_getParameterValue(module, parameter)` as the list `[value, qualifiers]` -/
  read : ν → Bytes → Bytes → ModResult J × ν
  /-- `_setParameterValue(module, parameter, value)` -/
  change : ν → Bytes → Bytes → Option J → ModResult J × ν
  /-- `_execute_command(module, command, argument)` -/
  exec : ν → Bytes → Bytes → Option J → ModResult J × ν
  /-- everything sent to this connection while the request is handled: the snapshot of `activate`,
  updates caused by `read`/`change`/`do` on subscribed modules, log messages -/
  events : ν → κ → Triple J → List (Triple J)
  /-- subscriptions and log levels after the request (`subscribe`, `unsubscribe`, `reset_connection`, …) -/
  book : κ → Triple J → κ

/-- `x.split(':', 1)`: module and, if there is a colon, the accessible -/
def splitColon : Bytes → Bytes × Option Bytes
  | [] => ([], none)
  | b :: r => if b = 58 then ([], some r) else let c := splitColon r; (b :: c.1, c.2)

/-- is the optional request data true for Python (`if data:`; `None` is false) -/
def dataTrue {ν κ J : Type} (N : NodeIf ν κ J) : Option J → Bool
  | none => false
  | some j => N.truthy j

def modReply {J : Type} (action : Bytes) (spec : Option Bytes) : ModResult J → DispResult J
  | .ok j => .ok ⟨action, spec, some j⟩
  | .secop c => .secop c
  | .exc => .exc

/-- `specifier` is empty or `None` (`if not specifier`) -/
def noSpec (s : Option Bytes) : Bool := s.getD [] == []

/-- result and node state of `handler(conn, specifier, data)` for the actions of `REQUEST2REPLY` -/
def handleAction {ν κ J : Type} (T : Tables) (D : DTables) (N : NodeIf ν κ J) (reply : Bytes) (nu : ν) (t : Triple J) :
    DispResult J × ν :=
  if t.action = T.helpRequest then (.garbage, nu)              -- handle_help logs an error and returns None
  else if t.action = T.describeRequest then
    (modReply reply (some (if noSpec t.spec then [46] else t.spec.getD [])) (N.describe (t.spec.getD [])), nu)
  else if t.action = D.pingRequest then
    (if dataTrue N t.data then .secop D.protocolError else .ok ⟨reply, t.spec, some N.pong⟩, nu)
  else if t.action = D.readRequest then
    if dataTrue N t.data || noSpec t.spec then (.secop D.protocolError, nu)
    else
      let sp := splitColon (t.spec.getD [])
      let r := N.read nu sp.1 (sp.2.getD D.valueName)
      (modReply reply t.spec r.1, r.2)
  else if t.action = D.writeRequest then
    if noSpec t.spec then (.secop D.protocolError, nu)
    else
      let sp := splitColon (t.spec.getD [])
      let r := N.change nu sp.1 (sp.2.getD D.targetName) t.data
      (modReply reply t.spec r.1, r.2)
  else if t.action = D.commandRequest then
    if noSpec t.spec then (.secop D.protocolError, nu)
    else match splitColon (t.spec.getD []) with
      | (_, none) => (.secop D.protocolError, nu)
      | (m, some c) =>
        let r := N.exec nu m c t.data
        (modReply reply t.spec r.1, r.2)
  else if t.action = D.activateRequest then
    if dataTrue N t.data then (.secop D.protocolError, nu)
    else if noSpec t.spec then (.ok ⟨reply, none, none⟩, nu)
    else match N.activateCheck (t.spec.getD []) with
      | some cls => (.secop cls, nu)
      | none => (.ok ⟨reply, t.spec, none⟩, nu)
  else if t.action = D.deactivateRequest then
    if dataTrue N t.data then (.secop D.protocolError, nu)
    else (.ok ⟨reply, if noSpec t.spec then none else t.spec, none⟩, nu)
  else if t.action = D.loggingRequest then
    (match N.logging t.spec t.data with
      | .ok _ => .ok ⟨reply, t.spec, t.data⟩
      | .secop c => .secop c
      | .exc => .exc, nu)
  else (.exc, nu)      -- an action of REQUEST2REPLY without `handle_<action>`: there is none

/-- `Dispatcher.handle_request(conn, msg)` -/
def dispatch {ν κ J : Type} (T : Tables) (D : DTables) (N : NodeIf ν κ J) : Disp (ν × κ) J :=
  fun st t =>
    let r : DispResult J × ν :=
      if t.action = T.identRequest then (.ok ⟨T.identReply, none, none⟩, st.1)
      else match T.request2reply.lookup t.action with
        | some reply => handleAction T D N reply st.1 t
        | none => (.secop D.protocolError, st.1)
    (⟨N.events st.1 st.2 t, r.1⟩, (r.2, N.book st.2 t))

end Frappy.Wire
