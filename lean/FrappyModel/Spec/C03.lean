import FrappyModel.Spec.C01
import FrappyModel.Base.NumCompat
import FrappyModel.Datatypes.Variants
import FrappyModel.Datatypes.CompatUsers
import FrappyModel.Datatypes.DatainfoWF
import FrappyModel.Datatypes.CommandInfo
/-
C03 — Datatype descriptions, copies and compatibility verdicts are faithful.

Specification only, written from the statement:

* "rebuilding / copying yields an equivalent type": `SameDatainfo` (the same JSON object, member order of
  objects irrelevant) and `SameBehaviour` (a probe value gets the same outcome — the same value or a
  bad-value error — from both types);
* "shares no mutable state": the set of mutable objects reachable from both is empty, and mutating the
  copy leaves datainfo and behaviour of the original unchanged (judged on what the harness observed);
* "passes only if every value valid for the first is valid for the second": `Sound a b` over the value set
  `InSet` of C01;
* "does pass for the pairings it is written to support when the value sets are nested": `Nested a b` —
  same kind with equal or wider limits, integers into doubles / scaled numbers with wider limits, scaled
  numbers into doubles, integer ranges into enums / booleans that contain them, element-wise for containers.

`Nested` is built from decidable pieces, `nestedB = decide ∘ Nested` is the monitor.
-/
namespace Frappy.Spec.C03
open FloatOps DType
open Frappy.Spec.C01 (InSet Outcome)
variable {F : Type} [FloatOps F]

/-! ## nested value sets (the pairings the check is written to support) -/

/-- every integer of `[lo, hi]` is one of `vals` -/
def RangeIn (lo hi : Int) (vals : List Int) : Prop := ∀ i : Int, lo ≤ i → i ≤ hi → i ∈ vals

/-- Boolean form of `RangeIn` that stops at the first integer missing -/
def rangeInFrom (vals : List Int) (i : Int) : Nat → Bool
  | 0 => true
  | n + 1 => vals.contains i && rangeInFrom vals (i + 1) n

def rangeInB (lo hi : Int) (vals : List Int) : Bool := rangeInFrom vals lo (hi - lo + 1).toNat

/-- the integer limits `lo..hi`, as floats, lie within the float limits `bmin..bmax` -/
def IntWithin (lo hi : Int) (bmin bmax : F) : Prop :=
  match (ofInt lo : Option F), (ofInt hi : Option F) with
  | some x, some y => le bmin x = true ∧ le y bmax = true
  | _, _ => False

mutual
/-- the value set of `a` is nested in the one of `b`, for the pairings of the statement -/
def Nested : DType F → DType F → Prop
  | .double amin amax _ _, b =>
    match b with
    | .double bmin bmax _ _ => le bmin amin = true ∧ le amax bmax = true
    | _ => False
  | .int amin amax, b =>
    match b with
    | .int bmin bmax => bmin ≤ amin ∧ amax ≤ bmax
    | .double bmin bmax _ _ => IntWithin amin amax bmin bmax
    | .scaled _ bmin bmax _ _ => IntWithin amin amax bmin bmax
    | .enum ms => rangeInB amin amax (ms.map (·.2)) = true
    | .bool => 0 ≤ amin ∧ amax ≤ 1
    | _ => False
  | .scaled s amin amax _ _, b =>
    match b with
    | .scaled s' bmin bmax _ _ => same s s' = true ∧ le bmin amin = true ∧ le amax bmax = true
    | .double bmin bmax _ _ => le bmin amin = true ∧ le amax bmax = true
    | _ => False
  | .bool, b =>
    match b with
    | .bool => True
    | _ => False
  | .enum ms, b =>
    match b with
    | .enum ms' => ∀ m ∈ ms, m ∈ ms'
    | _ => False
  | .string a1 a2 u, b =>
    match b with
    | .string b1 b2 v => b1 ≤ a1 ∧ a2 ≤ b2 ∧ (u = true → v = true)
    | _ => False
  | .blob a1 a2, b =>
    match b with
    | .blob b1 b2 => b1 ≤ a1 ∧ a2 ≤ b2
    | _ => False
  | .array e a1 a2, b =>
    match b with
    | .array e' b1 b2 => b1 ≤ a1 ∧ a2 ≤ b2 ∧ Nested e e'
    | _ => False
  | .tuple es, b =>
    match b with
    | .tuple es' => NestedList es es'
    | _ => False
  | .struct ms opt _, b =>
    match b with
    | .struct ms' opt' _ =>
      NestedFields ms ms' ∧
      (∀ k ∈ ms'.map (·.1), k ∉ opt' → k ∈ ms.map (·.1) ∧ k ∉ opt)
    | _ => False
/-- element-wise, equal arity -/
def NestedList : List (DType F) → List (DType F) → Prop
  | [], [] => True
  | t :: ts, t' :: ts' => Nested t t' ∧ NestedList ts ts'
  | _, _ => False
/-- every member of the first struct is a member of the second, with a nested type -/
def NestedFields : List (String × DType F) → List (String × DType F) → Prop
  | [], _ => True
  | (k, t) :: rest, ms' =>
    (match DType.member? ms' k with
     | some t' => Nested t t'
     | none => False) ∧ NestedFields rest ms'
end

instance (lo hi : Int) (bmin bmax : F) : Decidable (IntWithin lo hi bmin bmax) := by
  unfold IntWithin; split <;> infer_instance

mutual
def decNested : (a b : DType F) → Decidable (Nested a b)
  | .double _ _ _ _, b => by cases b <;> simp only [Nested] <;> infer_instance
  | .int _ _, b => by cases b <;> simp only [Nested] <;> infer_instance
  | .scaled _ _ _ _ _, b => by cases b <;> simp only [Nested] <;> infer_instance
  | .bool, b => by cases b <;> simp only [Nested] <;> infer_instance
  | .enum _, b => by cases b <;> simp only [Nested] <;> infer_instance
  | .string _ _ _, b => by cases b <;> simp only [Nested] <;> infer_instance
  | .blob _ _, b => by cases b <;> simp only [Nested] <;> infer_instance
  | .array e _ _, b => by
    cases b
    case array e' _ _ => simp only [Nested]; have := decNested e e'; infer_instance
    all_goals (simp only [Nested]; infer_instance)
  | .tuple es, b => by
    cases b
    case tuple es' => simp only [Nested]; exact decNestedList es es'
    all_goals (simp only [Nested]; infer_instance)
  | .struct ms _ _, b => by
    cases b
    case struct ms' _ _ => simp only [Nested]; have := decNestedFields ms ms'; infer_instance
    all_goals (simp only [Nested]; infer_instance)
def decNestedList : (ts ts' : List (DType F)) → Decidable (NestedList ts ts')
  | [], [] => by simp only [NestedList]; infer_instance
  | t :: ts, t' :: ts' => by
    simp only [NestedList]; have := decNested t t'; have := decNestedList ts ts'; infer_instance
  | [], _ :: _ => by simp only [NestedList]; infer_instance
  | _ :: _, [] => by simp only [NestedList]; infer_instance
def decNestedFields : (ms ms' : List (String × DType F)) → Decidable (NestedFields ms ms')
  | [], _ => by simp only [NestedFields]; infer_instance
  | (k, t) :: rest, ms' => by
    simp only [NestedFields]
    have := decNestedFields rest ms'
    have : Decidable (match DType.member? ms' k with
     | some t' => Nested t t'
     | none => False) := by
      split
      · exact decNested t _
      · infer_instance
    infer_instance
end

instance (a b : DType F) : Decidable (Nested a b) := decNested a b

/-- monitor: the pair is one the check is written to accept -/
def nestedB (a b : DType F) : Bool := decide (Nested a b)

/-! ## side conditions of the soundness theorem (the quantifier of the property) -/

mutual
/-- "scaled integers with grid-aligned limits": every scaled limit is the grid value of its grid index -/
def GridAligned : DType F → Prop
  | .scaled s mn mx _ _ => snap s mn = some mn ∧ snap s mx = some mx
  | .array e _ _ => GridAligned e
  | .tuple es => GridAlignedList es
  | .struct ms _ _ => GridAlignedFields ms
  | _ => True
def GridAlignedList : List (DType F) → Prop
  | [] => True
  | t :: ts => GridAligned t ∧ GridAlignedList ts
def GridAlignedFields : List (String × DType F) → Prop
  | [] => True
  | (_, t) :: ts => GridAligned t ∧ GridAlignedFields ts
end

mutual
/-- every `relative_resolution` of a double is at most 1 (a larger one makes the tolerance shrink faster
than the value moves: recorded finding `C03:sound:double->double:relative-resolution-above-1`) -/
def ResLeOne : DType F → Prop
  | .double _ _ _ rr => resLeOne rr = true
  | .array e _ _ => ResLeOne e
  | .tuple es => ResLeOneList es
  | .struct ms _ _ => ResLeOneFields ms
  | _ => True
def ResLeOneList : List (DType F) → Prop
  | [] => True
  | t :: ts => ResLeOne t ∧ ResLeOneList ts
def ResLeOneFields : List (String × DType F) → Prop
  | [] => True
  | (_, t) :: ts => ResLeOne t ∧ ResLeOneFields ts
end

mutual
/-- a struct of `a` whose members are *all* optional (the constructor's default, which `StructOf.compatible`
takes as "not specified") has no member that is mandatory in the corresponding struct of `b`
(excludes the recorded finding `C03:sound:struct->struct:optional-vs-mandatory`) -/
def OptionalRespected : DType F → DType F → Prop
  | .array e _ _, b =>
    match b with
    | .array e' _ _ => OptionalRespected e e'
    | _ => True
  | .tuple es, b =>
    match b with
    | .tuple es' => OptionalRespectedList es es'
    | _ => True
  | .struct ms opt _, b =>
    match b with
    | .struct ms' opt' _ =>
      ((∀ k ∈ ms.map (·.1), k ∈ opt) → ∀ k ∈ opt, k ∈ ms'.map (·.1) → k ∈ opt') ∧ OptionalRespectedFields ms ms'
    | _ => True
  | _, _ => True
def OptionalRespectedList : List (DType F) → List (DType F) → Prop
  | t :: ts, t' :: ts' => OptionalRespected t t' ∧ OptionalRespectedList ts ts'
  | _, _ => True
def OptionalRespectedFields : List (String × DType F) → List (String × DType F) → Prop
  | [], _ => True
  | (k, t) :: rest, ms' =>
    (match DType.member? ms' k with
     | some t' => OptionalRespected t t'
     | none => True) ∧ OptionalRespectedFields rest ms'
end

/-! ## soundness of a verdict -/

/-- every value valid for `a` is valid for `b` — `accepts b v` is what `b.validate(v)` did -/
def Sound (a : DType F) (accepts : PVal F → Prop) : Prop := ∀ v, InSet a v → accepts v

/-- the outcome classes of a compatibility check -/
inductive Verdict where
  | pass
  | bad                       -- `RangeError` / `WrongTypeError`
  | other (pyclass : String)
  deriving DecidableEq, Inhabited

/-- one witness tried by the harness: a value, and what the real `b.validate(v)` answered -/
structure Witness (F : Type) where
  value : PVal F
  accepted : Bool

/-- clauses of the statement that a verdict of the implementation breaks, given witnesses run through the
real `b.validate`: a passing verdict is refuted by a value of `a`'s value set that `b` refuses; a refusing
verdict on a nested pair is its own witness -/
def judgeCompat (a b : DType F) (verdict : Verdict) (ws : List (Witness F)) : List String :=
  match verdict with
  | .pass => if ws.any (fun w => Frappy.Spec.C01.inSetB a w.value && !w.accepted) then ["sound"] else []
  | .bad => if nestedB a b then ["complete"] else []
  | .other _ => if nestedB a b then ["complete"] else []

/-! ## derived datatype classes (`TextType`, `LimitsType`, `StatusType`)

A derived class has the kind — and the description — of the class it derives from; `LimitsType` narrows the
value set of its kind to *ordered* pairs ("accepts an ordered tuple of numeric member types"). -/

open Frappy.Datatypes (CType)

/-- `a < b` for two numbers of one number kind -/
def NumLt : PVal F → PVal F → Prop
  | .float x, .float y => lt x y = true
  | .int i, .int j => i < j
  | _, _ => False

instance (a b : PVal F) : Decidable (NumLt a b) := by
  unfold NumLt; split <;> infer_instance

mutual
/-- every pair held where the type has a `LimitsType` is ordered: the maximum is not below the minimum -/
def OrderedIn : CType F → PVal F → Prop
  | .limits m, v =>
    match v with
    | .tuple [x, y] => ¬ NumLt y x ∧ OrderedIn m x ∧ OrderedIn m y
    | _ => True
  | .array e _ _, v =>
    match v with
    | .tuple vs => ∀ x ∈ vs, OrderedIn e x
    | _ => True
  | .tuple es, v =>
    match v with
    | .tuple vs => OrderedZip es vs
    | _ => True
  | .struct ms _ _, v =>
    match v with
    | .dict fields => ∀ kv ∈ fields, OrderedMember ms kv.1 kv.2
    | _ => True
  | .leaf _, _ => True
  | .text _, _ => True
  | .status _, _ => True
def OrderedZip : List (CType F) → List (PVal F) → Prop
  | t :: ts, v :: vs => OrderedIn t v ∧ OrderedZip ts vs
  | _, _ => True
def OrderedMember : List (String × CType F) → String → PVal F → Prop
  | [], _, _ => True
  | (k, t) :: rest, key, v => if k = key then OrderedIn t v else OrderedMember rest key v
end

mutual
def decOrderedIn : (a : CType F) → (v : PVal F) → Decidable (OrderedIn a v)
  | .limits m, v => by
    unfold OrderedIn
    split
    · have := decOrderedIn m; infer_instance
    · infer_instance
  | .array e _ _, v => by
    unfold OrderedIn
    split
    · have : ∀ x, Decidable (OrderedIn e x) := decOrderedIn e; infer_instance
    · infer_instance
  | .tuple es, v => by
    unfold OrderedIn
    split
    · exact decOrderedZip es _
    · infer_instance
  | .struct ms _ _, v => by
    unfold OrderedIn
    split
    · have : ∀ k x, Decidable (OrderedMember ms k x) := decOrderedMember ms; infer_instance
    · infer_instance
  | .leaf _, _ => by unfold OrderedIn; infer_instance
  | .text _, _ => by unfold OrderedIn; infer_instance
  | .status _, _ => by unfold OrderedIn; infer_instance
def decOrderedZip : (ts : List (CType F)) → (vs : List (PVal F)) → Decidable (OrderedZip ts vs)
  | t :: ts, v :: vs => by
    unfold OrderedZip
    have := decOrderedIn t v
    have := decOrderedZip ts vs
    infer_instance
  | [], _ => by unfold OrderedZip; infer_instance
  | _ :: _, [] => by unfold OrderedZip; infer_instance
def decOrderedMember : (ms : List (String × CType F)) → (k : String) → (v : PVal F) → Decidable (OrderedMember ms k v)
  | [], _, _ => by unfold OrderedMember; infer_instance
  | (k, t) :: rest, key, v => by
    unfold OrderedMember
    have := decOrderedIn t v
    have := decOrderedMember rest key v
    infer_instance
end

instance (a : CType F) (v : PVal F) : Decidable (OrderedIn a v) := decOrderedIn a v

/-- the value set of a tree with derived classes: the set of its kind tree, pairs of a `LimitsType` ordered -/
def InSetC (a : CType F) (v : PVal F) : Prop := InSet a.erase v ∧ OrderedIn a v

/-- what the monitor decides (`InSetM` for `InSet`, as in C01) -/
def inSetCB (a : CType F) (v : PVal F) : Bool := Frappy.Spec.C01.inSetB a.erase v && decide (OrderedIn a v)

mutual
/-- wherever the second type demands ordered pairs (a `LimitsType`) the first does so as well — recursion over the
second type, the first followed by position (`tupleMembers?`: the members of any tuple class) -/
def limitsCovered : CType F → CType F → Bool
  | _, .leaf _ => true
  | _, .text _ => true
  | _, .status _ => true
  | a, .limits m' =>
    match a with
    | .limits m => limitsCovered m m'
    | _ => false
  | a, .array e' _ _ =>
    match a with
    | .array e _ _ => limitsCovered e e'
    | _ => true
  | a, .tuple es' => limitsCoveredList (a.tupleMembers?.getD []) es'
  | a, .struct ms' _ _ =>
    match a with
    | .struct ms _ _ => limitsCoveredFields ms ms'
    | _ => true
def limitsCoveredList : List (CType F) → List (CType F) → Bool
  | x :: xs, y :: ys => limitsCovered x y && limitsCoveredList xs ys
  | _, _ => true
def limitsCoveredFields : List (String × CType F) → List (String × CType F) → Bool
  | _, [] => true
  | ms, (k, t') :: rest =>
    (match CType.member? ms k with
     | some t => limitsCovered t t'
     | none => true) && limitsCoveredFields ms rest
end

/-- the value set of `a` is nested in the one of `b` for the pairings of the statement, derived classes taken as
the kind they are described as: the kind trees are nested, and no `LimitsType` of `b` meets anything but a
`LimitsType` of `a` (a plain tuple holds unordered pairs as well) -/
def NestedC (a b : CType F) : Prop := Nested a.erase b.erase ∧ limitsCovered a b = true

instance (a b : CType F) : Decidable (NestedC a b) := by unfold NestedC; infer_instance

def nestedCB (a b : CType F) : Bool := decide (NestedC a b)

/-- every value valid for `a` is valid for `b` -/
def SoundC (a : CType F) (accepts : PVal F → Prop) : Prop := ∀ v, InSetC a v → accepts v

/-- `judgeCompat` for trees with derived classes -/
def judgeCompatC (a b : CType F) (verdict : Verdict) (ws : List (Witness F)) : List String :=
  match verdict with
  | .pass => if ws.any (fun w => inSetCB a w.value && !w.accepted) then ["sound"] else []
  | .bad => if nestedCB a b then ["complete"] else []
  | .other _ => if nestedCB a b then ["complete"] else []

/-! ## commands: the argument goes to the other command, the result comes back from it -/

open Frappy.Datatypes (CmdType) in
/-- a command can stand in for another one: both take an argument or none and every argument valid here is valid there,
both give a result or none and every result of the other is valid here -/
def NestedCmd (a b : CmdType F) : Prop :=
  (match a.argument, b.argument with
   | none, none => True
   | some x, some y => NestedC x y
   | _, _ => False) ∧
  (match a.result, b.result with
   | none, none => True
   | some x, some y => NestedC y x
   | _, _ => False)

open Frappy.Datatypes (CmdType) in
instance (a b : CmdType F) : Decidable (NestedCmd a b) := by
  unfold NestedCmd
  have : Decidable (match a.argument, b.argument with
   | none, none => True
   | some x, some y => NestedC x y
   | _, _ => False) := by split <;> infer_instance
  have : Decidable (match a.result, b.result with
   | none, none => True
   | some x, some y => NestedC y x
   | _, _ => False) := by split <;> infer_instance
  infer_instance

open Frappy.Datatypes (CmdType) in
/-- clauses a verdict of `CommandType.compatible` breaks: a passing one when one command takes an argument (gives a
result) and the other does not, or by a witness — an argument of `a` refused by `b`'s argument type, a result of `b`
refused by `a`'s result type; a refusing one on a nested pair -/
def judgeCmd (a b : CmdType F) (verdict : Verdict) (wsArg wsRes : List (Witness F)) : List String :=
  match verdict with
  | .pass =>
    (if a.argument.isSome != b.argument.isSome || a.result.isSome != b.result.isSome then ["sound"] else []) ++
    (match a.argument with
     | some x => if wsArg.any (fun w => inSetCB x w.value && !w.accepted) then ["sound"] else []
     | none => []) ++
    (match b.result with
     | some y => if wsRes.any (fun w => inSetCB y w.value && !w.accepted) then ["sound"] else []
     | none => [])
  | _ => if decide (NestedCmd a b) then ["complete"] else []

/-! ## equivalence of a rebuilt / copied type -/

mutual
/-- equality of JSON values up to the order of object members; numbers by representation -/
def jsonEq : JVal F → JVal F → Bool
  | .null, .null => true
  | .bool a, .bool b => a == b
  | .int a, .int b => a == b
  | .num a, .num b => same a b
  | .str a, .str b => a == b
  | .arr a, .arr b => jsonEqList a b
  | .obj a, .obj b => a.length == b.length && jsonSub a b
  | _, _ => false
def jsonEqList : List (JVal F) → List (JVal F) → Bool
  | [], [] => true
  | x :: xs, y :: ys => jsonEq x y && jsonEqList xs ys
  | _, _ => false
/-- every member of the left object is a member of the right one (keys are distinct) -/
def jsonSub : List (String × JVal F) → List (String × JVal F) → Bool
  | [], _ => true
  | (k, x) :: rest, other =>
    (match PVal.dictGet other k with
     | some y => jsonEq x y
     | none => false) && jsonSub rest other
end

/-- "the same datainfo again" -/
def SameDatainfo (a b : JVal F) : Prop := jsonEq a b = true

def outcomeEq : Outcome F → Outcome F → Bool
  | .ok a, .ok b => PVal.same a b
  | .bad, .bad => true
  | .other a, .other b => a == b
  | _, _ => false

/-- a probe value offered to the original and to the rebuilt / copied type: what each answered -/
structure Probe (F : Type) where
  original : Outcome F
  derived : Outcome F

/-- "accepts and rejects the same values with equal results" on the probes tried -/
def SameBehaviour (ps : List (Probe F)) : Prop := ∀ p ∈ ps, outcomeEq p.original p.derived = true

/-- what the harness observed of a rebuild or copy: the derived type exists, the datainfo of both, probes -/
structure Derived (F : Type) where
  built : Bool                      -- `get_datatype` / `copy()` returned a datatype
  datainfo : JVal F
  datainfo' : Option (JVal F)
  probes : List (Probe F)

def judgeDerived (d : Derived F) : List String :=
  (if d.built then [] else ["built"]) ++
  (match d.datainfo' with
   | some j => if jsonEq d.datainfo j then [] else ["datainfo"]
   | none => if d.built then ["datainfo"] else []) ++
  (if d.probes.all (fun p => outcomeEq p.original p.derived) then [] else ["behaviour"])

/-- a tree whose description cannot be made or cannot be rebuilt (the grid value of a scaled limit is not a finite
number: `export_datatype` raises `OverflowError` or the constructor refuses the limit): nothing is promised about
the behaviour of a derived type.  What is still judged: IF a derived type exists its description is the identical
datainfo. -/
def judgeDescribed (d : Derived F) : List String :=
  (if d.built then [] else ["built"]) ++
  (match d.datainfo' with
   | some j => if jsonEq d.datainfo j then [] else ["datainfo"]
   | none => if d.built then ["datainfo"] else [])

/-- the monitor of the rebuild / copy streams: the tree decides (in Lean) which clauses apply.  Every tree whose scaled
limits have finite grid values - on the grid (the quantifier of the property) or NOT - is held to all clauses of
`judgeDerived`, the behaviour clause included: the repaired `ScaledInteger.validate` reads its limits through their grid
values only, so the round trip through the description changes no behaviour (`rebuild_snaps`, `copy_equiv_snaps`). -/
def judgeRebuilt (t : DInfo F) (d : Derived F) : List String :=
  if (DInfo.snapLimits t).isSome then judgeDerived d else judgeDescribed d

/-- what the harness observed of a rebuilt / copied command: it exists, the datainfo of both, and for the argument and
the result of the derived command (`none` = it has none) probes through the original's and the derived one's;
`shared` = kinds of the mutable objects reachable from both commands -/
structure CmdDerived (F : Type) where
  built : Bool
  datainfo : JVal F
  datainfo' : Option (JVal F)
  argument : Option (List (Probe F))
  result : Option (List (Probe F))
  shared : List String

/-- "an equivalent type" for a command: it exists, has the identical datainfo, an argument / a result exactly where the
original has one, and (for trees whose scaled limits have finite grid values, on the grid or not) argument and result
accept and reject the same values with equal results; a copy shares no mutable object -/
def judgeCmdDerived (c : CmdInfo F) (d : CmdDerived F) : List String :=
  let inQuantifier := (c.argument.map (fun t => (DInfo.snapLimits t).isSome)).getD true &&
    (c.result.map (fun t => (DInfo.snapLimits t).isSome)).getD true
  let same (ps : Option (List (Probe F))) : Bool := (ps.getD []).all (fun p => outcomeEq p.original p.derived)
  (if d.built then [] else ["built"]) ++
  (match d.datainfo' with
   | some j => if jsonEq d.datainfo j then [] else ["datainfo"]
   | none => if d.built then ["datainfo"] else []) ++
  (if d.built && (c.argument.isSome != d.argument.isSome || c.result.isSome != d.result.isSome) then ["shape"] else []) ++
  (if !inQuantifier || (same d.argument && same d.result) then [] else ["behaviour"]) ++
  (if d.shared.isEmpty then [] else ["shared"])

/-- what the harness observed around mutating a copy: kinds of the mutable objects reachable from both the
original and the copy; datainfo and probe outcomes of the original before and after the mutation -/
structure Mutation (F : Type) where
  shared : List String
  before : JVal F
  after : JVal F
  probes : List (Probe F)           -- original before / original after

def judgeMutation (m : Mutation F) : List String :=
  (if m.shared.isEmpty then [] else ["shared"]) ++
  (if jsonEq m.before m.after then [] else ["original-datainfo-changed"]) ++
  (if m.probes.all (fun p => outcomeEq p.original p.derived) then [] else ["original-behaviour-changed"])

/-! ## histories on one object: the description is the one of the datatype as it is NOW

"Exporting a datatype's datainfo … and rebuilding it yields an equivalent type" is said of a datatype, not of the
moment at which it is asked: after any history (descriptions asked for, properties and the main unit changed on the
object or on any of its members, descriptions asked for again) the type rebuilt from the datainfo exported NOW, and a
copy made NOW, are equivalent to the object as it is now (`judgeRebuilt` on the observations made at the end), and the
datainfo depends on nothing but the state of the object: a second object built by the constructors from the state read
off the first (its *twin*, never asked for a description before) exports the same datainfo. -/

/-- what the harness observed at the end of a history: the rebuild / copy made then, and the datainfo of the twin -/
structure Aged (F : Type) where
  derived : Derived F
  twin : Option (JVal F)            -- `none`: the state read off the object could not be rebuilt by the constructors

/-- `t` is the tree at the END of the history -/
def judgeHistory (t : DInfo F) (a : Aged F) : List String :=
  judgeRebuilt t a.derived ++
  (match a.twin with
   | some j => if jsonEq a.derived.datainfo j then [] else ["stale"]
   | none => [])

/-! ## the users of the check: the verdict in the direction in which the values flow

`ProxyModule._check_descriptive_data` is a compatibility check between a parameter of the proxy and the parameter of
the remote module it stands for.  Which of the two datatypes is "the first" follows from where the values come from:
every parameter is read and updated (a value valid remotely arrives at the proxy: remote → proxy); the proxy sends a
value only for a parameter which is writable ON ITS OWN SIDE (`proxy_class` makes a `write_<name>` for those only, and a
change request for a read-only parameter never reaches a write method): proxy → remote.  The check "passes" in a
direction when it logs no complaint about the datatypes that covers this direction: 'has an incompatible datatype'
covers the direction checked first, 'is not fully compatible' the reading direction of a writable parameter. -/

/-- what the harness observed of one parameter: the complaints logged, values of the proxy's type through the real
`validate` of the remote type and values of the remote type through the real `validate` of the proxy's -/
structure ProxyObs (F : Type) where
  incompatible : Bool
  notFully : Bool
  toRemote : List (Witness F)
  toProxy : List (Witness F)

/-- clauses broken by the check on one parameter; `writable`: the parameter of the PROXY is writable.
`sound-write`: no 'incompatible' complaint although a value the proxy may send is refused remotely;
`sound-read`: no complaint at all although a value the remote module may deliver is refused by the proxy;
`complete-write` / `complete-read`: a complaint although the value sets are nested in the direction(s) of the flow. -/
def judgeProxyParam (writable : Bool) (own remote : CType F) (o : ProxyObs F) : List String :=
  let quiet := !o.incompatible && !o.notFully
  (if writable && !o.incompatible && o.toRemote.any (fun w => inSetCB own w.value && !w.accepted) then ["sound-write"] else []) ++
  (if quiet && o.toProxy.any (fun w => inSetCB remote w.value && !w.accepted) then ["sound-read"] else []) ++
  (if writable && o.incompatible && nestedCB own remote then ["complete-write"] else []) ++
  (if !writable && !quiet && nestedCB remote own then ["complete-read"] else []) ++
  (if writable && o.notFully && nestedCB own remote && nestedCB remote own then ["complete-read"] else [])

end Frappy.Spec.C03
