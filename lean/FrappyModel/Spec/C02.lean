import FrappyModel.Spec.C01
import FrappyModel.Datatypes.Text
/-
C02 — Valid values survive the wire encoding and the text encoding unchanged.

Specification only, written from the statement:

* `Valid dt v`        — `v` is a valid value of `dt`: in the declared value set (`Spec.C01.InSetG`), every
                        scaled leaf being a value the grid reproduces (`SnapFix`: the grid law at that leaf)
* `KindOK dt j`       — `j` is JSON of the kind SECoP prescribes for `dt`, position by position
* `StrictJ j`         — strict JSON: no NaN / ±Infinity leaf
* "equal to v"        — `PVal.pyEq` (Python `==`)
* `SameButFloats a b` — equal at every non-float leaf (same shape, keys and order)
* the laws assumed of the float carrier (`WireLaws`) and of the library leaves (`TextLib.Lawful`,
  `B64Law`, `JsonText`) — one law per library function, tested on the implementation side.

The monitors (`kindOKB`, `strictB`, `validB`, the `judge…` functions) are `decide` of the same `Prop`s
and run in the driver on what the real implementation produced.
-/
namespace Frappy.Spec.C02
open FloatOps DType Frappy.Datatypes
open PVal (pyEq)
open Frappy.Spec.C01 (InSetG IsSome Canon decInSetG)
variable {F : Type} [FloatOps F]

/-! ## valid values -/

/-- the grid reproduces `x`: `round(x / scale) * scale` is `x` again -/
def SnapFix (scale x : F) : Prop := IsSome (snap scale x) x

instance (scale x : F) : Decidable (SnapFix scale x) := by unfold SnapFix; infer_instance

/-- a valid value of `dt` -/
def Valid (dt : DType F) (v : PVal F) : Prop := InSetG SnapFix dt v

instance (dt : DType F) (v : PVal F) : Decidable (Valid dt v) := decInSetG SnapFix dt v

def validB (dt : DType F) (v : PVal F) : Bool := decide (Valid dt v)

/-! ## kinds and strictness -/

/-- a number that is neither NaN nor ±infinity -/
def FiniteNum (x : F) : Prop := isNaN x = false ∧ le (neg maxFinite) x = true ∧ le x maxFinite = true

mutual
/-- strict JSON: every number is finite -/
def StrictJ : JVal F → Prop
  | .num x => FiniteNum x
  | .arr js => StrictList js
  | .obj fs => StrictFields fs
  | _ => True
def StrictList : List (JVal F) → Prop
  | [] => True
  | j :: js => StrictJ j ∧ StrictList js
def StrictFields : List (String × JVal F) → Prop
  | [] => True
  | (_, j) :: fs => StrictJ j ∧ StrictFields fs
end

mutual
/-- integer for int/scaled/enum, number for double, boolean for bool, string for string, base64 string
for blob, list for array/tuple (element-wise, a tuple with its arity), object for struct (member-wise) -/
def KindOK : DType F → JVal F → Prop
  | .double _ _ _ _, j =>
    match j with
    | .num _ => True
    | .int _ => True
    | _ => False
  | .int _ _, j =>
    match j with
    | .int _ => True
    | _ => False
  | .scaled _ _ _ _ _, j =>
    match j with
    | .int _ => True
    | _ => False
  | .enum _, j =>
    match j with
    | .int _ => True
    | _ => False
  | .bool, j =>
    match j with
    | .bool _ => True
    | _ => False
  | .string _ _ _, j =>
    match j with
    | .str _ => True
    | _ => False
  | .blob _ _, j =>
    match j with
    | .str s => (Base64.decode? s).isSome = true
    | _ => False
  | .array elem _ _, j =>
    match j with
    | .arr js => ∀ x ∈ js, KindOK elem x
    | _ => False
  | .tuple elems, j =>
    match j with
    | .arr js => KindZip elems js
    | _ => False
  | .struct ms _ _, j =>
    match j with
    | .obj fs => ∀ kv ∈ fs, KindMember ms kv.1 kv.2
    | _ => False
def KindZip : List (DType F) → List (JVal F) → Prop
  | [], [] => True
  | t :: ts, j :: js => KindOK t j ∧ KindZip ts js
  | _, _ => False
def KindMember : List (String × DType F) → String → JVal F → Prop
  | [], _, _ => False
  | (k, t) :: rest, key, j => if k = key then KindOK t j else KindMember rest key j
end

/-! ## "equal at every non-float leaf" -/

mutual
def SameButFloats : PVal F → PVal F → Prop
  | .float _, .float _ => True
  | .none, .none => True
  | .bool a, .bool b => a = b
  | .int a, .int b => a = b
  | .str a, .str b => a = b
  | .bytes a, .bytes b => a = b
  | .enum n v, .enum m w => n = m ∧ v = w
  | .tuple a, .tuple b => SameButFloatsList a b
  | .list a, .list b => SameButFloatsList a b
  | .dict a, .dict b => SameButFloatsFields a b
  | _, _ => False
def SameButFloatsList : List (PVal F) → List (PVal F) → Prop
  | [], [] => True
  | a :: l, b :: r => SameButFloats a b ∧ SameButFloatsList l r
  | _, _ => False
def SameButFloatsFields : List (String × PVal F) → List (String × PVal F) → Prop
  | [], [] => True
  | (k, a) :: l, (k', b) :: r => k = k' ∧ SameButFloats a b ∧ SameButFloatsFields l r
  | _, _ => False
end

mutual
/-- the type has no float leaf (no `double`, no `scaled`) -/
def NoFloatLeaf : DType F → Prop
  | .double _ _ _ _ => False
  | .scaled _ _ _ _ _ => False
  | .array e _ _ => NoFloatLeaf e
  | .tuple es => NoFloatLeafList es
  | .struct ms _ _ => NoFloatLeafFields ms
  | _ => True
def NoFloatLeafList : List (DType F) → Prop
  | [] => True
  | t :: ts => NoFloatLeaf t ∧ NoFloatLeafList ts
def NoFloatLeafFields : List (String × DType F) → Prop
  | [] => True
  | (_, t) :: ts => NoFloatLeaf t ∧ NoFloatLeafFields ts
end

/-! ## what is assumed of the float carrier (binary64: trusted, re-tested on the doubles drawn) -/

class WireLaws (F : Type) [FloatOps F] : Prop where
  same_iff : ∀ x y : F, same x y = true ↔ x = y
  le_notNaN : ∀ x y : F, le x y = true → isNaN x = false ∧ isNaN y = false
  le_trans : ∀ x y z : F, le x y = true → le y z = true → le x z = true
  feq_refl : ∀ x : F, isNaN x = false → feq x x = true
  le_refl : ∀ x : F, isNaN x = false → le x x = true
  /-- `-sys.float_info.max <= sys.float_info.max` -/
  negMax_le_max : le (neg maxFinite : F) maxFinite = true
  /-- `x + 0.0` is `x` for every comparison (`-0.0 + 0.0 == -0.0`) -/
  isNaN_addZero : ∀ x : F, isNaN (addZero x) = isNaN x
  le_addZero_left : ∀ x y : F, le (addZero x) y = le x y
  le_addZero_right : ∀ x y : F, le y (addZero x) = le y x
  feq_addZero_self : ∀ x : F, isNaN x = false → feq (addZero x) x = true
  mul_comm : ∀ x y : F, mul x y = mul y x
  /-- integers within the widest integer limits (±2^64) convert to float -/
  ofInt_inRange : ∀ i : Int, -intLimit ≤ i → i ≤ intLimit → ∃ y : F, ofInt i = some y

/-! ## what is assumed of the library leaves -/

/-- `base64.b64decode(base64.b64encode(b), validate=True) == b` -/
def B64Law : Prop := ∀ b : List UInt8, Base64.decode? (Base64.encode b) = some b

/-- `json.dumps` / `json.loads` over strict values: the text layer (floats are opaque tokens of the
text; `float(repr(x)) == x` is the library's law and part of this one) -/
structure JsonText (F : Type) [FloatOps F] where
  dumps : JVal F → String
  loads : String → Option (JVal F)
  loads_dumps : ∀ j : JVal F, StrictJ j → loads (dumps j) = some j

/-- one law per library function of the text forms -/
structure TextLib.Lawful (lib : TextLib F) : Prop where
  /-- `ast.literal_eval(repr(s)) == s` -/
  evalStr : ∀ s : String, lib.evalAtom (lib.reprStr s) = some (.str s)
  /-- `ast.literal_eval(repr(b)) == b` -/
  evalBytes : ∀ b : List UInt8, lib.evalAtom (lib.reprBytes b) = some (.bytes b)
  /-- `ast.literal_eval(str(i)) == i` -/
  evalInt : ∀ i : Int, lib.evalAtom (lib.fmtInt i) = some (.int i)
  /-- `ast.literal_eval(repr(b)) is b` -/
  evalBool : ∀ b : Bool, lib.evalAtom (lib.reprBool b) = some (.bool b)
  /-- `repr(True)` / `repr(False)` are among the words `BoolType.from_string` knows, also after `strip` -/
  boolWordTrue : lib.strip (lib.reprBool true) = "True"
  boolWordFalse : lib.strip (lib.reprBool false) = "False"
  /-- idempotence of format∘parse, stated of the library and the float arithmetic alone (no frappy code): the text of a
  finite float that is not `-0.0` is a number literal `w` (a float, or an int: `'%.0f' % 3.0` is `'3'`) which is not NaN,
  and formatting the number it reads back as — brought into the float range, as `'%.3g' % 1.797e308` is `'1.8e+308'` and
  reads back as `inf` — gives the same text: `fmt % clamp(-max, literal_eval(fmt % x) + 0.0, max) == fmt % x`.
  That `FloatRange.__call__` accepts such a `w` and returns exactly that clamped number is proved from the model
  (`Lemmas.C02.doubleCall_of_number`), not assumed. -/
  fmtDouble : ∀ (pos : List Nat) (x : F), FiniteNum x → same (addZero x) x = true →
    ∃ w r, lib.evalAtom (lib.fmtFloat pos x) = some w ∧ PVal.toFloat? w = some r ∧ isNaN r = false ∧
      lib.fmtFloat pos (median3 (neg maxFinite) r maxFinite) = lib.fmtFloat pos x
  /-- … for a value `x` the grid of `scale` reproduces: the text is a number literal, the grid value `y` nearest to the
  number read (`round(r / scale) * scale`) is finite, prints as the same text and is again one the grid reproduces
  (`round(y / scale) * scale == y`).  That `ScaledInteger.__call__` returns this `y` is proved from the model
  (`Lemmas.C02.scaledCall_of_number`). -/
  fmtScaled : ∀ (pos : List Nat) (scale x : F), SnapFix scale x → same (addZero x) x = true →
    ∃ w r y, lib.evalAtom (lib.fmtFloat pos x) = some w ∧ PVal.toFloat? w = some r ∧ DType.snap scale r = some y ∧
      isFinite y = true ∧ lib.fmtFloat pos y = lib.fmtFloat pos x ∧ SnapFix scale y

mutual
/-- the grid law at the limits of every scaled leaf: the limits travel in the description as grid indices
(`round(min / scale)`, `round(max / scale)`) and come back as `index * scale`; those snapped limits are values the grid
reproduces (`round(lo / scale) * scale == lo`).  Then the rebuilt type has the same value set as the node's. -/
def LimitsOnGrid : DType F → Prop
  | .scaled scale min max _ _ =>
    (∀ lo, snap scale min = some lo → SnapFix scale lo) ∧ (∀ hi, snap scale max = some hi → SnapFix scale hi)
  | .array e _ _ => LimitsOnGrid e
  | .tuple es => LimitsOnGridList es
  | .struct ms _ _ => LimitsOnGridFields ms
  | _ => True
def LimitsOnGridList : List (DType F) → Prop
  | [] => True
  | t :: ts => LimitsOnGrid t ∧ LimitsOnGridList ts
def LimitsOnGridFields : List (String × DType F) → Prop
  | [] => True
  | (_, t) :: ts => LimitsOnGrid t ∧ LimitsOnGridFields ts
end

mutual
/-- every struct of a *node-side* type (`client = false`) is given with all its members: `from_string`
converts with `__call__`, which asks for the optional members too unless the type is a client's -/
def TextComplete : DType F → PVal F → Prop
  | .array e _ _, v =>
    match v with
    | .tuple vs => ∀ x ∈ vs, TextComplete e x
    | _ => True
  | .tuple es, v =>
    match v with
    | .tuple vs => TextCompleteZip es vs
    | _ => True
  | .struct ms _ client, v =>
    match v with
    | .dict fields =>
      (client = false → ∀ k ∈ ms.map (·.1), k ∈ fields.map (·.1)) ∧
      (∀ kv ∈ fields, TextCompleteMember ms kv.1 kv.2)
    | _ => True
  | _, _ => True
def TextCompleteZip : List (DType F) → List (PVal F) → Prop
  | t :: ts, v :: vs => TextComplete t v ∧ TextCompleteZip ts vs
  | _, _ => True
def TextCompleteMember : List (String × DType F) → String → PVal F → Prop
  | [], _, _ => True
  | (k, t) :: rest, key, v => if k = key then TextComplete t v else TextCompleteMember rest key v
end

/-! ## decidability: the monitors are `decide` of the definitions above -/

instance (x : F) : Decidable (FiniteNum x) := by unfold FiniteNum; infer_instance

mutual
def decStrictJ : (j : JVal F) → Decidable (StrictJ j)
  | .num x => by simp only [StrictJ]; infer_instance
  | .arr js => by simp only [StrictJ]; exact decStrictList js
  | .obj fs => by simp only [StrictJ]; exact decStrictFields fs
  | .null => by simp only [StrictJ]; infer_instance
  | .bool _ => by simp only [StrictJ]; infer_instance
  | .int _ => by simp only [StrictJ]; infer_instance
  | .str _ => by simp only [StrictJ]; infer_instance
def decStrictList : (js : List (JVal F)) → Decidable (StrictList js)
  | [] => by simp only [StrictList]; infer_instance
  | j :: js => by
    simp only [StrictList]
    have := decStrictJ j
    have := decStrictList js
    infer_instance
def decStrictFields : (fs : List (String × JVal F)) → Decidable (StrictFields fs)
  | [] => by simp only [StrictFields]; infer_instance
  | (_, j) :: fs => by
    simp only [StrictFields]
    have := decStrictJ j
    have := decStrictFields fs
    infer_instance
end

instance (j : JVal F) : Decidable (StrictJ j) := decStrictJ j

def strictB (j : JVal F) : Bool := decide (StrictJ j)

mutual
def decKindOK : (dt : DType F) → (j : JVal F) → Decidable (KindOK dt j)
  | .double _ _ _ _, j => by cases j <;> simp only [KindOK] <;> infer_instance
  | .int _ _, j => by cases j <;> simp only [KindOK] <;> infer_instance
  | .scaled _ _ _ _ _, j => by cases j <;> simp only [KindOK] <;> infer_instance
  | .enum _, j => by cases j <;> simp only [KindOK] <;> infer_instance
  | .bool, j => by cases j <;> simp only [KindOK] <;> infer_instance
  | .string _ _ _, j => by cases j <;> simp only [KindOK] <;> infer_instance
  | .blob _ _, j => by cases j <;> simp only [KindOK] <;> infer_instance
  | .array elem _ _, j => by
    cases j
    case arr js =>
      simp only [KindOK]
      have : ∀ x, Decidable (KindOK elem x) := decKindOK elem
      infer_instance
    all_goals (simp only [KindOK]; infer_instance)
  | .tuple elems, j => by
    cases j
    case arr js => simp only [KindOK]; exact decKindZip elems js
    all_goals (simp only [KindOK]; infer_instance)
  | .struct ms _ _, j => by
    cases j
    case obj fs =>
      simp only [KindOK]
      have : ∀ k x, Decidable (KindMember ms k x) := decKindMember ms
      infer_instance
    all_goals (simp only [KindOK]; infer_instance)
def decKindZip : (ts : List (DType F)) → (js : List (JVal F)) → Decidable (KindZip ts js)
  | [], [] => by simp only [KindZip]; infer_instance
  | t :: ts, j :: js => by
    simp only [KindZip]
    have := decKindOK t j
    have := decKindZip ts js
    infer_instance
  | [], _ :: _ => by simp only [KindZip]; infer_instance
  | _ :: _, [] => by simp only [KindZip]; infer_instance
def decKindMember : (ms : List (String × DType F)) → (k : String) → (j : JVal F) → Decidable (KindMember ms k j)
  | [], _, _ => by simp only [KindMember]; infer_instance
  | (k, t) :: rest, key, j => by
    simp only [KindMember]
    have := decKindOK t j
    have := decKindMember rest key j
    infer_instance
end

instance (dt : DType F) (j : JVal F) : Decidable (KindOK dt j) := decKindOK dt j

def kindOKB (dt : DType F) (j : JVal F) : Bool := decide (KindOK dt j)

mutual
def sameButFloatsB : PVal F → PVal F → Bool
  | .float _, .float _ => true
  | .none, .none => true
  | .bool a, .bool b => a == b
  | .int a, .int b => a == b
  | .str a, .str b => a == b
  | .bytes a, .bytes b => a == b
  | .enum n v, .enum m w => n == m && v == w
  | .tuple a, .tuple b => sameButFloatsListB a b
  | .list a, .list b => sameButFloatsListB a b
  | .dict a, .dict b => sameButFloatsFieldsB a b
  | _, _ => false
def sameButFloatsListB : List (PVal F) → List (PVal F) → Bool
  | [], [] => true
  | a :: l, b :: r => sameButFloatsB a b && sameButFloatsListB l r
  | _, _ => false
def sameButFloatsFieldsB : List (String × PVal F) → List (String × PVal F) → Bool
  | [], [] => true
  | (k, a) :: l, (k', b) :: r => k == k' && sameButFloatsB a b && sameButFloatsFieldsB l r
  | _, _ => false
end

/-! ## equality of texts (syntax trees) -/

mutual
def surfEq : Surf → Surf → Bool
  | .atom a, .atom b => a == b
  | .list a, .list b => surfEqList a b
  | .paren a ta, .paren b tb => ta == tb && surfEqList a b
  | .dict a, .dict b => surfEqFields a b
  | _, _ => false
def surfEqList : List Surf → List Surf → Bool
  | [], [] => true
  | a :: l, b :: r => surfEq a b && surfEqList l r
  | _, _ => false
def surfEqFields : List (String × Surf) → List (String × Surf) → Bool
  | [], [] => true
  | (k, a) :: l, (k', b) :: r => k == k' && surfEq a b && surfEqFields l r
  | _, _ => false
end

def textEq : Text → Text → Bool
  | .bare a, .bare b => a == b
  | .syn a, .syn b => surfEq a b
  | _, _ => false

/-! ## judging what the implementation produced -/

/-- outcome of a call of the implementation: a value, or the class of the exception -/
inductive Out (α : Type) where
  | ok (a : α)
  | err (pyclass : String)
  deriving Inhabited

/-- wire clauses: `export_value(v)` → `json.dumps` → `json.loads` (= `j`) → `import_value` on the node's
datatype (`node`) and on the client's rebuilt datatype (`client`, when the description could be rebuilt) -/
def judgeWire (dt : DType F) (v : PVal F) (exp : Out (JVal F)) (node : Option (Out (PVal F)))
    (clientBuilt : Bool) (client : Option (Out (PVal F))) : List String :=
  match exp with
  | .err _ => ["export:error"]
  | .ok j =>
    (if kindOKB dt j then [] else ["export:kind"]) ++
    (if strictB j then [] else ["export:strict"]) ++
    (match node with
     | some (.ok v') => if pyEq v' v then [] else ["node:neq"]
     | some (.err _) => ["node:error"]
     | none => ["node:missing"]) ++
    (if clientBuilt then
      (match client with
       | some (.ok v') => if pyEq v' v then [] else ["client:neq"]
       | some (.err _) => ["client:error"]
       | none => ["client:missing"])
     else [])                                       -- the description did not rebuild: C03's matter

/-- text clauses: `t = to_string(v)`, `back = from_string(t)`, `again = to_string(back)` -/
def judgeText (v : PVal F) (t : Out Text) (back : Option (Out (PVal F))) (again : Option (Out Text)) : List String :=
  match t with
  | .err _ => ["text:to_string-error"]
  | .ok t =>
    match back with
    | some (.ok v') =>
      (if sameButFloatsB v' v then [] else ["text:value-changed"]) ++
      (match again with
       | some (.ok t') => if textEq t' t then [] else ["text:form-changed"]
       | _ => ["text:to_string-again-error"])
    | some (.err _) => ["text:from_string-error"]
    | none => ["text:missing"]

/-- client string write: `back` = what `from_string` made of the text on the client, `sent` = the JSON
value found in the `change` line the client sent, `node` = `import_value(sent)` on the node's datatype.
The driver judges `setParameter(value)` of the cached value with the same function (`back` = the cached value;
clauses renamed `cset:…`): the exported form of the client's datatype is of the kind the node's type prescribes and
imports on the node to an equal value. -/
def judgeClientWrite (dt : DType F) (back : Out (PVal F)) (sent : Out (JVal F)) (node : Option (Out (PVal F))) : List String :=
  match back with
  | .err _ => []                                    -- judged by `judgeText`
  | .ok v' =>
    match sent with
    | .err _ => ["cwrite:send-error"]
    | .ok j =>
      (if kindOKB dt j then [] else ["cwrite:kind"]) ++
      (if strictB j then [] else ["cwrite:strict"]) ++
      (match node with
       | some (.ok v'') => if pyEq v'' v' then [] else ["cwrite:neq"]
       | some (.err _) => ["cwrite:node-error"]
       | none => ["cwrite:missing"])

/-- client command call `execCommand(module, command, v)` for a command whose argument and result are of the node's type
`dt` and which answers its argument: `sent` = the JSON value found in the `do` line, `node` = `import_value(sent)` on the
node's datatype, `res` = what `execCommand` returned (the client's `import_value` of the node's `export_value(node)`).
The argument is judged like a write (`judgeClientWrite`, clauses `cmd:…`); the result must equal `v`. -/
def judgeCommand (dt : DType F) (v : PVal F) (sent : Out (JVal F)) (node : Option (Out (PVal F)))
    (res : Option (Out (PVal F))) : List String :=
  (judgeClientWrite dt (.ok v) sent node).map (fun c => "cmd:" ++ (c.drop 7).toString) ++
  (match sent, node with
   | .ok _, some (.ok _) =>
     (match res with
      | some (.ok r) => if pyEq r v then [] else ["cmd:result-neq"]
      | some (.err _) => ["cmd:result-error"]
      | none => ["cmd:result-missing"])
   | _, _ => [])

end Frappy.Spec.C02
