import FrappyModel.Klass.ConfigAttach
import FrappyModel.Klass.ConfigUnit
/-
C10 — Configuration is applied faithfully; erroneous configuration is rejected whole.

Specification only.  Written from the statement over `(class description, cfg, observed result)`
records; the only things shared with the model are the data types of class descriptions, configurations
and the datatype oracles `Ops`.  Every `Prop` has a Boolean monitor (`…B`) which the driver runs on
records observed on the real implementation.
-/
namespace Frappy.Spec.C10
open Frappy.Config

variable {DT Val : Type}

/-! ## vocabulary of the statement -/

def isValueKey (k : Name) : Bool := k == "value" || k == "default"

/-- "the parameter's datatype after the overrides": the datatype properties of the cfg applied in order
(`none`: some override is itself erroneous) -/
def dtAfter (ops : Ops DT Val) : DT → List (Name × Val) → Option DT
  | dt, [] => some dt
  | dt, (k, v) :: rest =>
    if isValueKey k || (ops.ownProp k).isSome then dtAfter ops dt rest
    else match ops.setProp dt k v with
      | .ok dt' => dtAfter ops dt' rest
      | _ => none

/-- an entry of a parameter's cfg that names an unknown parameter property, or gives a property a value
of the wrong type, `dt` being the datatype with the overrides before it applied -/
def badPropEntry (ops : Ops DT Val) (dt : DT) (k : Name) (v : Val) : Bool :=
  !isValueKey k &&
  match ops.ownProp k with
  | some f => (f v).isNone
  | none => match ops.setProp dt k v with
    | .ok _ => false
    | _ => true

/-- some entry of `items` is a bad property entry -/
def hasBadProp (ops : Ops DT Val) : DT → List (Name × Val) → Bool
  | _, [] => false
  | dt, (k, v) :: rest =>
    badPropEntry ops dt k v ||
    (if isValueKey k || (ops.ownProp k).isSome then hasBadProp ops dt rest
     else match ops.setProp dt k v with
       | .ok dt' => hasBadProp ops dt' rest
       | _ => false)

/-- "each configured … parameter property … is applied": the parameter's own properties (readonly, visibility, export,
group, description, …) after the cfg — every configured one set to its value converted by the property's datatype, in
the order written, the others as the class has them -/
def ownAfter (ops : Ops DT Val) : List (Name × Val) → List (Name × Val) → List (Name × Val)
  | own, [] => own
  | own, (k, v) :: rest =>
    if isValueKey k then ownAfter ops own rest
    else match ops.ownProp k with
      | some f => (match f v with
        | some v' => ownAfter ops (setKey k v' own) rest
        | none => own)                      -- erroneous entry: the module is rejected
      | none => ownAfter ops own rest

def cfgOf (name : Name) (cfg : Cfg Val) : Option (List (Name × Val)) :=
  match lookup name cfg with
  | some (.acc items) => some items
  | _ => none

/-- the value the configuration (or, failing that, the class) gives for key `value`/`default` -/
def givenFor (key : Name) (classVal : Option Val) (items : List (Name × Val)) : Option Val :=
  items.foldl (fun acc kv => if kv.1 = key then some kv.2 else acc) classVal

/-- kinds of erroneous configuration named in the statement, for a parameter which starts from datatype `dt0`
and default `dflt` -/
inductive ParamOffence (ops : Ops DT Val) (pd : ParamDesc DT Val) (dt0 : DT) (dflt : Option Val)
    (items : List (Name × Val)) : Prop
  /-- unknown parameter property, or property value of the wrong type -/
  | badProp : hasBadProp ops dt0 items = true → ParamOffence ops pd dt0 dflt items
  /-- a value of the wrong type (for the datatype after the overrides) -/
  | badValue (dt' : DT) (x : Val) : dtAfter ops dt0 items = some dt' →
      (givenFor "value" pd.value items = some x ∨ givenFor "default" dflt items = some x) →
      ops.convert dt' x = none → ParamOffence ops pd dt0 dflt items
  /-- inverted limits after the overrides -/
  | inverted (dt' : DT) : dtAfter ops dt0 items = some dt' → ops.checkDT dt' = false →
      ParamOffence ops pd dt0 dflt items
  /-- required value missing -/
  | needsCfg : pd.needscfg = true → givenFor "value" pd.value items = none → ParamOffence ops pd dt0 dflt items

/-- what a parameter starts from before its own cfg is applied: the datatype and default of the class; for a
derived limit `<base>_min/_max/_limits`: the datatype derived from the base parameter's datatype AFTER the
base's overrides, and the corresponding limit of it as default -/
def startOf (ops : Ops DT Val) (c : ClassDesc DT Val) (cfg : Cfg Val) (pd : ParamDesc DT Val) :
    Option (DT × Option Val) :=
  match pd.dt with
  | some dt => some (dt, pd.default)
  | none =>
    match pd.limit with
    | none => none
    | some k =>
      match c.params.find? (fun b => b.name == pd.base) with
      | none => none
      | some b =>
        match b.dt with
        | none => none
        | some bdt0 =>
          match dtAfter ops bdt0 ((cfgOf b.name cfg).getD []) with
          | some bdt' => some (ops.limitDT k bdt', some (ops.limitDefault k bdt'))
          | none => none

/-- erroneous configuration of one module -/
inductive Offence (ops : Ops DT Val) (c : ClassDesc DT Val) (cfg : Cfg Val) : Prop
  /-- unknown property or parameter name -/
  | unknownName (k : Name) : k ∈ cfg.map (·.1) → k ∉ knownNames c → Offence ops c cfg
  /-- module property value of the wrong type -/
  | badModProp (d : ModPropDesc Val) (v : Val) : d ∈ c.modProps →
      (lookup d.name cfg = some (.prop (.bare v)) ∨ lookup d.name cfg = some (.prop (.dict (some v))) ∨
        ∃ items, lookup d.name cfg = some (.acc items) ∧ lookup "value" items = some v) →
      d.validate v = none → Offence ops c cfg
  /-- a module property given as a dict (`Param(value, key=…)`) with a key other than `value`: a property has no
  properties, the key is an unknown property name -/
  | propExtraKey (d : ModPropDesc Val) (items : List (Name × Val)) (k : Name) : d ∈ c.modProps →
      lookup d.name cfg = some (.acc items) → k ∈ items.map (·.1) → k ≠ "value" → Offence ops c cfg
  /-- mandatory property missing -/
  | mandatory (d : ModPropDesc Val) : d ∈ c.modProps → d.mandatory = true → d.classValue = none →
      lookup d.name cfg = none → Offence ops c cfg
  /-- a command configured with an unknown property, or with a property value of the wrong type -/
  | cmdProp (n : Name) (items : List (Name × Val)) (k : Name) (v : Val) : n ∈ c.otherNames →
      lookup n cfg = some (.acc items) → (k, v) ∈ items →
      (match ops.cmdProp k with | some f => (f v).isNone | none => true) = true → Offence ops c cfg
  /-- something wrong in the cfg of a parameter (own datatype, or derived limit) -/
  | param (pd : ParamDesc DT Val) (dt0 : DT) (dflt : Option Val) (items : List (Name × Val)) : pd ∈ c.params →
      startOf ops c cfg pd = some (dt0, dflt) →
      (lookup pd.name cfg = some (.acc items) ∨ (lookup pd.name cfg = none ∧ items = [])) →
      ParamOffence ops pd dt0 dflt items → Offence ops c cfg

/-! ## the configuration as it is WRITTEN in a configuration file

"Param() vs bare value": `key=v` configures the value `v` of `key`; `key=Param(v, k=x, …)` configures the value `v` and
the properties `k = x` in the order written; `key=Param(k=x, …)` configures properties only; `g=Group('a', 'b')` configures
the property `group = 'g'` of `a` and of `b`.  Whatever is written counts — a written value `None`, `0`, `''` is a
configured value (and has to be of the right type). -/

def writtenItems : DslArg Val → Option (List (Name × Val))
  | .bare v => some [("value", v)]
  | .param (some v) kwds => some (kwds ++ [("value", v)])
  | .param none kwds => some kwds
  | .group _ => none

/-- the group a `Group(…)` argument puts `k` into (the last one naming it) -/
def groupFor (args : List (Name × DslArg Val)) (k : Name) : Option Name :=
  args.foldl (fun acc kv => match kv.2 with
    | .group ms => if ms.contains k then some kv.1 else acc
    | _ => acc) none

def withGroup (mkStr : Name → Val) (g : Option Name) (items : List (Name × Val)) : List (Name × Val) :=
  match g with
  | some g => setKey "group" (mkStr g) items
  | none => items

/-- the module configuration a `Mod(name, cls, description, args…)` call stands for -/
def specCfg (mkStr : Name → Val) (description : Val) (args : List (Name × DslArg Val)) : Cfg Val :=
  ("description", Entry.prop (.bare description)) ::
  args.filterMap fun kv => (writtenItems kv.2).map fun items =>
    (kv.1, Entry.acc (withGroup mkStr (groupFor args kv.1) items))

/-- the hypotheses of `dsl_faithful` as a check the driver runs on every module it is given as written: keywords are
distinct, none is `description`, no `Param(v, value=…)`, every group member has an argument of its own -/
def writtenOkB (args : List (Name × DslArg Val)) : Bool :=
  decide ((args.map (·.1)).Nodup) && !(args.map (·.1)).contains "description" &&
  (args.all fun kv => match kv.2 with
    | .param (some _) kwds => (lookup "value" kwds).isNone
    | _ => true) &&
  (args.all fun kv => match kv.2 with
    | .group ms => ms.all fun m => args.any fun kv' => kv'.1 == m && (writtenItems kv'.2).isSome
    | _ => true)

/-- the hypotheses of the theorems about a class description (`WellFormed`) as a check the driver runs on every
description read off a real class: distinct property names, distinct parameter names, the base of a limit parameter is
not itself a limit -/
def wellFormedB (c : ClassDesc DT Val) : Bool :=
  decide ((c.modProps.map (·.name)).Nodup) && decide ((c.params.map (·.name)).Nodup) &&
  c.params.all fun pd => !pd.limit.isSome || c.params.all fun b => b.name != pd.base || b.limit.isNone

/-! ## the main unit

"the described datainfo shows the overridden limits/unit": units of parameters may refer to the unit of the main value by
`$`.  The unit configured for `value` (else its class unit) is what every `$` of every parameter of that instance shows —
wherever the `$` sits: in the unit of a scalar, of the members of an array, of a member of a tuple (the `<p>_limits` pair,
windows, tables).  A module without parameter `value`, or whose `value` has no unit, shows its units as they are. -/

/-- the main unit of the instance according to the configuration: the unit of the datatype of `value` after the
overrides (`none`: no parameter `value`, or no unit) -/
def mainUnit (ops : Ops DT Val) (u : UnitOps DT) (c : ClassDesc DT Val) (cfg : Cfg Val) : Option String :=
  match c.params.find? (fun pd => pd.name == "value") with
  | none => none
  | some pd =>
    match startOf ops c cfg pd with
    | none => none
    | some (dt0, _) =>
      match dtAfter ops dt0 ((cfgOf pd.name cfg).getD []) with
      | none => none
      | some dt' => if u.unitOf dt' = "" then none else some (u.unitOf dt')

/-- the datatype a parameter SHOWS: the datatype after the overrides with the main unit put in -/
def shownDT (u : UnitOps DT) (mu : Option String) (dt' : DT) : DT :=
  match mu with
  | some m => u.setMainUnit m dt'
  | none => dt'

/-- hypothesis of `main_unit_applied`, checked by the driver on every case: the parameter called `value`, if any, has
a datatype to start from -/
def valueTypedB (ops : Ops DT Val) (c : ClassDesc DT Val) (cfg : Cfg Val) : Bool :=
  c.params.all fun pd => pd.name != "value" || (startOf ops c cfg pd).isSome

/-! ## what is observed on the implementation -/

structure ObsParam (DT Val : Type) where
  name : Name
  value : Option Val                 -- start value in the cache
  datainfo : Option DT               -- what `describe` shows (none: not described)
  described : Option Name            -- exported name in the description
  reach : List Name                  -- exported names under which requests reach the parameter
  own : List (Name × Val)            -- readonly / visibility as described
  probes : List (Val × Bool)         -- later range checks: (candidate, accepted by a `change`-style validation)

structure ObsModule (DT Val : Type) where
  registered : Bool
  errors : List CfgErr               -- kinds reported for this module
  params : List (ObsParam DT Val)
  modProps : List (Name × Val)
  events : List (Ev Val)             -- calls of `write_<p>` and the first poll, in order
  driver : List (Name × Val)         -- what reached the driver's own write functions

/-! ## clause 1: applied faithfully -/

def findObs (name : Name) : List (ObsParam DT Val) → Option (ObsParam DT Val)
  | [] => none
  | p :: r => if p.name = name then some p else findObs name r

/-- expected exported name: `export` configured/class value `true` ↦ `_name` (custom parameter), a string ↦ that
string, `false` ↦ not exported.  `exportName` is supplied by the driver (it needs the table of predefined names). -/
structure Glue (DT Val : Type) where
  beqVal : Val → Val → Bool
  beqDT : DT → DT → Bool
  exportName : Name → Option Val → Option Name      -- parameter name, `export` property value ↦ exported name

def optB {α : Type} (eq : α → α → Bool) : Option α → Option α → Bool
  | none, none => true
  | some a, some b => eq a b
  | _, _ => false

/-- one configured parameter (own datatype) shows its configuration on the instance -/
def paramAppliedB (ops : Ops DT Val) (g : Glue DT Val) (shown : DT → DT) (pd : ParamDesc DT Val) (dt0 : DT)
    (dflt : Option Val) (items : List (Name × Val))
    (o : ObsParam DT Val) : Bool :=
  match dtAfter ops dt0 items with
  | none => false
  | some dt' =>
    -- start value = configured value converted by the datatype after the overrides
    (match givenFor "value" pd.value items with
     | some x => optB g.beqVal o.value (ops.convert dt' x)
     | none => match givenFor "default" dflt items with
       | some d => optB g.beqVal o.value (ops.convert dt' d)
       | none => true) &&
    -- own properties as described: the class values with the configured ones set (`ownAfter`)
    (o.described.isNone || ["readonly", "visibility", "group"].all fun k =>
      match lookup k (ownAfter ops pd.own items) with
      | some v => optB g.beqVal (lookup k o.own) (some v)
      | none => true) &&
    -- export: described under the configured name, reachable under it and under no other
    (let ex := g.exportName pd.name (match lookup "export" items with
        | some v => (ops.ownProp "export").bind (fun f => f v)
        | none => lookup "export" pd.own)
     optB (· == ·) o.described ex && (o.reach == ex.toList)) &&
    -- the described datainfo shows the overridden limits/unit (`shown`: with the main unit in place of `$`)
    (match o.described with
     | some _ => optB g.beqDT o.datainfo (some (shown dt'))
     | none => true) &&
    -- later range checks use them
    (o.probes.all fun pr => pr.2 == (ops.validate dt' pr.1).isSome)

/-- the value the configuration gives for a module property -/
def propGiven (d : ModPropDesc Val) (cfg : Cfg Val) : Option Val :=
  match lookup d.name cfg with
  | some (.prop (.bare v)) => some v
  | some (.prop (.dict v)) => v
  | some (.acc items) => lookup "value" items
  | none => none

/-- "each configured module property … is applied to that instance": the instance shows the configured value,
converted to the property's datatype — on EVERY instance built from the configuration (each module of a file, each
start of the node) -/
def modPropsB (g : Glue DT Val) (c : ClassDesc DT Val) (cfg : Cfg Val) (o : ObsModule DT Val) : Bool :=
  !o.registered ||
  c.modProps.all fun d =>
    match propGiven d cfg with
    | some v =>
      (match d.validate v, lookup d.name o.modProps with
       | some v', some w => g.beqVal w v'
       | _, _ => true)          -- not observed; an ill-typed value is judged by `rejectedB`
    | none => true

def appliedB (ops : Ops DT Val) (u : UnitOps DT) (g : Glue DT Val) (c : ClassDesc DT Val) (cfg : Cfg Val)
    (o : ObsModule DT Val) : Bool :=
  !o.registered ||
  modPropsB g c cfg o &&
  c.params.all fun pd =>
    match startOf ops c cfg pd with
    | some (dt0, dflt) =>
      (match findObs pd.name o.params with
       | some op => paramAppliedB ops g (shownDT u (mainUnit ops u c cfg)) pd dt0 dflt ((cfgOf pd.name cfg).getD []) op
       | none => false)
    | none => true

/-! ## clause 2: writes exactly once, before the first poll -/

/-- the parameters whose configured (or class level) value has to be written, with that value -/
def toWrite (c : ClassDesc DT Val) (cfg : Cfg Val) : List (Name × Val) :=
  c.params.filterMap fun pd =>
    if pd.hasWrite then
      (givenFor "value" pd.value ((cfgOf pd.name cfg).getD [])).map (fun x => (pd.name, x))
    else none

/-- everything handed to write methods, in order: the argument of each call and what the call took from `writeDict`
besides -/
def handed : List (Ev Val) → List (Name × Val)
  | [] => []
  | .write p v also :: r => (p, v) :: also ++ handed r
  | .firstPoll :: r => handed r

/-- "handed to that method exactly once, before the first poll", for the whole start-up: what is handed over before
the first poll is a rearrangement of the values to be written (every one once, nothing else), and nothing is handed
over afterwards -/
def HandedOnce (evs : List (Ev Val)) (toWrite : List (Name × Val)) : Prop :=
  ∃ pre post, evs = pre ++ Ev.firstPoll :: post ∧ Ev.firstPoll ∉ pre ∧ (handed pre).Perm toWrite ∧ handed post = []

def valuesOf (p : Name) (l : List (Name × Val)) : List Val := (l.filter (fun kv => kv.1 == p)).map (·.2)

def beforePoll : List (Ev Val) → List (Ev Val)
  | [] => []
  | .firstPoll :: _ => []
  | e :: r => e :: beforePoll r

def hasPoll : List (Ev Val) → Bool
  | [] => false
  | .firstPoll :: _ => true
  | _ :: r => hasPoll r

/-- monitor: every value to be written is handed over once, before the first poll; nothing else is written;
what reaches the driver's own function is the validated value, or nothing when validation refuses it -/
def writesB (ops : Ops DT Val) (g : Glue DT Val) (c : ClassDesc DT Val) (cfg : Cfg Val) (o : ObsModule DT Val) : Bool :=
  !o.registered ||
  (c.params.all fun pd =>
    let ws := valuesOf pd.name (handed o.events)
    let expect := if pd.hasWrite then givenFor "value" pd.value ((cfgOf pd.name cfg).getD []) else none
    match expect with
    | some x => (match ws with | [v] => g.beqVal v x | _ => false) &&
                (valuesOf pd.name (handed (beforePoll o.events))).length == 1
    | none => ws.isEmpty) &&
  hasPoll o.events

/-! ## clause 3: rejected as a whole -/

def paramOffenceB (ops : Ops DT Val) (pd : ParamDesc DT Val) (dt0 : DT) (dflt : Option Val)
    (items : List (Name × Val)) : Bool :=
  hasBadProp ops dt0 items ||
  (match dtAfter ops dt0 items with
   | some dt' =>
     (match givenFor "value" pd.value items with | some x => (ops.convert dt' x).isNone | none => false) ||
     (match givenFor "default" dflt items with | some x => (ops.convert dt' x).isNone | none => false) ||
     !ops.checkDT dt'
   | none => false) ||
  (pd.needscfg && (givenFor "value" pd.value items).isNone)

def offendingB (ops : Ops DT Val) (c : ClassDesc DT Val) (cfg : Cfg Val) : Bool :=
  (cfg.any fun kv => !(knownNames c).contains kv.1) ||
  (c.modProps.any fun d =>
    match lookup d.name cfg with
    | some (.prop (.bare v)) => (d.validate v).isNone
    | some (.prop (.dict (some v))) => (d.validate v).isNone
    | some (.acc items) => (items.any fun kv => kv.1 != "value") ||
        (match lookup "value" items with | some v => (d.validate v).isNone | none => false)
    | none => d.mandatory && d.classValue.isNone
    | _ => false) ||
  (c.otherNames.any fun n =>
    match lookup n cfg with
    | some (.acc items) => items.any fun kv => match ops.cmdProp kv.1 with
      | some f => (f kv.2).isNone
      | none => true
    | _ => false) ||
  (c.params.any fun pd =>
    match startOf ops c cfg pd with
    | some (dt0, dflt) =>
      (match lookup pd.name cfg with
       | some (.acc items) => paramOffenceB ops pd dt0 dflt items
       | none => paramOffenceB ops pd dt0 dflt []
       | _ => false)
    | none => false)

/-- an erroneous configuration registers nothing and is reported -/
def rejectedB (ops : Ops DT Val) (c : ClassDesc DT Val) (cfg : Cfg Val) (o : ObsModule DT Val) : Bool :=
  !offendingB ops c cfg || (!o.registered && !o.errors.isEmpty)

/-- forms of configuration outside the vocabulary of the statement which the constructor refuses (a parameter
configured by something that is not a dict in a raw cfg, a property dict without `value`, a class whose
limit parameter has no base or whose parameter has no datatype) -/
def outsideB (c : ClassDesc DT Val) (cfg : Cfg Val) : Bool :=
  (c.modProps.any fun d => match lookup d.name cfg with
    | some (.prop (.dict none)) => true
    | some (.acc items) => (lookup "value" items).isNone
    | _ => false) ||
  (c.otherNames.any fun n => match lookup n cfg with | some (.prop _) => true | _ => false) ||
  (c.params.any fun pd => (match lookup pd.name cfg with | some (.prop _) => true | _ => false) ||
    (pd.dt.isNone && (pd.limit.isNone || !(c.params.any fun b => b.name == pd.base && b.dt.isSome))))

/-- a configuration without any of the listed errors is applied, not rejected -/
def acceptedB (ops : Ops DT Val) (c : ClassDesc DT Val) (cfg : Cfg Val) (o : ObsModule DT Val) : Bool :=
  offendingB ops c cfg || outsideB c cfg || o.registered

/-- never half applied: a module is registered xor reported -/
def wholeB (o : ObsModule DT Val) : Bool := o.registered != !o.errors.isEmpty

/-! ## module properties naming another module (`Attached`): applied / rejected with the whole node at hand

"each configured module property … is applied to that instance": for a property declared `Attached(basecls)` the value is
the NAME of another module of the node and applying it means that the attribute of the instance IS that module.  A name
no module of the node has, or the name of a module which is not a `basecls` ("a value of the wrong type"), can not be
applied: the configuration is erroneous, whether the property is mandatory or optional and whether or not the module's
own code uses the attribute while it is initialised.  Such an error can only be seen once all modules are constructed,
so the module OBJECT exists; what the statement demands is observable as: the node refuses to start and the module is
among the failing modules reported together.  The empty string stands for "not attached" (docstring of `Attached`). -/

/-- the module name the configuration gives for an attached-module property: the configured (else class level) value
converted to the property's datatype, read as a module name (`none`: no value, or "not attached") -/
def attGiven (nameOf : Val → Option Name) (m : ModDecl DT Val) (d : AttDecl) : Option Name :=
  match m.cls.modProps.find? (fun pd => pd.name == d.prop) with
  | none => none
  | some pd =>
    match propGiven pd m.cfg with
    | some v => (pd.validate v).bind nameOf
    | none => pd.classValue.bind nameOf

/-- `t` is the name of a module of the node which is of the kind the property asks for -/
def targetOk (mods : List (ModDecl DT Val)) (d : AttDecl) (t : Name) : Bool :=
  mods.any fun x => x.name == t && x.kinds.contains d.base

/-- erroneous configuration of module `m` of the node `mods`: an attached-module property names a module which the node
does not have, or one of the wrong kind -/
inductive BadAttachment (nameOf : Val → Option Name) (mods : List (ModDecl DT Val)) (m : ModDecl DT Val) : Prop
  | mk (d : AttDecl) (t : Name) : d ∈ m.attached → attGiven nameOf m d = some t → targetOk mods d t = false →
      BadAttachment nameOf mods m

/-- applied: every attachment the configuration gives names a module of the node of the right kind, and the attribute
of the instance is that module -/
def AttachedApplied (nameOf : Val → Option Name) (mods : List (ModDecl DT Val))
    (attachedOf : Name → Name → Option Name) : Prop :=
  ∀ m ∈ mods, ∀ d ∈ m.attached, ∀ t, attGiven nameOf m d = some t →
    targetOk mods d t = true ∧ attachedOf m.name d.prop = some t

/-! ## clause 4: all failing modules reported together -/

structure ObsNode where
  configured : List Name
  registered : List Name
  reported : List Name          -- modules named in the error list as not created
  starts : Bool                 -- `_processCfg` would not exit
  initReported : List Name := []     -- modules named in the error list as created but not initialised
  attached : List (Name × Name × Option Name) := []   -- (module, property, what the attribute of the instance is)

def nodeB (n : ObsNode) : Bool :=
  n.configured.all (fun m => n.registered.contains m != n.reported.contains m) &&
  n.registered.all (fun m => n.configured.contains m) &&
  n.initReported.all (fun m => n.configured.contains m) &&
  (n.starts == (n.reported.isEmpty && n.initReported.isEmpty))

/-- the attribute `<m>.<prop>` as observed on the started node (`none`: `None`, or not observed) -/
def ObsNode.attachedOf (n : ObsNode) (m prop : Name) : Option Name :=
  (n.attached.find? (fun e => e.1 == m && e.2.1 == prop)).bind (·.2.2)

/-- monitor for `AttachedApplied` / `BadAttachment` on an observed node: a good attachment shows on the instance of a
node which starts (and where nothing is given the attribute is `None`); a bad one keeps the node from starting and its
module is reported -/
def attachedB (nameOf : Val → Option Name) (mods : List (ModDecl DT Val)) (n : ObsNode) : Bool :=
  mods.all fun m => m.attached.all fun d =>
    match attGiven nameOf m d with
    | none => !n.starts || n.attachedOf m.name d.prop == none
    | some t =>
      if targetOk mods d t then !n.starts || n.attachedOf m.name d.prop == some t
      else !n.starts && (n.reported.contains m.name || n.initReported.contains m.name)

/-- the attachments the configuration gives, as edges `module → attached module` -/
def attEdges (nameOf : Val → Option Name) (mods : List (ModDecl DT Val)) : List (Name × Name) :=
  mods.flatMap fun m => m.attached.filterMap fun d => (attGiven nameOf m d).map fun t => (m.name, t)

/-- one round: a module all of whose attached modules are settled is settled -/
def settle (edges : List (Name × Name)) (names done : List Name) : List Name :=
  done ++ names.filter fun x => !done.contains x && edges.all fun e => e.1 != x || done.contains e.2

def settleN (edges : List (Name × Name)) (names : List Name) : Nat → List Name
  | 0 => []
  | k + 1 => settle edges names (settleN edges names k)

/-- no module is (transitively) attached to itself -/
def acyclicB (nameOf : Val → Option Name) (mods : List (ModDecl DT Val)) : Bool :=
  (mods.map (·.name)).all (settleN (attEdges nameOf mods) (mods.map (·.name)) mods.length).contains

/-- attachments without error do not keep a node from starting: every module created, every given attachment names a
module of the node of the right kind, no module needs itself ⇒ no module fails to initialise -/
def attCleanB (nameOf : Val → Option Name) (mods : List (ModDecl DT Val)) (n : ObsNode) : Bool :=
  !(n.reported.isEmpty &&
    (mods.all fun m => m.attached.all fun d => match attGiven nameOf m d with
      | some t => targetOk mods d t
      | none => true) &&
    acyclicB nameOf mods) || n.initReported.isEmpty

/-! ## clause 5: merging -/

/-- what the merged configuration must contain for name `k`, files in the order given: the definition of the
first file that has it; `none` as origin for the first file, the equipment id of the defining file otherwise -/
def firstDef {M : Type} : List (CfgFile M) → Bool → Name → Option (M × Option Name)
  | [], _, _ => none
  | f :: rest, first, k =>
    match lookup k f.modules with
    | some m => some (m, if first then none else some f.equipmentId)
    | none => firstDef rest false k

def countFiles {M : Type} (files : List (CfgFile M)) (k : Name) : Nat :=
  (files.filter fun f => (lookup k f.modules).isSome).length

def mergeB {M : Type} (beq : M → M → Bool) (files : List (CfgFile M)) (m : Merged M) : Bool :=
  let names := files.flatMap fun f => f.modules.map (·.1)
  (names.all fun k =>
    match firstDef files true k, lookup k m.modules with
    | some (d, o), some (d', o') => beq d d' && o == o'
    | _, _ => false) &&
  (m.modules.all fun e => names.contains e.1) &&
  (names.all fun k => m.ambiguous.contains k == decide (2 ≤ countFiles files k)) &&
  (m.ambiguous.all fun k => names.contains k)

/-! ## which configuration file is applied

The configuration directories are an ordered list (`FRAPPY_CONFDIR=site:general`, a path list): what is found in an
earlier directory takes precedence over — shadows — everything of the same name in later directories, whatever the
suffixes; within one directory `<name>_cfg.py` is preferred to `<name>.py`, and that to `<name>`.  A name given with a
path separator is that file.  The node is built from exactly these files, in the order given ("config files merged from
several sources"); a name for which no directory has a file keeps the node from starting.

(This clause is not spelled out in the statement; it is what "the configuration" of a node started as
`frappy-server <name>` refers to.  A search which takes a file from a later directory although an earlier one has the
name silently ignores the configuration with precedence.) -/

/-- the first directory, in the order configured, which has the name under any of the suffixes -/
def firstDirWith (isFile : String → String → Bool) (dirs : List String) (n : String) : Option String :=
  dirs.find? fun d => cfgSuffixes.any fun s => isFile d (n ++ s)

/-- the file a configuration reference stands for -/
def fileFor (isFile : String → String → Bool) (dirs : List String) : CfgRef → Option (String × String)
  | .path p => if isFile "" p then some ("", p) else none
  | .name n =>
    match firstDirWith isFile dirs n with
    | none => none
    | some d => (cfgSuffixes.find? fun s => isFile d (n ++ s)).map fun s => (d, n ++ s)

/-- what is observed of one start from a list of configuration references: the files parsed, in order (`none`: the start
was refused because a file was not found) -/
def lookupB (isFile : String → String → Bool) (dirs : List String) (refs : List CfgRef)
    (loaded : Option (List (String × String))) : Bool :=
  match loaded with
  | none => refs.any fun r => (fileFor isFile dirs r).isNone
  | some fs => fs.map some == refs.map (fileFor isFile dirs)

end Frappy.Spec.C10
