import FrappyModel.Klass.Lifecycle
/-
C15 — Lifecycle: initialise, write config, poll, serve; shutdown in reverse order.

Specification only.  Everything here is read off the English statement and speaks about a *configuration* (modules,
their declared attachments, flags) and an *observation* (the event log of the instrumented lifecycle methods, the error
list, the list of modules of the node); nothing refers to how the model computes.  All clauses are decidable, the
monitor of a clause is `decide` of the clause itself.
-/
namespace Frappy.Spec.C15
open Frappy.Lifecycle

structure Obs where
  modules : List Name                 -- the modules of the node (SecNode.modules)
  errors : List Err                   -- SecNode.errors, classes
  log : List Ev
  ioDict : List (String × Name)       -- names given to automatically created communicators (a naming table only)
  written : List (Name × String × Int) := []   -- (module, parameter, value) of every call of a `write_` method, in order
  unready : List (Name × String × Name) := []  -- (user, attachment, module): the module object a user's hook was handed
                                               -- had not completed earlyInit / initModule / get_module at that moment
deriving Repr

/-! ## the attachment graph of a configuration -/

/-- every module the configuration describes: declared ones, the ones its Pinatas produce, shared communicators -/
def allMods (cfg : Cfg) (ioDict : List (String × Name)) : List ModCfg :=
  cfg.mods ++ cfg.dyn.filter (fun d => cfg.mods.any (fun p => p.cls == Cls.pinata && p.scan.contains d.name)) ++
  ioDict.map (fun p => autoIo p.2)

def names (u : List ModCfg) : List Name := u.map (·.name)

/-- the module an attachment of `c` points to: the configured name, or the shared communicator of its `uri` -/
def targetOf (ioDict : List (String × Name)) (c : ModCfg) (a : Att) : Option Name :=
  if a.name == "io" && c.cls == Cls.hasio then
    match c.uri with
    | some uri => ioDict.lookup uri
    | none => a.target
  else a.target

/-- attachments as edges user → attached module -/
def declaredEdges (u : List ModCfg) (ioDict : List (String × Name)) : List (Name × Name) :=
  u.flatMap (fun c => c.atts.filterMap (fun a => (targetOf ioDict c a).map (fun t => (c.name, t))))

def Missing (u : List ModCfg) (ioDict : List (String × Name)) : Prop :=
  ∃ c ∈ u, ∃ a ∈ c.atts,
    (a.mandatory = true ∧ a.target = none) ∨ (∃ t, targetOf ioDict c a = some t ∧ t ∉ names u)

def WronglyTyped (u : List ModCfg) (ioDict : List (String × Name)) : Prop :=
  ∃ c ∈ u, ∃ a ∈ c.atts, ∃ t, targetOf ioDict c a = some t ∧ ∃ d ∈ u, d.name = t ∧ kindOk a.kind d.cls = false

/-- a finite graph is acyclic iff its nodes can be numbered so that every edge goes downwards -/
def Ranked (edges : List (Name × Name)) : Prop :=
  ∃ rank : Name → Nat, ∀ e ∈ edges, rank e.2 < rank e.1

/-- Kahn's algorithm: strip, round by round, the nodes all of whose successors are already stripped -/
def strip (edges : List (Name × Name)) : Nat → List Name → List Name
  | 0, rest => rest
  | n + 1, rest =>
    strip edges n (rest.filter (fun u => edges.any (fun e => e.1 == u && rest.contains e.2)))

def acyclicB (nodes : List Name) (edges : List (Name × Name)) : Bool :=
  (strip edges nodes.length nodes).isEmpty

def missingB (u : List ModCfg) (ioDict : List (String × Name)) : Bool :=
  u.any (fun c => c.atts.any (fun a => (a.mandatory && a.target.isNone) ||
    match targetOf ioDict c a with
    | some t => !(names u).contains t
    | none => false))

def wronglyTypedB (u : List ModCfg) (ioDict : List (String × Name)) : Bool :=
  u.any (fun c => c.atts.any (fun a =>
    match targetOf ioDict c a with
    | some t => u.any (fun d => d.name == t && !kindOk a.kind d.cls)
    | none => false))

/-- a missing, wrongly typed or cyclic attachment (monitor form; the cyclic part is `acyclicB`, which is sound for
`Ranked` — see `acyclicB_sound` in the proofs) -/
def badAttachmentB (cfg : Cfg) (ioDict : List (String × Name)) : Bool :=
  let u := allMods cfg ioDict
  missingB u ioDict || wronglyTypedB u ioDict ||
    !acyclicB (names u) ((declaredEdges u ioDict).filter (fun e => (names u).contains e.2))

/-- a parameter the configuration gets wrong: the value given is not of its datatype, or a value is required
(`needscfg`) and none is given -/
def paramWrong (q : PCfg) : Bool :=
  (q.cfgValue.isSome && q.cfgBad) || (q.needscfg && q.cfgValue.isNone && q.clsValue.isNone)

/-- a configuration nothing is wrong with: attachments fine, no failing hooks, distinct names, every HasIO user has
a communicator, no parameter value that is rejected -/
def cleanB (cfg : Cfg) (ioDict : List (String × Name)) : Bool :=
  let u := allMods cfg ioDict
  !badAttachmentB cfg ioDict && u.all (fun c => !c.failEarly && !c.failInit && !c.params.any paramWrong) &&
  decide (names u).Nodup &&
  u.all (fun c => c.cls != Cls.hasio || c.atts.any (fun a => a.name == "io" && (targetOf ioDict c a).isSome)) &&
  u.all (fun c => (c.touchEarly ++ c.touchInit).all (fun t => c.atts.any (fun a => a.name == t)))

/-! ## clauses over the event log -/

/-- no event satisfying `q` comes after an event satisfying `p` -/
def NeverAfter (p q : Ev → Bool) (log : List Ev) : Prop :=
  log.Pairwise (fun a b => ¬ (p a = true ∧ q b = true))

instance (p q : Ev → Bool) (log : List Ev) : Decidable (NeverAfter p q log) := by
  unfold NeverAfter; infer_instance

/-- `a` happens exactly once, `b` exactly once, and `a` first -/
def OnceInOrder (a b : Ev) (log : List Ev) : Prop :=
  log.count a = 1 ∧ log.count b = 1 ∧ NeverAfter (· == b) (· == a) log

instance (a b : Ev) (log : List Ev) : Decidable (OnceInOrder a b log) := by
  unfold OnceInOrder; infer_instance

/-- "each module is early-initialised, then initialised, then started, exactly once and in that order" -/
def InitOrderOnce (modules : List Name) (log : List Ev) : Prop :=
  ∀ m ∈ modules, OnceInOrder (.early m) (.init m) log ∧ OnceInOrder (.init m) (.start m) log

instance (ms : List Name) (log : List Ev) : Decidable (InitOrderOnce ms log) := by
  unfold InitOrderOnce; infer_instance

/-- the module a lifecycle hook event belongs to -/
def hookOf : Ev → Option Name
  | .early m => some m
  | .init m => some m
  | .start m => some m
  | _ => none

/-- "each module is early-initialised, then initialised, then started, exactly once and in that order" — the part of
the clause that is demanded of **every** life of a node, also of one that is rejected (failing early / late
initialisation, bad attachments, cycles): no hook of any module runs a second time, however often the module is reached
(through the attachments of several users, the creation loop, the description of the exported modules), `earlyInit`
comes first and `initModule` is never entered without it. -/
def HooksAtMostOnce (log : List Ev) : Prop :=
  ∀ e ∈ log, ∀ m ∈ (hookOf e).toList,
    log.count (.early m) ≤ 1 ∧ log.count (.init m) ≤ 1 ∧ log.count (.start m) ≤ 1 ∧
    (Ev.init m ∈ log → Ev.early m ∈ log) ∧ NeverAfter (· == .init m) (· == .early m) log

instance (log : List Ev) : Decidable (HooksAtMostOnce log) := by
  unfold HooksAtMostOnce; infer_instance

/-- "a module reached through an attachment is fully initialised before its user sees it" -/
def gotten : Ev → Option Name
  | .get _ _ d => some d
  | _ => none

def AttachedReady (log : List Ev) : Prop :=
  ∀ i ∈ List.range log.length, ∀ d ∈ ((log[i]?).bind gotten).toList, Ev.init d ∈ log.take i

instance (log : List Ev) : Decidable (AttachedReady log) := by
  unfold AttachedReady; infer_instance

/-- "… is fully initialised before its user sees it", on the objects: whatever the log says, no hook of a user was ever
handed a module object whose own initialisation was not complete (flags `earlyInitDone`, `initModuleDone`,
`_isinitialized` read at the moment of the access) -/
def SeenInitialised (o : Obs) : Prop := o.unready = []

instance (o : Obs) : Decidable (SeenInitialised o) := by unfold SeenInitialised; infer_instance

def isStart : Ev → Bool
  | .start _ => true
  | _ => false

/-- "reported as a configuration error instead of a half-started node" -/
def NoHalfStart (o : Obs) : Prop := o.errors ≠ [] → ∀ e ∈ o.log, isStart e = false

instance (o : Obs) : Decidable (NoHalfStart o) := by unfold NoHalfStart; infer_instance

/-- the configured start value of a parameter (frappy/params.py, "Usage of 'value' and 'default'"): the `value` given
in the configuration, else the `value` argument of the parameter's declaration ("if a value should be written to the HW
on startup, even when not given in the config").  A `default` — declared or configured — is not a start value ("assigned
to the parameter but not written to the HW"), and whether the start value happens to be equal to a default is of no
concern. -/
def startValue (q : PCfg) : Option Int :=
  match q.cfgValue with
  | some v => some v
  | none => q.clsValue

/-- the parameters of a module that have a configured start value and can be written (a `write_` method exists) -/
def startParams (c : ModCfg) : List String :=
  (c.params.filter (fun q => q.hasWrite && (startValue q).isSome)).map (·.name)

/-- "configured start values are written before the first poll" (and once) -/
def WritesBeforeFirstPoll (u : List ModCfg) (log : List Ev) : Prop :=
  ∀ c ∈ u, ∀ p ∈ startParams c,
    log.count (.write c.name p) = 1 ∧ NeverAfter (· == .firstpoll c.name) (· == .write c.name p) log

instance (u : List ModCfg) (log : List Ev) : Decidable (WritesBeforeFirstPoll u log) := by
  unfold WritesBeforeFirstPoll; infer_instance

/-- "configured start values are written": what a `write_` method of a module is handed at start-up is the configured
start value of that parameter — never a default, a stale or a converted-away value -/
def StartValuesHandedOver (u : List ModCfg) (written : List (Name × String × Int)) : Prop :=
  ∀ c ∈ u, ∀ q ∈ c.params, q.hasWrite = true → ∀ v ∈ (startValue q).toList,
    ∀ w ∈ written, w.1 = c.name → w.2.1 = q.name → w.2.2 = v

instance (u : List ModCfg) (written : List (Name × String × Int)) : Decidable (StartValuesHandedOver u written) := by
  unfold StartValuesHandedOver; infer_instance

def isThread : Ev → Option Name
  | .thread t => some t
  | _ => none

/-- "the node reports ready only after every poll thread finished its first round or timed out": in the part of the
log before `ready`, every started poll thread has reported its first round, or the deadline has passed and the thread
is named as timed out; and nothing is reported ready twice -/
def ReadyAfterFirstRound (log : List Ev) : Prop :=
  log.count .ready ≤ 1 ∧
  (Ev.ready ∈ log →
    let pre := log.takeWhile (· != Ev.ready)
    ∀ t ∈ log.filterMap isThread,
      Ev.thread t ∈ pre ∧ (Ev.rounddone t ∈ pre ∨ (Ev.deadline ∈ pre ∧ Ev.timeout t ∈ pre)))

instance (log : List Ev) : Decidable (ReadyAfterFirstRound log) := by
  unfold ReadyAfterFirstRound; infer_instance

/-- the poll thread that serves module `c`: the one of its communicator, else its own -/
def ownerOf (ioDict : List (String × Name)) (c : ModCfg) : Name :=
  if c.cls == Cls.hasio then
    match c.atts.find? (fun a => a.name == "io") with
    | some a => (targetOf ioDict c a).getD c.name
    | none => c.name
  else c.name

/-- a communication failure (raised by the environment inside `initialReads` or a poll of a module served by thread
`t`) happens before `t` reports its first round: the round is broken off, not completed -/
def brokenOff (u : List ModCfg) (ioDict : List (String × Name)) (log : List Ev) (t : Name) : Bool :=
  (log.takeWhile (· != Ev.rounddone t)).any (fun e =>
    match e with
    | .comfail m => u.any (fun c => c.name == m && ownerOf ioDict c == t)
    | _ => false)

/-- a thread reports its first round only after the first poll of every polled module it serves — or after a
communication failure has broken the round off -/
def RoundComplete (u : List ModCfg) (ioDict : List (String × Name)) (log : List Ev) : Prop :=
  ∀ c ∈ u, c.poll = true →
    brokenOff u ioDict log (ownerOf ioDict c) = true ∨
    (NeverAfter (· == .rounddone (ownerOf ioDict c)) (· == .firstpoll c.name) log ∧
     (Ev.rounddone (ownerOf ioDict c) ∈ log → Ev.firstpoll c.name ∈ log))

instance (u : List ModCfg) (d : List (String × Name)) (log : List Ev) : Decidable (RoundComplete u d log) := by
  unfold RoundComplete; infer_instance

def isShutdown : Ev → Bool
  | .shutdown _ => true
  | _ => false

def isStopPoll : Ev → Bool
  | .stopPoll _ => true
  | _ => false

/-- "On shutdown every poll thread is stopped first and every module is shut down exactly once, users before the
modules they are attached to."  `stopPollThread` is demanded for the modules that own a poll thread (a `thread` event in
the log), not by flag; that the threads really end is `PollThreadsStopped`. -/
def ShutdownOrder (modules : List Name) (edges : List (Name × Name)) (log : List Ev) : Prop :=
  NeverAfter isShutdown isStopPoll log ∧
  (∀ m ∈ modules, (Ev.thread m ∈ log → 1 ≤ log.count (.stopPoll m)) ∧ log.count (.shutdown m) = 1) ∧
  (∀ e ∈ edges, e.1 ≠ e.2 → NeverAfter (· == .shutdown e.2) (· == .shutdown e.1) log)

instance (ms : List Name) (es : List (Name × Name)) (log : List Ev) : Decidable (ShutdownOrder ms es log) := by
  unfold ShutdownOrder; infer_instance

def isStray : Ev → Bool
  | .latepoll _ => true
  | .alive _ => true
  | _ => false

/-- "every poll thread is stopped first", about the threads that exist: no poll happens after a module was shut
down, and no poll thread is left when `shutdown_modules` has returned -/
def PollThreadsStopped (log : List Ev) : Prop := ∀ e ∈ log, isStray e = false

instance (log : List Ev) : Decidable (PollThreadsStopped log) := by unfold PollThreadsStopped; infer_instance

/-! ## the judge: which clauses of the statement does an observed life of a node break? -/

def judge (cfg : Cfg) (o : Obs) : List String :=
  let u := allMods cfg o.ioDict
  let edges := (declaredEdges u o.ioDict).filter (fun e => (names u).contains e.2)
  let up := o.errors.isEmpty
  (if cleanB cfg o.ioDict && !(up && decide (∀ n ∈ names u, n ∈ o.modules) && decide (InitOrderOnce o.modules o.log))
     then ["init_order_once"] else []) ++
  (if decide (HooksAtMostOnce o.log) then [] else ["init_at_most_once"]) ++
  (if decide (AttachedReady o.log) && decide (SeenInitialised o) then [] else ["attached_ready"]) ++
  (if badAttachmentB cfg o.ioDict && up then ["bad_attachment_reported"] else []) ++
  (if decide (NoHalfStart o) then [] else ["no_half_start"]) ++
  (if up && !decide (WritesBeforeFirstPoll (u.filter (fun c => o.modules.contains c.name)) o.log)
     then ["writes_before_first_poll"] else []) ++
  (if up && !decide (StartValuesHandedOver (u.filter (fun c => o.modules.contains c.name)) o.written)
     then ["start_values_handed_over"] else []) ++
  (if decide (ReadyAfterFirstRound o.log) && decide (RoundComplete u o.ioDict o.log) then []
     else ["ready_after_first_round"]) ++
  (if up && !decide (ShutdownOrder o.modules edges o.log) then ["shutdown_order"] else []) ++
  (if decide (PollThreadsStopped o.log) then [] else ["poll_threads_stopped"])

end Frappy.Spec.C15
