/-
C05 — The update stream always reconstructs the node's parameter cache.

Specification only, written from the statement.  `S` is "a value-or-error of one parameter" (what an
`update` or `error_update` message carries, and what the cache holds); nothing here refers to how the
funnel computes.  The Boolean monitors at the end are what the driver runs on observations recorded
from the real implementation.
-/
namespace Frappy.Spec.C05

variable {S : Type}

/-- what a client does with the update / error_update messages of one parameter: the newest one wins -/
def replay (init : S) (msgs : List S) : S := msgs.foldl (fun _ m => m) init

/-! ## one thread: a history of operations on one parameter, observed after every operation -/

/-- what is seen of one operation: the messages the activated connection received while it ran,
and the value-or-error the cache holds afterwards -/
structure Obs (S : Type) where
  msgs : List S
  cache : S
  deriving Repr

def allMsgs (tr : List (Obs S)) : List S := tr.flatMap (·.msgs)
def states (tr : List (Obs S)) : List S := tr.map (·.cache)

/-- "replaying the messages it received reproduces exactly the value-or-error currently cached" — at the end
of every prefix of the history.  `k` is what the client knows at the start (it was activated: the cache). -/
def Reconstructs : S → List (Obs S) → Prop
  | _, [] => True
  | k, o :: rest => replay k o.msgs = o.cache ∧ Reconstructs (replay k o.msgs) rest

/-- "none carries a state the cache never held": a message is the state of the cache at its emission -/
def NeverPhantom (tr : List (Obs S)) : Prop := ∀ o ∈ tr, ∀ m ∈ o.msgs, m = o.cache

/-- the states the cache went through, in order (an operation that leaves it as it was is no change) -/
def changes [DecidableEq S] : S → List S → List S
  | _, [] => []
  | prev, c :: cs => if c = prev then changes prev cs else c :: changes c cs

/-- "messages for one parameter arrive in the order the cache changed": the message list contains every
change of the cache and is contained in the list of states of the cache, both as subsequences -/
def OrderPreserved [DecidableEq S] (init : S) (tr : List (Obs S)) : Prop :=
  (changes init (states tr)).Sublist (allMsgs tr) ∧ (allMsgs tr).Sublist (states tr)

/-- "a recovery from an error is always announced, even if the value is the same as before the error" -/
def RecoveryAnnounced (isErr : S → Bool) : S → List (Obs S) → Prop
  | _, [] => True
  | prev, o :: rest => (isErr prev = true → isErr o.cache = false → o.msgs ≠ []) ∧ RecoveryAnnounced isErr o.cache rest

/-! ### monitor for one recorded history -/

/-- everything the statement asks of one operation: `k` = what the client knows, `prev` = the cache before -/
def OpOk [DecidableEq S] (isErr : S → Bool) (k prev : S) (o : Obs S) : Prop :=
  (∀ m ∈ o.msgs, m = o.cache) ∧ (isErr prev = true → isErr o.cache = false → o.msgs ≠ []) ∧
  (o.cache ≠ prev → o.msgs ≠ []) ∧ replay k o.msgs = o.cache

instance instDecOpOk [DecidableEq S] (isErr : S → Bool) (k' prev : S) (o : Obs S) : Decidable (OpOk isErr k' prev o) := by
  unfold OpOk; infer_instance

def TraceOk [DecidableEq S] (isErr : S → Bool) : S → S → List (Obs S) → Prop
  | _, _, [] => True
  | k, prev, o :: rest => OpOk isErr k prev o ∧ TraceOk isErr (replay k o.msgs) o.cache rest

/-- which clause an operation breaks (for the signature of a violation) -/
def clause [DecidableEq S] (isErr : S → Bool) (_k prev : S) (o : Obs S) : String :=
  if ¬ (∀ m ∈ o.msgs, m = o.cache) then "phantom"
  else if ¬ (isErr prev = true → isErr o.cache = false → o.msgs ≠ []) then "recovery-not-announced"
  else if ¬ (o.cache ≠ prev → o.msgs ≠ []) then "change-not-announced"
  else "replay-differs-from-cache"

/-- `none` = the history satisfies the statement; `some (i, clause)` = first offending operation -/
def judgeFrom [DecidableEq S] (isErr : S → Bool) : Nat → S → S → List (Obs S) → Option (Nat × String)
  | _, _, _, [] => none
  | i, k, prev, o :: rest =>
    if OpOk isErr k prev o then judgeFrom isErr (i + 1) (replay k o.msgs) o.cache rest
    else some (i, clause isErr k prev o)

def judge [DecidableEq S] (isErr : S → Bool) (init : S) (tr : List (Obs S)) : Option (Nat × String) :=
  judgeFrom isErr 0 init init tr

/-! ## several threads: what every activated connection received for one parameter -/

/-- a delivered message together with the state of the cache at the instant of delivery -/
structure Delivered (S : Type) where
  msg : S
  seen : S
  deriving Repr

/-- observation of a run of several threads on one parameter, taken when all threads have finished -/
structure ConcObs (S : Type) where
  init : S
  logs : List (List (Delivered S))      -- one log per activated connection
  final : S
  deriving Repr

/-- * replaying what a connection received gives the cache at quiescence;
    * a message is delivered while the cache still holds the state it carries (so deliveries follow the
      order in which the cache changed, and no message carries a state the cache did not hold);
    * all activated connections see the same sequence. -/
def ConcOk (o : ConcObs S) : Prop :=
  (∀ l ∈ o.logs, replay o.init (l.map (·.msg)) = o.final) ∧
  (∀ l ∈ o.logs, ∀ d ∈ l, d.msg = d.seen) ∧
  (∀ l ∈ o.logs, ∀ l' ∈ o.logs, l.map (·.msg) = l'.map (·.msg))

instance [DecidableEq S] (o : ConcObs S) : Decidable (ConcOk o) := by
  unfold ConcOk; infer_instance

def concClause [DecidableEq S] (o : ConcObs S) : String :=
  if ¬ (∀ l ∈ o.logs, ∀ d ∈ l, d.msg = d.seen) then "stale-delivery"
  else if ¬ (∀ l ∈ o.logs, replay o.init (l.map (·.msg)) = o.final) then "replay-differs-from-cache"
  else "connections-differ"

def judgeConc [DecidableEq S] (o : ConcObs S) : Option String :=
  if ConcOk o then none else some (concClause o)

/-! ## activation: "for a connection that is activated" — the client knows NOTHING until its first message

The stream of a connection starts with its `activate` request; what it received while that request was handled (the
snapshot) is part of the stream.  A client that has not yet received a message for a parameter has no state for it. -/

/-- replay for a client that may not know anything yet -/
def replayO (k : Option S) (msgs : List S) : Option S := msgs.foldl (fun _ m => some m) k

/-- the history of one parameter as seen by a connection from its activation on: the first observation is the
activation itself (messages = the snapshot, cache unchanged).  After EVERY operation, activation included, the
client has a state for the parameter and it is the cached one. -/
def ReconstructsO : Option S → List (Obs S) → Prop
  | _, [] => True
  | k, o :: rest => replayO k o.msgs = some o.cache ∧ ReconstructsO (replayO k o.msgs) rest

/-- `OpOk` for a client that may know nothing -/
def OpOkO [DecidableEq S] (isErr : S → Bool) (k : Option S) (prev : S) (o : Obs S) : Prop :=
  (∀ m ∈ o.msgs, m = o.cache) ∧ (isErr prev = true → isErr o.cache = false → o.msgs ≠ []) ∧
  (o.cache ≠ prev → o.msgs ≠ []) ∧ replayO k o.msgs = some o.cache

instance instDecOpOkO [DecidableEq S] (isErr : S → Bool) (k' : Option S) (prev : S) (o : Obs S) :
    Decidable (OpOkO isErr k' prev o) := by
  unfold OpOkO; infer_instance

def TraceOkO [DecidableEq S] (isErr : S → Bool) : Option S → S → List (Obs S) → Prop
  | _, _, [] => True
  | k, prev, o :: rest => OpOkO isErr k prev o ∧ TraceOkO isErr (replayO k o.msgs) o.cache rest

def clauseO [DecidableEq S] (isErr : S → Bool) (k : Option S) (prev : S) (o : Obs S) : String :=
  if ¬ (∀ m ∈ o.msgs, m = o.cache) then "phantom"
  else if ¬ (isErr prev = true → isErr o.cache = false → o.msgs ≠ []) then "recovery-not-announced"
  else if ¬ (o.cache ≠ prev → o.msgs ≠ []) then "change-not-announced"
  else if k = none ∧ o.msgs = [] then "no-state-after-activation"
  else "replay-differs-from-cache"

def judgeFromO [DecidableEq S] (isErr : S → Bool) : Nat → Option S → S → List (Obs S) → Option (Nat × String)
  | _, _, _, [] => none
  | i, k, prev, o :: rest =>
    if OpOkO isErr k prev o then judgeFromO isErr (i + 1) (replayO k o.msgs) o.cache rest
    else some (i, clauseO isErr k prev o)

/-- monitor for the stream of a connection from its activation on: `prev` = the cache when the activation starts -/
def judgeO [DecidableEq S] (isErr : S → Bool) (prev : S) (tr : List (Obs S)) : Option (Nat × String) :=
  judgeFromO isErr 0 none prev tr

/-- what one connection received for one parameter in a run of several threads -/
structure ConnLog (S : Type) where
  known : Option S                  -- `some init`: activated before the run started; `none`: it knew nothing
  activated : Bool                  -- the connection is activated for this parameter at the end (before or during the run)
  fromStart : Bool                  -- activated before the run and no activation request for it during the run
  log : List (Delivered S)
  deriving Repr

structure ConcObsA (S : Type) where
  conns : List (ConnLog S)
  final : S
  deriving Repr

/-- the statement at quiescence when connections may be activated DURING the run:
    * an activated connection has a state for the parameter and it is the cached one;
    * every message — snapshot or update — is delivered while the cache holds the state it carries;
    * the connections that were activated all along received the same sequence. -/
def ConcOkA (o : ConcObsA S) : Prop :=
  (∀ c ∈ o.conns, c.activated = true → replayO c.known (c.log.map (·.msg)) = some o.final) ∧
  (∀ c ∈ o.conns, ∀ d ∈ c.log, d.msg = d.seen) ∧
  (∀ c ∈ o.conns, ∀ c' ∈ o.conns, c.fromStart = true → c'.fromStart = true → c.log.map (·.msg) = c'.log.map (·.msg))

instance [DecidableEq S] (o : ConcObsA S) : Decidable (ConcOkA o) := by
  unfold ConcOkA; infer_instance

def concClauseA [DecidableEq S] (o : ConcObsA S) : String :=
  if ¬ (∀ c ∈ o.conns, ∀ d ∈ c.log, d.msg = d.seen) then "stale-delivery"
  else if ¬ (∀ c ∈ o.conns, c.activated = true → c.log = [] → c.known.isSome) then "no-state-after-activation"
  else if ¬ (∀ c ∈ o.conns, c.activated = true → replayO c.known (c.log.map (·.msg)) = some o.final) then
    "replay-differs-from-cache"
  else "connections-differ"

def judgeConcA [DecidableEq S] (o : ConcObsA S) : Option String :=
  if ConcOkA o then none else some (concClauseA o)

/-! ## the transport: "the update and error-update messages it RECEIVED"

The statement is about what arrives at the peer.  A connection over a real transport may be lost; the node may give it up
(a peer that does not read).  What the statement then asks: as long as the node treats the connection as activated — it is
known to the dispatcher and its socket is open — what the peer received reconstructs the cache; a connection the node gives
up is closed AND forgotten (the client notices, reconnects and gets a fresh snapshot).  Observed at quiescent points (the
handler thread of the connection has had a look at its flags). -/

/-- one observation point of one connection on one parameter -/
structure TObs (S : Type) where
  obs : Obs S            -- messages decoded from the bytes the peer received since the last point; the cache
  garbled : Nat          -- lines the peer received that are not a message
  isOpen : Bool          -- the node has not closed the socket
  listed : Bool          -- the dispatcher knows the connection (list of connections, activated set or a subscription)
  deriving Repr

/-- a connection in service: open and known to the dispatcher -/
def TObs.served (o : TObs S) : Bool := o.isOpen && o.listed

/-- every point at which the connection is in service satisfies the statement; the first point at which it is not
finds it closed and forgotten, and nothing is asked afterwards -/
def TraceOkT [DecidableEq S] (isErr : S → Bool) : Option S → S → List (TObs S) → Prop
  | _, _, [] => True
  | k, prev, o :: rest =>
    if o.served then o.garbled = 0 ∧ OpOkO isErr k prev o.obs ∧ TraceOkT isErr (replayO k o.obs.msgs) o.obs.cache rest
    else o.isOpen = false ∧ o.listed = false

def clauseT [DecidableEq S] (isErr : S → Bool) (k : Option S) (prev : S) (o : TObs S) : String :=
  if o.served then (if o.garbled ≠ 0 then "garbled-message" else clauseO isErr k prev o.obs)
  else if o.isOpen then "forgotten-but-open" else "closed-but-still-listed"

def judgeFromT [DecidableEq S] (isErr : S → Bool) : Nat → Option S → S → List (TObs S) → Option (Nat × String)
  | _, _, _, [] => none
  | i, k, prev, o :: rest =>
    if o.served then
      if o.garbled = 0 ∧ OpOkO isErr k prev o.obs then judgeFromT isErr (i + 1) (replayO k o.obs.msgs) o.obs.cache rest
      else some (i, clauseT isErr k prev o)
    else if o.isOpen = false ∧ o.listed = false then none
    else some (i, clauseT isErr k prev o)

/-- monitor for the stream of a connection over a real transport, from its activation on -/
def judgeT [DecidableEq S] (isErr : S → Bool) (prev : S) (tr : List (TObs S)) : Option (Nat × String) :=
  judgeFromT isErr 0 none prev tr

end Frappy.Spec.C05
