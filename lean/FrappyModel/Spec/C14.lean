import FrappyModel.Timed.StateMachine
/-
C14 — State machine: bounded cycles, exactly-once cleanup, last start wins; busy status of the mixin.

Specification only.  The property speaks about an observable history (`List Ev`): requests, the calls of
state functions and cleanup functions with what they returned, the interruptions the machine announces,
the transitions, and — for a module built on the machine — the reported status values.  The vocabulary
of the statement ("the current state", "first call after a transition", "the cleanup of the current run",
"a cleanup sequence is in progress", "the most recently requested state") is what an observer can read
off a history; `Obs` collects it and `observe` computes it by scanning the history — it never looks at a
machine.  Each clause of the statement is a condition `ok… o e` on an event `e` given what was observed
before it, and the clause holds of a history when it holds at every position (`Always`).  The Boolean
monitors (`…B`, `judge`) evaluate the same conditions on histories recorded from the implementation.
-/
namespace Frappy.Spec.C14
open Frappy.SM Frappy.States

/-- what an observer knows after a history -/
structure Obs where
  cur : Option Sid := none            -- the state entered by the most recent transition (`none`: inactive)
  fresh : Bool := true                -- no state function has been called since the most recent transition
  runCleanup : Option Cid := none     -- cleanup function of the current run, as long as it is neither used nor given up
  interrupted : Bool := false         -- the current run was interrupted and is not yet over: a cleanup sequence is in progress
  mustCleanup : Option Cid := none    -- the run was interrupted just now and has this cleanup: it is due as the very next event
  mustInterrupt : Bool := false       -- a state function raised / returned rubbish just now: the interruption is due
  inState : Bool := false             -- the function called last (not yet returned) is a state function
  pending : Option Req := none        -- the most recent request, as long as the machine has not taken it
  taken : Option Req := none          -- a start was taken just now; its state is still to be entered
  requesting : Nat := 0               -- start requests of the module that have begun and not yet posted their task
  startCredit : Nat := 0              -- start requests of the module that have posted their task and not yet returned
  stopOwed : Nat := 0                 -- stop requests of the module that have begun while a state function was active (and
                                      -- the machine has not become inactive since) and have not yet posted their task
  stopCredit : Nat := 0               -- stop requests of the module that have posted their task and not yet returned
  lastPost : Option Req := none       -- the most recent request
  postedInCycle : Bool := false       -- a request arrived since the current cycle began
  lastEnter : Option (Option Sid) := none   -- the previous event of the cycle thread if it was a transition
  lastInterrupt : Bool := false       -- the previous event of the cycle thread was an interruption
  attrs : Attrs := []                 -- attributes as of the last start taken
  idle : Status := (0, "")            -- the final / stopped status most recently declared
  callsInCycle : Nat := 0
  cleanupsInCycle : Nat := 0
  mustEnter : Option Sid := none      -- the previous event of the cycle thread handed over a state to continue with (a state or
                                      -- cleanup function returned it, or a start was taken): it is to be entered next
  mayFinish : Bool := false           -- the previous event of the cycle thread ends the run: an interruption, or a function
                                      -- returned something that is not a state to continue with (and not `Retry` of a state function)
  declared : List Sid := []           -- state functions whose attached status counts for the current engagement: the start state
                                      -- of the most recent start request, the state active when it was issued, the states entered since
  override : Option Status := none    -- `status=` of the most recent start request
deriving Repr

def isStart : Req → Bool
  | .start .. => true
  | .stop _ => false

def startOf : Option Req → Option Req
  | some (.start s cl kw ovr) => some (.start s cl kw ovr)
  | _ => none

def isStartReq : Option Req → Bool
  | some (.start ..) => true
  | _ => false

def isErrorRet : Ret → Bool
  | .bad => true
  | .raise => true
  | _ => false

/-- the state a function hands over to continue with -/
def nextOf : Ret → Option Sid
  | .next s => some s
  | _ => none

/-- the state a request asks to be entered -/
def startState : Option Req → Option Sid
  | some (.start s _ _ _) => some s
  | _ => none

/-- does what a function returned end the run?  (`inState`: it was a state function — its `Retry` does not) -/
def endsRun (inState : Bool) : Ret → Bool
  | .next _ => false
  | .retry => !inState
  | _ => true

/-- events of the thread that runs `cycle` (the others — requests, their bookkeeping, status reports — may come from
    any thread and fall between two of these) -/
def isCycleEv : Ev → Bool
  | .reqStart => false
  | .reqStop => false
  | .reqDone _ => false
  | .post _ => false
  | .status _ => false
  | _ => true

/-- one more event has been seen -/
def Obs.step (o : Obs) : Ev → Obs
  | .reqStart => { o with requesting := o.requesting + 1 }
  | .reqStop => { o with stopOwed := if o.cur.isSome then o.stopOwed + 1 else o.stopOwed }
  | .reqDone true => { o with startCredit := o.startCredit - 1 }
  | .reqDone false => { o with stopCredit := o.stopCredit - 1 }
  | .take => { o with pending := none, taken := startOf o.pending, lastEnter := none, lastInterrupt := false,
                      mustEnter := startState o.pending, mayFinish := false }
  | .post r =>
    { o with pending := some r, lastPost := some r, postedInCycle := true,
             requesting := if isStart r then o.requesting - 1 else o.requesting,
             startCredit := if isStart r && decide (0 < o.requesting) then o.startCredit + 1 else o.startCredit,
             stopOwed := if isStart r then o.stopOwed else o.stopOwed - 1,
             stopCredit := if !isStart r && decide (0 < o.stopOwed) then o.stopCredit + 1 else o.stopCredit,
             idle := match r with | .stop st => st | _ => o.idle,
             declared := match r with | .start s _ _ _ => s :: o.cur.toList | .stop _ => o.declared,
             override := match r with | .start _ _ _ ovr => ovr | .stop _ => o.override }
  | .cycleBegin =>
    { o with postedInCycle := false, callsInCycle := 0, cleanupsInCycle := 0, lastEnter := none, lastInterrupt := false,
             mustEnter := none, mayFinish := false }
  | .cycleEnd _ _ => { o with lastEnter := none, lastInterrupt := false, mustEnter := none, mayFinish := false }
  | .call _ _ =>
    { o with fresh := false, inState := true, callsInCycle := o.callsInCycle + 1, lastEnter := none, lastInterrupt := false,
             mustEnter := none, mayFinish := false }
  | .cleanup _ =>
    { o with runCleanup := none, mustCleanup := none, inState := false, cleanupsInCycle := o.cleanupsInCycle + 1,
             lastEnter := none, lastInterrupt := false, mustEnter := none, mayFinish := false }
  | .ret r fin =>
    { o with inState := false, mustInterrupt := o.inState && isErrorRet r,
             runCleanup := match fin with | some _ => none | none => o.runCleanup,
             idle := match fin with | some st => st | none => o.idle,
             lastEnter := none, lastInterrupt := false, mustEnter := nextOf r, mayFinish := endsRun o.inState r }
  | .interrupt _ =>
    { o with mustInterrupt := false, mustCleanup := o.runCleanup, interrupted := true, lastEnter := none, lastInterrupt := true,
             mustEnter := none, mayFinish := true }
  | .enter ns =>
    { o with cur := ns, fresh := true, stopOwed := match ns with | none => 0 | some _ => o.stopOwed,
             interrupted := match ns with | none => false | some _ => o.interrupted,
             lastEnter := some ns, lastInterrupt := false, mustEnter := none, mayFinish := false,
             declared := match ns with | some s => s :: o.declared | none => o.declared }
  | .pickup _ cl snap =>
    { o with runCleanup := cl, attrs := snap, taken := none, lastEnter := none, lastInterrupt := false,
             mustEnter := none, mayFinish := false }
  | .status _ => o
  | .raised => { o with lastEnter := none, lastInterrupt := false, mustEnter := none, mayFinish := false }

/-- the observer starts knowing the idle status the module was created with -/
def Obs.init (idle : Status) : Obs := { idle := idle }

def observe (idle : Status) (tr : List Ev) : Obs := tr.foldl Obs.step (Obs.init idle)

/-- a condition holds at every position of a history -/
def Always (idle : Status) (ok : Obs → Ev → Bool) (tr : List Ev) : Prop :=
  ∀ pre e post, tr = pre ++ e :: post → ok (observe idle pre) e = true

/-! ## the clauses -/

/-- *one cycle always terminates after a bounded number of state calls*: in one cycle at most `2·maxloops`
    state function calls. -/
def okBound (maxloops : Nat) (o : Obs) : Ev → Bool
  | .call _ _ => decide (o.callsInCycle < 2 * maxloops)
  | _ => true

/-- *… and never raises* -/
def okNoRaise (_ : Obs) : Ev → Bool
  | .raised => false
  | _ => true

/-- *the first call of a state after a transition — and only that — sees the init flag*; the function called
    is the state that was entered. -/
def okInit (o : Obs) : Ev → Bool
  | .call s i => decide (o.cur = some s) && (i == o.fresh)
  | .cycleEnd act pend => (act == o.cur.isSome) && (pend == o.pending.isSome)
  | _ => true

/-- *a run interrupted by stop, restart or error executes its cleanup exactly once*: an error of a state
    function interrupts at once; an interruption of a run that (still) has a cleanup is followed at once by
    the call of that cleanup ("at once": as the next thing the cycle thread does); a cleanup function is called only so (never in a run that was not interrupted,
    never a second time, never another run's). -/
def okCleanupOnce (o : Obs) (e : Ev) : Bool :=
  (!isCycleEv e ||
    ((match o.mustCleanup with
      | some c => e == .cleanup c
      | none => true) &&
     (!o.mustInterrupt || e == .interrupt .error))) &&
  (match e with
   | .cleanup c => decide (o.runCleanup = some c) && o.lastInterrupt
   | _ => true)

/-- *… and that cleanup sequence is never interrupted or restarted*: while a cleanup sequence is in progress
    only an error interrupts (stop and start do not), and a request is taken only when the machine has become
    inactive. -/
def okCleanupNotInterrupted (o : Obs) : Ev → Bool
  | .interrupt k => !o.interrupted || k == .error
  | .take => o.cur.isNone
  | _ => true

/-- … *never interrupted*, continued: a sequence of states is executed as its functions direct.  When a state function or
    a cleanup function hands over a state to continue with (on every path: the normal chaining of states, the cleanup
    function called after stop, restart, an exception, a non-callable return value or too many chained states) — or a
    start was taken —, entering that state is the next thing the cycle thread does (`okFollowUp`) … -/
def okFollowUp (o : Obs) (e : Ev) : Bool :=
  !isCycleEv e ||
    (match o.mustEnter with
     | some s => e == .enter (some s)
     | none => true)

/-- … and the machine changes its state only so: a state is entered only when it was handed over just now, and the
    machine becomes inactive only right after an interruption or after a function returned something that ends the
    run (`Finish`, a non-callable, an exception; for a cleanup function also `Retry`). -/
def okEnterCalledFor (o : Obs) : Ev → Bool
  | .enter (some s) => decide (o.mustEnter = some s)
  | .enter none => o.mayFinish
  | _ => true

/-- *after stop the machine becomes inactive … as soon as a cleanup sequence already in progress has
    finished*: at the end of a cycle during which no request arrived and at whose end no cleanup sequence is in
    progress, if the most recent request is a stop, the machine is inactive and the request is consumed. -/
def okStopInactive (o : Obs) : Ev → Bool
  | .cycleEnd act pend =>
    if !o.postedInCycle && !o.interrupted then
      match o.lastPost with
      | some (.stop _) => !act && !pend
      | _ => true
    else true
  | _ => true

/-- … *after stop*, for a module built on the machine: a stop request (`stop_machine`) that finds a state function
    active — also one of a cleanup sequence in progress — has posted its stop to the machine when it returns
    (unless the machine became inactive meanwhile: then there is nothing to stop).  A stop request that finds the
    machine inactive does nothing (documented: "if the state machine is not running, nothing happens").
    Requests may overlap (second thread): a returning stop request is in order if some stop request has posted and
    not yet returned (`stopCredit`), or if no stop request owes a stop (`stopOwed`). -/
def okStopPosted (o : Obs) : Ev → Bool
  | .reqDone false => decide (0 < o.stopCredit) || decide (o.stopOwed = 0)
  | _ => true

/-- … *after start*, for a module built on the machine: a start request (`start_machine`) has posted its start to the
    machine when it returns — whatever the machine is doing (requests may overlap: some start request has posted
    and not yet returned). -/
def okStartPosted (o : Obs) : Ev → Bool
  | .reqDone true => decide (0 < o.startCredit)
  | _ => true

/-- *after start the most recently requested state is entered with exactly its attributes …*: what the machine
    takes is the most recent request (`Obs.step`); when it is a start, the next transition enters the requested
    state, no state function is called before, and the start is completed (`pickup`) right after that transition
    with the requested cleanup and with the previous attributes updated by exactly the requested ones; no taken
    start is left over at the end of a cycle (`okLastStart`); and at the end of a cycle during which no request
    arrived and at whose end no cleanup sequence is in progress, no request is waiting (`okPickedUp`). -/
def okLastStart (o : Obs) : Ev → Bool
  | .take => o.pending.isSome
  | .enter ns =>
    (match o.taken with
     | some (.start s _ _ _) => decide (ns = some s)
     | _ => true)
  | .call _ _ => o.taken.isNone
  | .pickup s cl snap =>
    decide (o.lastEnter = some (some s)) &&
    (match o.taken with
     | some (.start s' cl' kw _) => decide (s' = s) && decide (cl' = cl) && decide (snap = updAttrs o.attrs kw)
     | _ => false)
  | .cycleEnd _ _ => o.taken.isNone
  | _ => true

def okPickedUp (o : Obs) : Ev → Bool
  | .cycleEnd _ _ => if !o.postedInCycle && !o.interrupted then o.pending.isNone else true
  | _ => true

/-- the module is "engaged": a state function is active, or a start is waiting to be taken or being entered -/
def Obs.engaged (o : Obs) : Bool := o.cur.isSome || isStartReq o.pending || o.taken.isSome

/-- is a declared status (attached with `@status_code`, or given as `status=`) one that is not busy? -/
def nonBusy (r : Rules) : Option Status → Bool
  | some st => !isBusy r st
  | none => false

/-- the author of the module declared a status that is not busy for the current engagement: as the `status=` override of
    the start request in force, or attached to its start state, to the state that was active when it was issued, or to a
    state entered since.  (A state function without attached status declares nothing: it never makes an engagement lax.) -/
def Obs.lax (r : Rules) (o : Obs) : Bool :=
  nonBusy r o.override || o.declared.any (fun s => nonBusy r (r.statusOf s))

/-- *a module built on it reports a busy status from the start request until the machine has finished and
    its final or stopped status afterwards* (while a start request is being issued by another thread — begun,
    task not yet posted — either is accepted).  Where the author declared a status that is not busy (`Obs.lax`) the
    module reports what was declared; whatever happened in earlier engagements of the same module does not count. -/
def okBusy (r : Rules) (o : Obs) : Ev → Bool
  | .status st => if 0 < o.requesting then true else if o.engaged && !o.lax r then isBusy r st else true
  | _ => true

/-- the same without the exception: for modules whose declared status codes are all busy codes -/
def okBusyStrict (r : Rules) (o : Obs) : Ev → Bool
  | .status st => if 0 < o.requesting then true else if o.engaged then isBusy r st else true
  | _ => true

def okFinal (o : Obs) : Ev → Bool
  | .status st => if 0 < o.requesting then true else if o.engaged then true else decide (st = o.idle)
  | _ => true

/-- the busy predicate of the module itself (`Drivable.isBusy`), as a table `code ↦ answer` recorded from the
    implementation: *busy* means `BUSY ≤ code < ERROR` (the codes `3xx` of the protocol, sub-states included).  The codes at
    which the recorded predicate differs. -/
def busyPredicateBad (r : Rules) (table : List (Nat × Bool)) : List Nat :=
  (table.filter fun p => p.2 != (decide (r.busy ≤ p.1) && decide (p.1 < r.error))).map (·.1)

/-! ## the clauses as properties of a history -/

def CycleBounded (idle : Status) (maxloops : Nat) := Always idle (okBound maxloops)
def NeverRaises (idle : Status) := Always idle okNoRaise
def InitFlagExact (idle : Status) := Always idle okInit
def CleanupExactlyOnce (idle : Status) := Always idle okCleanupOnce
def CleanupNotInterrupted (idle : Status) (tr : List Ev) :=
  Always idle okCleanupNotInterrupted tr ∧ Always idle okFollowUp tr ∧ Always idle okEnterCalledFor tr
def StopMakesInactive (idle : Status) (tr : List Ev) := Always idle okStopInactive tr ∧ Always idle okStopPosted tr
def LastStartWins (idle : Status) (tr : List Ev) :=
  Always idle okLastStart tr ∧ Always idle okPickedUp tr ∧ Always idle okStartPosted tr
def BusyUntilFinished (idle : Status) (r : Rules) (tr : List Ev) := Always idle (okBusy r) tr ∧ Always idle okFinal tr
def BusyUntilFinishedStrict (idle : Status) (r : Rules) (tr : List Ev) :=
  Always idle (okBusyStrict r) tr ∧ Always idle okFinal tr

/-! ## monitors -/

inductive Clause where
  | bound | noRaise | initFlag | cleanupOnce | cleanupNotInterrupted | followUp | enterCalledFor | stopInactive | stopPosted | lastStart | pickedUp
  | startPosted | busy | final
deriving DecidableEq, Repr

def Clause.name : Clause → String
  | .bound => "cycle_calls_bounded"
  | .noRaise => "cycle_never_raises"
  | .initFlag => "init_flag_exact"
  | .cleanupOnce => "cleanup_exactly_once"
  | .cleanupNotInterrupted => "cleanup_not_interrupted"
  | .followUp => "cleanup_not_interrupted:returned-state-not-entered"
  | .enterCalledFor => "cleanup_not_interrupted:transition-not-called-for"
  | .stopInactive => "stop_makes_inactive"
  | .stopPosted => "stop_makes_inactive:stop-request-not-posted"
  | .startPosted => "last_start_wins:start-request-not-posted"
  | .lastStart => "last_start_wins"
  | .pickedUp => "last_start_wins:waiting-request-not-taken"
  | .busy => "busy_until_finished"
  | .final => "busy_until_finished:final-status-afterwards"

/-- Boolean form of `Always` -/
def alwaysFrom (ok : Obs → Ev → Bool) (o : Obs) : List Ev → Bool
  | [] => true
  | e :: rest => ok o e && alwaysFrom ok (o.step e) rest

def alwaysB (idle : Status) (ok : Obs → Ev → Bool) (tr : List Ev) : Bool := alwaysFrom ok (Obs.init idle) tr

/-- the clauses an event violates -/
def violated (maxloops : Nat) (hasStates : Bool) (r : Rules) (o : Obs) (e : Ev) : List Clause :=
  (if okBound maxloops o e then [] else [.bound]) ++
  (if okNoRaise o e then [] else [.noRaise]) ++
  (if okInit o e then [] else [.initFlag]) ++
  (if okCleanupOnce o e then [] else [.cleanupOnce]) ++
  (if okCleanupNotInterrupted o e then [] else [.cleanupNotInterrupted]) ++
  (if okFollowUp o e then [] else [.followUp]) ++
  (if okEnterCalledFor o e then [] else [.enterCalledFor]) ++
  (if okStopInactive o e then [] else [.stopInactive]) ++
  (if okStopPosted o e then [] else [.stopPosted]) ++
  (if okStartPosted o e then [] else [.startPosted]) ++
  (if okLastStart o e then [] else [.lastStart]) ++
  (if okPickedUp o e then [] else [.pickedUp]) ++
  (if hasStates && !okBusy r o e then [.busy] else []) ++
  (if hasStates && !okFinal o e then [.final] else [])

def judgeFrom (maxloops : Nat) (hasStates : Bool) (r : Rules) (o : Obs) (i : Nat) : List Ev → List (Nat × Clause)
  | [] => []
  | e :: rest => (violated maxloops hasStates r o e).map (fun c => (i, c)) ++ judgeFrom maxloops hasStates r (o.step e) (i + 1) rest

/-- all violations `(position, clause)` of a recorded history -/
def judge (idle : Status) (maxloops : Nat) (hasStates : Bool) (r : Rules) (tr : List Ev) : List (Nat × Clause) :=
  judgeFrom maxloops hasStates r (Obs.init idle) 0 tr

end Frappy.Spec.C14
