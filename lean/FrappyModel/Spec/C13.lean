import FrappyModel.Timed.Poller
import FrappyModel.Timed.PollFlags
/-
C13 — Poller: bounded staleness, no starvation, survives failing reads.

Specification only.  A `Trace` is what can be observed of one poll thread from outside: the calls it made
(time, module, function, duration), the time stamps parameters received, the intervals in force, whether the
thread is still alive.  The clauses below are written from the statement; they are decidable and are evaluated
(`decide`) by the driver on traces recorded from the real `Module.__pollThread`.
-/
namespace Frappy.Spec.C13
open Frappy.Poller

/-- what a module was told from outside about its poll interval (by a client changing the `pollinterval` parameter,
or by driver code switching fast polling), with the time at which it was told -/
inductive Cmd
  | setInterval (t : Nat) (v : Nat)                  -- `pollinterval := v`
  | setFast (t : Nat) (flag : Bool) (v : Nat)        -- `setFastPoll(flag, v)`
  deriving DecidableEq, Repr, Inhabited

def Cmd.time : Cmd → Nat
  | .setInterval t _ => t
  | .setFast t _ _ => t

/-- what a module has been told so far: its poll interval, whether fast polling is switched on, and the fast interval -/
structure IvState where
  pollinterval : Nat
  fast : Bool
  fastI : Nat
  deriving DecidableEq, Repr, Inhabited

/-- **the interval the module is to be polled with**: the fast interval while fast polling is switched on, the
module's poll interval — as it is now, whenever it was set — otherwise -/
def IvState.inForce (s : IvState) : Nat := if s.fast then s.fastI else s.pollinterval

def cmdStep (s : IvState) : Cmd → IvState
  | .setInterval _ v => { s with pollinterval := v }
  | .setFast _ flag v => { s with fast := flag, fastI := v }

/-- `(t, i)`: from the command at time `t` on the module is to be polled with interval `i` -/
def intervalsFrom (s : IvState) : List Cmd → List (Nat × Nat)
  | [] => []
  | c :: cs => (c.time, (cmdStep s c).inForce) :: intervalsFrom (cmdStep s c) cs

/-- what is known about one module of the thread -/
structure ModInfo where
  enabled : Bool
  slow : Nat
  polled : List Nat
  /-- the module's poll interval when the thread started -/
  pollinterval : Nat
  /-- the commands it was given since, in order of time -/
  cmds : List Cmd
  deriving Repr, Inhabited

/-- `(t, i)`: from time `t` on the module is to be polled with interval `i`; ascending in `t`, the first entry is the
configured one.  Computed from what the module was *told* — not from the poller's own bookkeeping. -/
def ModInfo.intervals (mi : ModInfo) : List (Nat × Nat) :=
  (0, mi.pollinterval) :: intervalsFrom ⟨mi.pollinterval, false, 0⟩ mi.cmds

structure Trace where
  mods : List ModInfo
  evs : List Event               -- every function of a module called by the poll thread's own code, in order of time
  touches : List Touch           -- time stamps parameters received (whoever set them)
  loopStart : Nat                -- the clock when the start-up work (round, configured values) was over: the loop begins
  tEnd : Nat                     -- end of the observation
  alive : Bool                   -- the thread has not terminated
  eps : Nat                      -- largest step of the clock between two consecutive looks at it
  deriving Inhabited

/-! ## vocabulary -/

/-- consecutive pairs of a list -/
def pairs : List Nat → List (Nat × Nat)
  | a :: b :: rest => (a, b) :: pairs (b :: rest)
  | _ => []

def insertSorted (x : Nat) : List Nat → List Nat
  | [] => [x]
  | y :: ys => if x ≤ y then x :: y :: ys else y :: insertSorted x ys

def sortNat (l : List Nat) : List Nat := l.foldr insertSorted []

def maxOf (l : List Nat) : Nat := l.foldl Nat.max 0

def sumOf (l : List Nat) : Nat := l.foldl (· + ·) 0

/-- start times of `doPoll` of module `i` -/
def startsOf (evs : List Event) (i : Nat) : List Nat :=
  (evs.filter (fun e => e.m = i ∧ e.f = Fn.doPoll)).map (·.t)

/-- start times of `read_p` of module `i` -/
def readsOf (evs : List Event) (i p : Nat) : List Nat :=
  (evs.filter (fun e => e.m = i ∧ e.f = Fn.read p)).map (·.t)

def stampsOf (ts : List Touch) (i p : Nat) : List Nat :=
  (ts.filter (fun t => t.m = i ∧ t.p = p)).map (·.stamp)

/-- longest observed `doPoll` of module `i` -/
def maxMain (evs : List Event) (i : Nat) : Nat :=
  maxOf ((evs.filter (fun e => e.m = i ∧ e.f = Fn.doPoll)).map (·.d))

def isRead : Fn → Bool
  | .read _ => true
  | _ => false

/-- longest observed `read_*` call -/
def maxRead (evs : List Event) : Nat :=
  maxOf ((evs.filter (fun e => isRead e.f)).map (·.d))

def enabledIdx (mods : List ModInfo) : List Nat :=
  (List.range mods.length).filter (fun i => match mods[i]? with | some m => m.enabled | none => false)

/-- **one sweep of the thread's work**: every module's `doPoll` once, one further read, and the clock reads of
one turn (one before the sweep, one per module; two spare) -/
def sweepOf (tr : Trace) : Nat :=
  sumOf ((enabledIdx tr.mods).map (maxMain tr.evs)) + maxRead tr.evs + (tr.mods.length + 3) * tr.eps

/-- number of polled parameters of the thread -/
def nPolled (mods : List ModInfo) : Nat :=
  sumOf (mods.map (fun m => if m.enabled then m.polled.length else 0))

/-- the interval in force just before time `b`, and since when -/
def inForce (ivs : List (Nat × Nat)) (b : Nat) : Nat × Nat :=
  ivs.foldl (fun cur e => if e.1 < b then e else cur) (0, 0)

/-! ## which parameters are marked as not polled -/

/-- **a parameter is marked as not polled** when the class gives the poller nothing to call for it: there is no read
function at all, or the read function (or the handler function, or the handler) carries `nopoll`, or the parameter is a
further key of a common read handler (one call of the handler — polled under its first key — reads them all) -/
def MarkedNotPolled (d : PollFlags.Decl) : Prop :=
  match d.kind with
  | .none => True
  | .plain => d.inner = true ∨ d.outer = true
  | .handler => d.inner = true ∨ d.outer = true
  | .commonFirst => d.inner = true ∨ d.outer = true
  | .commonRest => True

instance (d : PollFlags.Decl) : Decidable (MarkedNotPolled d) := by
  unfold MarkedNotPolled; cases d.kind <;> simp only <;> infer_instance

/-- the parameters the poller may read (positions in the module's parameter list): those not marked as not polled -/
def mayPoll : Nat → List PollFlags.Decl → List Nat
  | _, [] => []
  | i, d :: ds => (if MarkedNotPolled d then [] else [i]) ++ mayPoll (i + 1) ds

/-! ## clauses -/

/-- parameters marked as not polled are never read by the poller; modules without polling are never polled.
`tr.evs` holds EVERY function of a module the poll thread's own code calls — in the loop, in the start-up round, and
inside `writeInitParams` (there: the write functions of the start values) — so a read function called from any of these
places is a `.read` event and has to be one of a polled parameter.  (What a module's own `doPoll` / `initialReads` /
read or write function calls in turn is that module's business, not the poller's.) -/
def NoPollNeverRead (tr : Trace) : Prop :=
  ∀ e ∈ tr.evs, match e.f with
    | .read p => ∃ mi, tr.mods[e.m]? = some mi ∧ mi.enabled = true ∧ p ∈ mi.polled
    | .doPoll => ∃ mi, tr.mods[e.m]? = some mi ∧ mi.enabled = true
    | .init => e.m < tr.mods.length
    | .write _ => e.m < tr.mods.length

instance (tr : Trace) : Decidable (NoPollNeverRead tr) := by
  unfold NoPollNeverRead
  refine @List.decidableBAll _ _ (fun e => ?_) _
  cases e.f <;> simp only <;> infer_instance

/-- the latest moment module `i` may be started again after a start at `a`, judged at time `b`, `S` being one sweep:
its interval (as in force before `b`, counted from `a` or from the moment it was changed, whichever is later) plus one sweep -/
def mainLimit (S : Nat) (mi : ModInfo) (a b : Nat) : Nat :=
  let f := inForce mi.intervals b
  Nat.max (a + f.2) f.1 + S

/-- `MainGapBound` for a given size `S` of one sweep -/
def MainGapBoundS (S : Nat) (tr : Trace) : Prop :=
  ∀ i ∈ enabledIdx tr.mods, ∀ mi, tr.mods[i]? = some mi →
    let starts := (startsOf tr.evs i).filter (fun t => tr.loopStart ≤ t)
    (∀ ab ∈ pairs (starts ++ [tr.tEnd]), ab.2 ≤ mainLimit S mi ab.1 ab.2)
    ∧ (starts ++ [tr.tEnd]).head! ≤ tr.loopStart + S

instance (S : Nat) (tr : Trace) : Decidable (MainGapBoundS S tr) := by
  unfold MainGapBoundS; infer_instance

/-- each module's main poll is started again no later than its poll interval plus one sweep — between any two
consecutive starts, from the end of the start-up round to the first start, and from the last start to the end of
the observation (so a thread that stopped, or a module that is passed over, breaks the clause) -/
def MainGapBound (tr : Trace) : Prop := MainGapBoundS (sweepOf tr) tr

instance (tr : Trace) : Decidable (MainGapBound tr) :=
  inferInstanceAs (Decidable (MainGapBoundS (sweepOf tr) tr))

/-- the refresh bound of module `mi`: one and a half slow intervals plus `2N+2` sweeps of size `S`, `N` the number
of polled parameters of the thread -/
def slowLimit (S N : Nat) (mi : ModInfo) : Nat :=
  mi.slow + mi.slow / 2 + (2 * N + 2) * S + 2

/-- moments at which parameter `p` of module `i` was refreshed: the poller started `read_p`, or the parameter got
a new time stamp -/
def refreshes (tr : Trace) (i p : Nat) : List Nat :=
  sortNat (readsOf tr.evs i p ++ stampsOf tr.touches i p)

def SlowRefreshBoundS (S N : Nat) (tr : Trace) : Prop :=
  ∀ i ∈ enabledIdx tr.mods, ∀ mi, tr.mods[i]? = some mi → ∀ p ∈ mi.polled,
    let pts := tr.loopStart :: ((refreshes tr i p).filter (fun t => tr.loopStart < t ∧ t < tr.tEnd)) ++ [tr.tEnd]
    ∀ ab ∈ pairs pts, ab.2 ≤ ab.1 + slowLimit S N mi

instance (S N : Nat) (tr : Trace) : Decidable (SlowRefreshBoundS S N tr) := by
  unfold SlowRefreshBoundS; infer_instance

/-- every polled parameter is refreshed again within `slowLimit`, throughout the observation -/
def SlowRefreshBound (tr : Trace) : Prop := SlowRefreshBoundS (sweepOf tr) (nPolled tr.mods) tr

instance (tr : Trace) : Decidable (SlowRefreshBound tr) :=
  inferInstanceAs (Decidable (SlowRefreshBoundS (sweepOf tr) (nPolled tr.mods) tr))

/-- no failure of a read or poll function stops the thread -/
def Survives (tr : Trace) : Prop := tr.alive = true

instance (tr : Trace) : Decidable (Survives tr) := by unfold Survives; infer_instance

/-- the whole statement for one observed run -/
def Holds (tr : Trace) : Prop :=
  Survives tr ∧ NoPollNeverRead tr ∧ MainGapBound tr ∧ SlowRefreshBound tr

instance (tr : Trace) : Decidable (Holds tr) := by unfold Holds; infer_instance

/-! ## Boolean monitors -/

def survivesB (tr : Trace) : Bool := decide (Survives tr)
def noPollB (tr : Trace) : Bool := decide (NoPollNeverRead tr)
def mainGapB (tr : Trace) : Bool := decide (MainGapBound tr)
def slowRefreshB (tr : Trace) : Bool := decide (SlowRefreshBound tr)

theorem survivesB_iff (tr : Trace) : survivesB tr = true ↔ Survives tr := by simp [survivesB]
theorem noPollB_iff (tr : Trace) : noPollB tr = true ↔ NoPollNeverRead tr := by simp [noPollB]
theorem mainGapB_iff (tr : Trace) : mainGapB tr = true ↔ MainGapBound tr := by simp [mainGapB]
theorem slowRefreshB_iff (tr : Trace) : slowRefreshB tr = true ↔ SlowRefreshBound tr := by simp [slowRefreshB]

/-! ## statements about the model's own traces (used by the theorems) -/

/-- what is known from outside about a module of the model -/
def infoOf (m : Mod) : ModInfo := ⟨m.enabled, m.slow, m.polled, m.interval, []⟩

/-- the observable trace of a model run that started in `σ` and made the calls `evs` -/
def traceOf (σ : PollState) (evs : List Event) (loopStart tEnd eps : Nat) : Trace :=
  { mods := σ.mods.map infoOf, evs := evs, touches := [], loopStart := loopStart, tEnd := tEnd, alive := true, eps := eps }

/-- all consecutive distances of `ts` are at most `bound` -/
def GapsLe (ts : List Nat) (bound : Nat) : Prop := ∀ ab ∈ pairs ts, ab.2 ≤ ab.1 + bound

instance (ts : List Nat) (bound : Nat) : Decidable (GapsLe ts bound) := by unfold GapsLe; infer_instance

end Frappy.Spec.C13
