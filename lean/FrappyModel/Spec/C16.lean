import FrappyModel.Timed.Comm
/-
C16 — Communicator: atomic request/reply pairing, stale data discarded, self-healing.

Specification only.  A run is a list of time-stamped events `Frappy.Comm.TEv` (what the callers, the
communicator and the device did, in the order in which it happened).  Every clause of the statement is a
Boolean function over such a list, written as bounded quantification (`all` / `any` over positions) — the
monitor the driver runs on the logs of the real implementation — and the clause as a `Prop` is "the monitor
says true".  For the clauses that are proved for all schedules the quantifier form is given as a `Prop` of its own
(`MulticommAtomic`, …) and shown equivalent in `FrappyProofs/Lemmas/Comm.lean`.
Nothing here refers to the model's state or program counters.
-/
namespace Frappy.Spec.C16
open Frappy.Comm

abbrev Log := List TEv

def evAt (log : Log) (i : Nat) : Option Ev := (log[i]?).map (·.ev)
def timeAt (log : Log) (i : Nat) : Nat := ((log[i]?).map (·.t)).getD 0

/-- `∀ m, lo < m < hi → p m` -/
def allBetween (lo hi : Nat) (p : Nat → Bool) : Bool := (List.range hi).all (fun m => !(decide (lo < m)) || p m)
/-- `∃ m, lo < m < hi ∧ p m` -/
def anyBetween (lo hi : Nat) (p : Nat → Bool) : Bool := (List.range hi).any (fun m => decide (lo < m) && p m)
def allBelow (hi : Nat) (p : Nat → Bool) : Bool := (List.range hi).all p

/-- the caller whose `send` is at position i -/
def sendAt (log : Log) (i : Nat) : Option Nat :=
  match evAt log i with
  | some (.send c _ _ _) => some c
  | _ => none

def isRetOf (c : Nat) : Option Ev → Bool
  | some (.ret c' _) => c' == c
  | _ => false

/-! ### a multi-command transaction is never interleaved with other traffic -/

/-- between two sends of one call of caller `c` (no return of `c` in between) every send is `c`'s -/
def MulticommAtomic (log : Log) : Prop :=
  ∀ i j k c c', i < j → j < k → sendAt log i = some c → sendAt log k = some c →
    (∀ m, i < m → m < k → isRetOf c (evAt log m) = false) → sendAt log j = some c' → c' = c

def multicommAtomicB (log : Log) : Bool :=
  allBelow log.length fun k => allBelow k fun j => allBelow j fun i =>
    match sendAt log i, sendAt log j with
    | some c, some c' =>
      !(sendAt log k == some c) || !(allBetween i k fun m => !isRetOf c (evAt log m)) || c' == c
    | _, _ => true

/-! ### … nor is any single exchange: command, reply (and what `getFullReply` reads in addition) belong together -/

/-- the caller whose send — of a command or of an identification request — is at position i -/
def sendLikeAt (log : Log) (i : Nat) : Option Nat :=
  match evAt log i with
  | some (.send c _ _ _) => some c
  | some (.isend c _ _ _) => some c
  | _ => none

/-- the caller who touches the connection at position m (send, flush, recv) -/
def trafficAt (log : Log) (m : Nat) : Option Nat :=
  match evAt log m with
  | some (.send c _ _ _) => some c
  | some (.isend c _ _ _) => some c
  | some (.flush c) => some c
  | some (.recv c _) => some c
  | _ => none

/-- position of the send of `c` whose reply a `recv` of `c` at k is reading: the last send of `c` before k, provided `c`
has neither returned nor started to drain the connection for its next command (`flush`) in between -/
def ownSendBefore (log : Log) (c k : Nat) : Option Nat :=
  match ((List.range k).reverse.find? (fun m => (sendLikeAt log m == some c) || isRetOf c (evAt log m)
      || (evAt log m == some (.flush c)))) with
  | some m => if sendLikeAt log m == some c then some m else none
  | none => none

/-- An exchange is never interleaved with other traffic: between the send of a command by caller `c` and every `recv`
by which `c` reads its reply (including what `getFullReply` reads in addition for a reply of variable length) no OTHER
caller touches the connection. -/
def exchangeAtomicB (log : Log) : Bool :=
  allBelow log.length fun k =>
    match evAt log k with
    | some (.recv c _) =>
      (match ownSendBefore log c k with
       | some i => allBetween i k fun m => match trafficAt log m with
         | some c' => c' == c
         | none => true
       | none => true)
    | _ => true

def ExchangeAtomic (log : Log) : Prop := exchangeAtomicB log = true

/-- the same clause with quantifiers -/
def ExchangeAtomicAll (log : Log) : Prop :=
  ∀ k c out i, evAt log k = some (.recv c out) → ownSendBefore log c k = some i →
    ∀ m, i < m → m < k → ∀ c', trafficAt log m = some c' → c' = c

/-! ### call spans -/

/-- position of the return of the call of `c` that starts at `a` (`log.length` if it never returns) -/
def spanEnd (log : Log) (c a : Nat) : Nat :=
  ((List.range log.length).find? (fun m => decide (a < m) && isRetOf c (evAt log m))).getD log.length

/-- positions of the sends of `c` in (a, b) -/
def sendsIn (log : Log) (c a b : Nat) : List Nat :=
  (List.range b).filter (fun m => decide (a < m) && (sendAt log m == some c))

def noReq : Req := ⟨[], false, 0, 0⟩

/-! ### … and honours each of its delays -/

def isOkRet : Option Ev → Bool
  | some (.ret _ (.ok _)) => true
  | _ => false

/-- consecutive sends of one multicomm are at least the delay of the earlier request apart, and a successful
multicomm does not return before the last delay has passed -/
def delaysHonouredB (log : Log) : Bool :=
  allBelow log.length fun a =>
    match evAt log a with
    | some (.call c .multi reqs) =>
      let b := spanEnd log c a
      let ss := sendsIn log c a b
      (allBelow (ss.length - 1) fun m =>
        decide (timeAt log (ss.getD m 0) + (reqs.getD m noReq).delay ≤ timeAt log (ss.getD (m + 1) 0)))
      && (!(ss.length == reqs.length && decide (0 < ss.length) && isOkRet (evAt log b)) ||
        decide (timeAt log (ss.getD (ss.length - 1) 0) + (reqs.getD (ss.length - 1) noReq).delay ≤ timeAt log b))
    | _ => true

def DelaysHonoured (log : Log) : Prop := delaysHonouredB log = true

/-! ### … with respect to the DEVICE: the transaction is protected until its last delay has elapsed -/

/-- position of the first / of the last send of `c` in (a, b) -/
def firstSendIn (log : Log) (c a b : Nat) : Option Nat :=
  (List.range b).find? (fun m => decide (a < m) && (sendAt log m == some c))
def lastSendIn (log : Log) (c a b : Nat) : Option Nat :=
  (List.range b).reverse.find? (fun m => decide (a < m) && (sendAt log m == some c))

/-- A multi-command transaction owns the connection from its first command until the pause it asked for after its
last command is over: in a multicomm call of `c` that returns its replies, between its first send and its return nobody
else touches the connection (send, flush, recv) before the call's LAST send, and after that send nobody else does
earlier than the delay of the last request (`reqs[m]`, m = number of sends of the call before the last one).
(`delaysHonouredB` is about what the CALLER sees — it returns late enough; this clause is about what the DEVICE sees:
the pause after the last command is not filled with other traffic.) -/
def transactionProtectedB (log : Log) : Bool :=
  allBelow log.length fun a =>
    match evAt log a with
    | some (.call c .multi reqs) =>
      let b := spanEnd log c a
      (match firstSendIn log c a b, lastSendIn log c a b with
       | some p0, some pl =>
         !(isOkRet (evAt log b)) ||
         allBetween p0 b fun q =>
           match trafficAt log q with
           | some c' => c' == c ||
               (decide (pl < q) &&
                decide (timeAt log pl + (reqs.getD (sendsIn log c a pl).length noReq).delay ≤ timeAt log q))
           | none => true
       | _, _ => true)
    | _ => true

def TransactionProtected (log : Log) : Prop := transactionProtectedB log = true

/-- the first half in quantifier form: between two sends of one call of caller `c` nobody else touches the connection -/
def TransactionUninterrupted (log : Log) : Prop :=
  ∀ i j k c c', i < j → j < k → sendAt log i = some c → sendAt log k = some c →
    (∀ m, i < m → m < k → isRetOf c (evAt log m) = false) → trafficAt log j = some c' → c' = c

/-! ### every caller receives the reply to its own command; stale data is never returned -/

def connOfSend (log : Log) (i : Nat) : Nat :=
  match evAt log i with
  | some (.send _ conn _ _) => conn
  | _ => 0

def numOfSend (log : Log) (i : Nat) : Nat :=
  match evAt log i with
  | some (.send _ _ n _) => n
  | _ => 0

/-- the bytes that arrived on connection `conn` at positions in (i, e), in order; with a `tag`: only those the
device sent in answer to send number `tag` -/
def arrivedIn (log : Log) (conn : Nat) (tag : Option Nat) (i e : Nat) : Bytes :=
  ((List.range e).filter (fun m => decide (i < m))).flatMap (fun m =>
    match evAt log m with
    | some (.arrive conn' tg data) => if conn' == conn && (tag.isNone || tg == tag) then data else []
    | _ => [])

/-- all bytes arriving on `conn` in (i, e) answer send number `n` -/
def onlyAnswers (log : Log) (conn n i e : Nat) : Bool :=
  allBetween i e fun m =>
    match evAt log m with
    | some (.arrive conn' tg _) => !(conn' == conn) || tg == some n
    | _ => true

/-- what a reply has to look like given the fresh bytes: a complete line (line devices) or the first `rlen` bytes -/
def replyFrom (bytesMode : Bool) (eol : Bytes) (r : Req) (reply fresh : Bytes) : Bool :=
  if bytesMode then reply.length == r.rlen && reply.isPrefixOf fresh
  else (reply ++ eol).isPrefixOf fresh

/-- byte devices with replies of variable length: the number of further bytes `getFullReply` asked for (`readBytes`)
in the window (i, e) of a request of caller `c` -/
def moreIn (log : Log) (c i e : Nat) : Nat :=
  (((List.range e).filter (fun m => decide (i < m))).map (fun m =>
    match evAt log m with
    | some (.more c' n) => if c' == c then n else 0
    | _ => 0)).sum

/-- the request as it is answered in the end: the reply is `extra` bytes longer than the header first asked for -/
def withExtra (r : Req) (extra : Nat) : Req := { r with rlen := r.rlen + extra }

/-- the requests of a call that expect a reply, each with the position of its send and the end of its window
(the next send of the call, or the return) -/
def windows (reqs : List Req) (ss : List Nat) (b : Nat) : List (Req × Nat × Nat) :=
  ((reqs.zip ss).zip (ss.drop 1 ++ [b])).filterMap (fun x => if x.1.1.expect then some (x.1.1, x.1.2, x.2) else none)

/-- Stale data discarded: every reply returned by a successful call is made of bytes that arrived after the send
of its command (and before the next send of the call / the return), framed as a line or as `rlen` bytes. -/
def staleDiscardedB (bytesMode : Bool) (eol : Bytes) (log : Log) : Bool :=
  allBelow log.length fun a =>
    match evAt log a with
    | some (.call c _ reqs) =>
      let b := spanEnd log c a
      match evAt log b with
      | some (.ret _ (.ok replies)) =>
        let ws := windows reqs (sendsIn log c a b) b
        ws.length == replies.length &&
        (ws.zip replies).all fun x =>
          match x with
          | ((r, i, e), reply) =>
            replyFrom bytesMode eol (withExtra r (moreIn log c i e)) reply (arrivedIn log (connOfSend log i) none i e)
      | _ => true
    | _ => true

def StaleDiscarded (bytesMode : Bool) (eol : Bytes) (log : Log) : Prop := staleDiscardedB bytesMode eol log = true

/-- Reply pairing: when, in the window of a command, the device sends nothing but its answer to that command
(it answers in order, nothing unsolicited, no late reply after the send), the caller gets that answer. -/
def replyPairingB (bytesMode : Bool) (eol : Bytes) (log : Log) : Bool :=
  allBelow log.length fun a =>
    match evAt log a with
    | some (.call c _ reqs) =>
      let b := spanEnd log c a
      match evAt log b with
      | some (.ret _ (.ok replies)) =>
        ((windows reqs (sendsIn log c a b) b).zip replies).all fun x =>
          match x with
          | ((r, i, e), reply) =>
            !(onlyAnswers log (connOfSend log i) (numOfSend log i) i e) ||
            replyFrom bytesMode eol (withExtra r (moreIn log c i e)) reply
              (arrivedIn log (connOfSend log i) (some (numOfSend log i)) i e)
      | _ => true
    | _ => true

def ReplyPairing (bytesMode : Bool) (eol : Bytes) (log : Log) : Prop := replyPairingB bytesMode eol log = true

/-! ### silence or disconnect: a communication error within the time-out -/

def firstAcq (log : Log) (c a b : Nat) : Nat :=
  ((List.range b).find? (fun m => decide (a < m) && (evAt log m == some (.acq c)))).getD a

/-- time of the last arrival of device bytes at a position in (i, e); 0 if there is none -/
def lastArrival (log : Log) (i e : Nat) : Nat :=
  ((List.range e).filter (fun m => decide (i < m))).foldl (fun acc m =>
    match evAt log m with
    | some (.arrive _ _ _) => max acc (timeAt log m)
    | _ => acc) 0

/-- what one more position contributes to the time of the last data `recv` of caller `c` -/
def dataStep (log : Log) (c : Nat) (acc m : Nat) : Nat :=
  match evAt log m with
  | some (.recv c' (.data _)) => if c' = c then max acc (timeAt log m) else acc
  | _ => acc

/-- time of the last `recv` of caller `c` that delivered data, at a position in (p, u); 0 if there is none -/
def lastDataTime (log : Log) (c p u : Nat) : Nat :=
  ((List.range u).filter (fun m => decide (p < m))).foldl (dataStep log c) 0

/-- when the read that is under way at the end of the window (i, e) of a request of `c` began: the time of the send, or
of the last `readBytes` by which `getFullReply` asked for more (each read has the communicator's time-out) -/
def readStart (log : Log) (c i e : Nat) : Nat :=
  timeAt log (((List.range e).reverse.find? (fun m => decide (i < m) &&
    (match evAt log m with
     | some (.more c' _) => c' == c
     | _ => false))).getD i)

/-- all requests of a call that were sent, each with the position of its send and the end of its window -/
def allWindows (reqs : List Req) (ss : List Nat) (b : Nat) : List (Req × Nat × Nat) :=
  ((reqs.zip ss).zip (ss.drop 1 ++ [b])).map (fun x => (x.1.1, x.1.2, x.2))

/-- the acting caller of the event at position m -/
def whoAtE (log : Log) (m : Nat) : Option Nat := (evAt log m).bind (·.who)

/-- position of the last event of caller `c` before b satisfying `p` (`dflt` if there is none) -/
def lastOf (log : Log) (c b dflt : Nat) (p : Ev → Bool) : Nat :=
  ((List.range b).reverse.find? (fun m => (whoAtE log m == some c) && ((evAt log m).map p).getD false)).getD dflt

def isAcq : Ev → Bool
  | .acq _ => true
  | _ => false

/-- the end of the exchange of an identification request sent by `c` at i: `c` gives the lock back (or returns) -/
def identWindowEnd (log : Log) (c i : Nat) : Nat :=
  ((List.range log.length).find? (fun m => decide (i < m) &&
    ((evAt log m == some (.rel c)) || isRetOf c (evAt log m)))).getD log.length

/-- every call returns (no hang), with a result or a communication error (nothing else).  Once it has the lock it
sends after `wait_before`; and the window of a request ends (next send / return) no later than one `recv` period
after its time-out — or after the last byte the device sent in that window, if the device kept talking —
plus the request's delay and the next `wait_before`.  A call that sends nothing returns right after its last
action.  The same bound holds for every request of an identification (`checkHWIdent` on connect).
(`slack`: clock reads in between.) -/
def failsWithinTimeoutB (cfg : Cfg) (log : Log) : Bool :=
  (allBelow log.length fun a =>
    match evAt log a with
    | some (.call c kind reqs) =>
      let b := spanEnd log c a
      decide (b < log.length) &&
      (match evAt log b with
       | some (.ret _ .crash) => false
       | _ => true) &&
      (kind == .poll ||
        (let ss := sendsIn log c a b
         (match ss with
          | [] => decide (timeAt log b ≤ timeAt log (lastOf log c b a (fun _ => true)) + cfg.waitBefore + cfg.slack)
          | p :: _ => decide (timeAt log p ≤ timeAt log (lastOf log c p a isAcq) + cfg.waitBefore + cfg.slack)) &&
         (allWindows reqs ss b).all fun w =>
           match w with
           | (r, i, e) =>
             decide (timeAt log e ≤ max (readStart log c i e + (if r.expect then cfg.timeout else 0)) (lastArrival log i e)
                                    + cfg.gran + r.delay + cfg.waitBefore + cfg.slack)))
    | _ => true) &&
  (allBelow log.length fun i =>
    match evAt log i with
    | some (.isend c _ _ _) =>
      let e := identWindowEnd log c i
      decide (e < log.length) &&
      decide (timeAt log e ≤ max (timeAt log i + cfg.timeout) (lastArrival log i e) + cfg.gran + cfg.waitBefore + cfg.slack)
    | _ => true)

def FailsWithinTimeout (cfg : Cfg) (log : Log) : Prop := failsWithinTimeoutB cfg log = true

/-! ### the connection state becomes visible -/

/-- a detected disconnect (a `recv` that reports the closed connection) is followed by the update
`is_connected = false` before the detecting call returns — unless ANOTHER caller drops the connection first
(closeConnection after a failed identification runs without the communicator lock): then that caller has to announce it
(`closedVisibleB`) -/
def stateVisibleB (log : Log) : Bool :=
  allBelow log.length fun i =>
    match evAt log i with
    | some (.recv c .closed) =>
      anyBetween i log.length fun j =>
        (match evAt log j with
         | some (.isconn _ false) => true
         | some (.hclose c') => !(c' == c)
         | _ => false) && allBetween i j fun m => !isRetOf c (evAt log m)
    | _ => true

def StateVisible (log : Log) : Prop := stateVisibleB log = true

/-- the published state just before position p: the value of the last update of `is_connected` (false initially) -/
def stateAt (log : Log) (p : Nat) : Bool :=
  (List.range p).foldl (fun acc m => match evAt log m with
    | some (.isconn _ v) => v
    | _ => acc) false

/-- when the communicator has dropped its connection (`hclose` by caller `c`), the published state is — or becomes —
`false` before the closing call returns: a closed connection never stays published as connected -/
def closedVisibleB (log : Log) : Bool :=
  allBelow log.length fun i =>
    match evAt log i with
    | some (.hclose c) => anyBetween i (spanEnd log c i + 1) fun p => !stateAt log p
    | _ => true

def ClosedVisible (log : Log) : Prop := closedVisibleB log = true

/-- the state stays true to the connection: after the communicator has closed the connection, `is_connected`
is not set to true again before a connect has succeeded -/
def stateNotOverwrittenB (log : Log) : Bool :=
  allBelow log.length fun j =>
    match evAt log j with
    | some (.isconn _ true) =>
      allBelow j fun i =>
        match evAt log i with
        | some (.hclose _) => anyBetween i j fun m => match evAt log m with
          | some (.connect _ true _) => true
          | _ => false
        | _ => true
    | _ => true

def StateNotOverwritten (log : Log) : Prop := stateNotOverwrittenB log = true

/-! ### reconnection no more often than the reconnect interval allows -/

def connectAt (log : Log) (i : Nat) : Option Bool :=     -- some onDemand
  match evAt log i with
  | some (.connect _ _ od) => some od
  | _ => none

/-- FULL clause: any two connect attempts are at least the reconnect interval apart (up to the clock slack) -/
def rateLimitedAllB (cfg : Cfg) (log : Log) : Bool :=
  allBelow log.length fun j => allBelow j fun i =>
    (connectAt log i).isNone || (connectAt log j).isNone ||
    decide (timeAt log i + cfg.interval ≤ timeAt log j + 2 * cfg.slack)

/-- the part guaranteed by `check_connection`: an attempt made on behalf of a communicate call comes at least the
reconnect interval after every earlier attempt (of any origin) -/
def rateLimitedB (cfg : Cfg) (log : Log) : Bool :=
  allBelow log.length fun j => allBelow j fun i =>
    (connectAt log i).isNone || !(connectAt log j == some true) ||
    decide (timeAt log i + cfg.interval ≤ timeAt log j + 2 * cfg.slack)

def isChk (c : Nat) : Option Ev → Bool
  | some (.chk c' _) => c' == c
  | _ => false

/-- Attempts do not interleave: between the moment a communicate call finds the communicator disconnected
(`chk c false`) and the connect attempt it then makes, no other connect attempt happens.  (In the code this is what
`accessLock` around the rate test and the attempt gives; the transaction model has no `accessLock`, so the clause is a
hypothesis of `reconnect_rate_limited` there and a monitored clause on the implementation.) -/
def AttemptsAtomic (log : Log) : Prop :=
  ∀ p j c, p < j → evAt log p = some (.chk c false) → (∃ ok od, evAt log j = some (.connect c ok od)) →
    (∀ m, p < m → m < j → isChk c (evAt log m) = false) → ∀ m, p < m → m < j → connectAt log m = none

def attemptsAtomicB (log : Log) : Bool :=
  allBelow log.length fun j =>
    match evAt log j with
    | some (.connect c _ _) =>
      allBelow j fun p =>
        !(evAt log p == some (.chk c false)) || !(allBetween p j fun m => !isChk c (evAt log m)) ||
        (allBetween p j fun m => (connectAt log m).isNone)
    | _ => true

def RateLimitedAll (cfg : Cfg) (log : Log) : Prop := rateLimitedAllB cfg log = true
def RateLimited (cfg : Cfg) (log : Log) : Prop := rateLimitedB cfg log = true

/-! ### after a successful reconnect every registered reconnect callback runs exactly once -/

def okConnectBy (log : Log) (i : Nat) : Option Nat :=
  match evAt log i with
  | some (.connect c true _) => some c
  | _ => none

/-- callbacks still registered at position i: the initial ones minus those that asked to be removed earlier -/
def registeredAt (cbs : List Nat) (log : Log) (i : Nat) : List Nat :=
  cbs.filter (fun n => allBelow i (fun m =>
    match evAt log m with
    | some (.cb _ n' keep) => !(n' == n && !keep)
    | _ => true))

def cbCount (log : Log) (c n i b : Nat) : Nat :=
  ((List.range b).filter (fun m => decide (i < m) &&
    (match evAt log m with
     | some (.cb c' n' _) => c' == c && n' == n
     | _ => false))).length

/-- the acting caller of the event at position m -/
def whoAt (log : Log) (m : Nat) : Option Nat := (evAt log m).bind (·.who)

/-- number of events of caller `c` at positions in (v, m) -/
def countOf (log : Log) (c v m : Nat) : Nat :=
  ((List.range m).filter (fun x => decide (v < x) && (whoAt log x == some c))).length

/-- position of the next connect attempt of `c` after i (`log.length` if there is none) -/
def nextConnectBy (log : Log) (c i : Nat) : Nat :=
  ((List.range log.length).find? (fun m => decide (i < m) &&
    (match evAt log m with
     | some (.connect c' _ _) => c' == c
     | _ => false))).getD log.length

/-- the identification made on connect (`checkHWIdent`) failed for caller `c` at a position in (i, b): the device
answered, but it is not the expected one — the connection is dropped again, this was no successful reconnect -/
def identFailedIn (log : Log) (c i b : Nat) : Bool :=
  anyBetween i b fun m => evAt log m == some (.idend c false)

/-- for every successful connect that is not the first one: between it and the return of the call that made it (or
the next attempt of that call, if it has to reconnect once more), each callback registered at that moment runs
exactly once.  (With an identification configured the reconnect is successful when `checkHWIdent` has passed.) -/
def callbacksOnceB (cbs : List Nat) (log : Log) : Bool :=
  allBelow log.length fun i =>
    match okConnectBy log i with
    | some c =>
      let b := min (spanEnd log c i) (nextConnectBy log c i)
      !((List.range i).any fun i0 => (okConnectBy log i0).isSome) || !(decide (b < log.length)) ||
      identFailedIn log c i b ||
      (registeredAt cbs log i).all fun n => cbCount log c n i b == 1
    | none => true

def CallbacksOnce (cbs : List Nat) (log : Log) : Prop := callbacksOnceB cbs log = true

/-! ### … and polling resumes -/

/-- after the poll thread's reconnect callback (`name`) has run, every polled module is polled again within `within` -/
def pollingResumesB (name : Nat) (mods : List Nat) (within : Nat) (log : Log) : Bool :=
  allBelow log.length fun i =>
    match evAt log i with
    | some (.cb _ n _) =>
      !(n == name) || mods.all fun m =>
        anyBetween i log.length fun j => (evAt log j == some (.dopoll m)) && decide (timeAt log j ≤ timeAt log i + within)
    | _ => true

def PollingResumes (name : Nat) (mods : List Nat) (within : Nat) (log : Log) : Prop :=
  pollingResumesB name mods within log = true

/-! ### … honours `wait_before`: every line put on the wire is a send of its own, after a pause -/

/-- caller and data of the send — of a command or of an identification request — at position i -/
def sendLikeData (log : Log) (i : Nat) : Option (Nat × Bytes) :=
  match evAt log i with
  | some (.send c _ _ d) => some (c, d)
  | some (.isend c _ _ d) => some (c, d)
  | _ => none

/-- the data is exactly one line: the send terminator occurs at its end and nowhere before (no terminator: no lines) -/
def oneLineB (eolW data : Bytes) : Bool :=
  eolW.isEmpty || (match splitFirst eolW data with
    | some (_, r) => r.isEmpty
    | none => false)

/-- With `wait_before = w > 0` the device is given a pause before EVERY line: each send carries exactly one line, and
before it the sending caller has slept at least `w` (a `slp` of the caller, at least `w` long and begun at least `w`
earlier, with no send of that caller in between). -/
def waitBeforeHonouredB (w : Nat) (eolW : Bytes) (log : Log) : Bool :=
  w == 0 || allBelow log.length fun q =>
    match sendLikeData log q with
    | some (c, data) =>
      oneLineB eolW data &&
      (List.range q).any fun p =>
        match evAt log p with
        | some (.slp c' d) =>
          c' == c && decide (w ≤ d) && decide (timeAt log p + w ≤ timeAt log q) &&
          allBetween p q (fun m => !(sendLikeAt log m == some c))
        | _ => false
    | none => true

def WaitBeforeHonoured (w : Nat) (eolW : Bytes) (log : Log) : Prop := waitBeforeHonouredB w eolW log = true

/-- the pause alone (what the transaction model is about: it sends the requests it is given) -/
def pacedB (w : Nat) (log : Log) : Bool := waitBeforeHonouredB w [] log

/-- the lines of a command, terminators included (`fuel` ≥ length) -/
def linesOf (eolW : Bytes) : Nat → Bytes → List Bytes
  | 0, b => if b.isEmpty then [] else [b]
  | fuel + 1, b =>
    if b.isEmpty then [] else
    match splitFirst eolW b with
    | some (l, r) => (l ++ eolW) :: linesOf eolW fuel r
    | none => [b]

/-- a request whose command consists of several lines counts as one request per line when a pause is owed before
every line; only the last line is answered (a command without reply joined with a query) -/
def lineReqs (w : Nat) (eolW : Bytes) (r : Req) : List Req :=
  if w == 0 || eolW.isEmpty then [r] else
  match (linesOf eolW r.cmd.length r.cmd).reverse with
  | [] => [r]
  | last :: before => (before.reverse.map fun l => (⟨l, false, 0, 0⟩ : Req)) ++ [{ r with cmd := last }]

/-- the log as the clauses about requests and replies read it: the requests of every call line by line -/
def expandCalls (w : Nat) (eolW : Bytes) (log : Log) : Log :=
  log.map fun e =>
    match e.ev with
    | .call c k reqs => { e with ev := .call c k (reqs.flatMap (lineReqs w eolW)) }
    | _ => e

/-- position q holds a send of a `communicate` call (one request) that is not the first send of that call: a further
line of a command of several lines -/
def laterLineAt (log : Log) (q : Nat) : Option Nat :=
  match evAt log q with
  | some (.send c _ _ _) =>
    (match (List.range q).reverse.find? (fun m => match evAt log m with
        | some (.call c' _ _) => c' == c
        | _ => false) with
     | some a =>
       (match evAt log a with
        | some (.call _ .comm _) => if anyBetween a q (fun m => sendAt log m == some c) then some c else none
        | _ => none)
     | none => none)
  | _ => none

/-- the log as the clauses about REPLIES read it: a command of several lines is one command, sent from its first line
on — the receive buffer is flushed once, before the first line, and what arrives from then on answers the command.
The sends of its further lines are taken out (replaced by an event of the same caller that these clauses ignore), so that
the window of the request begins at the send of its first line. -/
def joinLines (log : Log) : Log :=
  (List.range log.length).filterMap fun q =>
    (log[q]?).map fun e =>
      match laterLineAt log q with
      | some c => { e with ev := .wake c }
      | none => e

/-- nothing of a command is lost, doubled or reordered on the way to the wire: the sends of a call that returns
its replies, put together, are its requests put together -/
def commandIntactB (log : Log) : Bool :=
  allBelow log.length fun a =>
    match evAt log a with
    | some (.call c _ reqs) =>
      let b := spanEnd log c a
      !(isOkRet (evAt log b)) ||
      ((sendsIn log c a b).flatMap fun q => match sendLikeData log q with
        | some (_, d) => d
        | none => []) == reqs.flatMap (·.cmd)
    | _ => true

/-! ### self-healing goes back to the SAME device -/

def isConnect : Option Ev → Bool
  | some (.connect _ _ _) => true
  | _ => false

def connectCount (log : Log) : Nat := ((List.range log.length).filter fun i => isConnect (evAt log i)).length

/-- `targets` = the addresses (host, port) the connect attempts of the log were made to, in order: every reconnect
attempt goes to the address of the first connect -/
def reconnectSameTargetB (targets : List (Nat × Nat)) (log : Log) : Bool :=
  (connectCount log == targets.length) && targets.all fun a => some a == targets.head?

def ReconnectSameTarget (targets : List (Nat × Nat)) (log : Log) : Prop := reconnectSameTargetB targets log = true

end Frappy.Spec.C16
