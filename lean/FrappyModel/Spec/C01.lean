import FrappyModel.Datatypes.Types
import FrappyModel.Base.Base64
/-
C01 — Datatype validation is sound, canonical and total.

Specification only, written from the statement and from the SECoP meaning of the datainfo — not
from how `FrappyModel/Datatypes/{Validate,Import}.lean` compute:

* `InSet dt v`            — `v` lies in the declared value set of `dt`
* `Denotes dt prev o r`   — `r` is the value that was offered as the Python value `o`
                            (`prev` = what the parameter holds, for the documented merging)
* `WireDenotes dt j v`    — `v` is the Python value the JSON value `j` stands for under `dt`
* outcome classes: `ok r` | bad-value error | any other exception.

All of them are structurally recursive `Prop`s built from decidable pieces, so the monitors are
`decide` of the same definitions (`inSetB`, `denotesB`, `wireDenotesB`): what the driver evaluates
on the outcomes of the real implementation *is* the specification.  Equality of floats inside the
`Prop`s is `FloatOps.same … = true` (identity of representation; `= ` under `LawfulFloatOps.same_iff`).
-/
namespace Frappy.Spec.C01
open FloatOps DType
open PVal (toFloat? seqItems? prevItems prevFields dictGet pyEq ofJVal isNone given notOffered)
variable {F : Type} [FloatOps F]

/-! ## The declared value set -/

/-- `g`, if there, is exactly `x` -/
def IsSome (g : Option F) (x : F) : Prop :=
  match g with
  | some y => same y x = true
  | none => False

/-- `x` is a value of the grid of `scale`: `k * scale` for an integer `k` -/
def OnGrid (scale x : F) : Prop := ∃ k : Int, IsSome (ofGrid scale k) x

/-- decidable approximation of `OnGrid` used by the monitor: an index within one of
`round(x / scale)` gives `x` (complete wherever the grid law `round(k*scale/scale) = k ± 1` holds) -/
def OnGridNear (scale x : F) : Prop :=
  match gridIndex scale x with
  | some k => IsSome (ofGrid scale (k - 1)) x ∨ IsSome (ofGrid scale k) x ∨ IsSome (ofGrid scale (k + 1)) x
  | none => False

/-- the limits of a scaled type are transported as grid indices `round(min/scale)`, `round(max/scale)`;
the declared interval is the one between their grid values -/
def BetweenSnapped (scale min max x : F) : Prop :=
  match snap scale min, snap scale max with
  | some lo, some hi => le lo x = true ∧ le x hi = true
  | _, _ => False

mutual
/-- the value set; `G scale x` = "`x` is a grid value of `scale`" -/
def InSetG (G : F → F → Prop) : DType F → PVal F → Prop
  | .double min max _ _, v =>
    match v with
    | .float x => isNaN x = false ∧ le min x = true ∧ le x max = true
    | _ => False
  | .int min max, v =>
    match v with
    | .int i => min ≤ i ∧ i ≤ max
    | _ => False
  | .scaled scale min max _ _, v =>
    match v with
    | .float x => G scale x ∧ BetweenSnapped scale min max x
    | _ => False
  | .bool, v =>
    match v with
    | .bool _ => True
    | _ => False
  | .enum ms, v =>
    match v with
    | .enum n k => (n, k) ∈ ms
    | _ => False
  | .string minc maxc utf8, v =>
    match v with
    | .str s => minc ≤ s.length ∧ s.length ≤ maxc ∧ (utf8 = false → ∀ c ∈ s.toList, c.toNat < 128) ∧
        (∀ c ∈ s.toList, c.toNat ≠ 0)
    | _ => False
  | .blob minb maxb, v =>
    match v with
    | .bytes b => minb ≤ b.length ∧ b.length ≤ maxb
    | _ => False
  | .array elem minlen maxlen, v =>
    match v with
    | .tuple vs => (∀ x ∈ vs, InSetG G elem x) ∧ minlen ≤ vs.length ∧ vs.length ≤ maxlen
    | _ => False
  | .tuple elems, v =>
    match v with
    | .tuple vs => ZipInG G elems vs
    | _ => False
  | .struct ms opt _, v =>
    match v with
    | .dict fields => (∀ kv ∈ fields, MemberInG G ms kv.1 kv.2) ∧ (fields.map (·.1)).Nodup ∧
        (∀ k ∈ ms.map (·.1), k ∉ opt → k ∈ fields.map (·.1))
    | _ => False
/-- element-wise, equal arity -/
def ZipInG (G : F → F → Prop) : List (DType F) → List (PVal F) → Prop
  | [], [] => True
  | t :: ts, v :: vs => InSetG G t v ∧ ZipInG G ts vs
  | _, _ => False
/-- `key` names a member and `v` is in that member's set -/
def MemberInG (G : F → F → Prop) : List (String × DType F) → String → PVal F → Prop
  | [], _, _ => False
  | (k, t) :: rest, key, v => if k = key then InSetG G t v else MemberInG G rest key v
end

/-- the declared value set of `dt` -/
def InSet (dt : DType F) (v : PVal F) : Prop := InSetG OnGrid dt v

/-- what the monitor decides (differs from `InSet` only in `OnGridNear` for `OnGrid`) -/
def InSetM (dt : DType F) (v : PVal F) : Prop := InSetG OnGridNear dt v

/-! ## "the same value that was offered" -/

/-- ±inf offered to a double stand for ±`sys.float_info.max` (documented in `FloatRange.__call__`:
"map ±infty to ±max possible number") -/
def clampInf (x : F) : F :=
  if lt maxFinite x then maxFinite else if lt x (neg maxFinite) then neg maxFinite else x

/-- the integer a Python number is, if it is one (`True` is 1, `2.0` is 2, `1.5` is none) -/
def numInt? : PVal F → Option Int
  | .bool b => some (if b then 1 else 0)
  | .int i => some i
  | .float x => asInt? x
  | _ => none

/-- … and an `EnumMember` stands for its value -/
def intLike? : PVal F → Option Int
  | .enum _ v => some v
  | o => numInt? o

/-- a number offered to a double: the same number, or — when it lies outside the limits by no more
than the resolution tolerance `max(|v·relative_resolution|, absolute_resolution)` — the limit -/
def DenotesDouble (min max ar rr : F) (o : PVal F) (r : F) : Prop :=
  match toFloat? o with
  | none => False
  | some x =>
    isNaN x = false ∧
    (same r (clampInf x) = true ∨
     (same r min = true ∧ lt (clampInf x) min = true ∧
        le (sub min (tolerance rr ar (clampInf x))) (clampInf x) = true) ∨
     (same r max = true ∧ lt max (clampInf x) = true ∧
        le (clampInf x) (add max (tolerance rr ar (clampInf x))) = true))

/-- a number offered to a scaled type: the grid value nearest to it when that lies in the declared
interval (between the grid values `lo`, `hi` of the limits: the interval the datainfo describes), or — when
the number lies outside that interval by less than one `scale` — the end of the interval -/
def DenotesScaled (scale min max : F) (o : PVal F) (r : F) : Prop :=
  match toFloat? o with
  | none => False
  | some x =>
    match gridIndex scale x with
    | none => False
    | some k =>
      match ofGrid scale k, snap scale min, snap scale max with
      | some g, some lo, some hi =>
        (same r g = true ∧ le lo g = true ∧ le g hi = true) ∨
        (lt (sub lo scale) x = true ∧ lt x (add hi scale) = true ∧
          ((same r lo = true ∧ lt g lo = true) ∨ (same r hi = true ∧ lt hi g = true)))
      | _, _, _ => False

/-- an enum member is denoted by its name or by (a number equal to) its value -/
def DenotesEnum (ms : List (String × Int)) (o : PVal F) (n : String) (k : Int) : Prop :=
  (n, k) ∈ ms ∧
  match o with
  | .str s => s = n
  | o => intLike? o = some k

/-- element-wise over an array, each element with the element of `previous` at its position (if any) -/
def AllDen (P : Option (PVal F) → PVal F → PVal F → Prop) : List (PVal F) → List (PVal F) → List (PVal F) → Prop
  | _, [], [] => True
  | ps, v :: vs, r :: rs => P ps.head? v r ∧ AllDen P ps.tail vs rs
  | _, _, _ => False

/-- key-wise over a struct: a member that was offered denotes what was offered; a member that was not
is the member of `previous` (`notOffered`), validated like an offered one; nothing else appears, nothing
is lost -/
def DenotesStruct (M : String → PVal F → PVal F → Prop) (prevD fields r : List (String × PVal F)) : Prop :=
  (∀ kv ∈ r, match given fields kv.1 with
      | some v => M kv.1 v kv.2
      | none => match given (notOffered fields prevD) kv.1 with
        | some pv => M kv.1 pv kv.2
        | none => False) ∧
  (∀ kv ∈ fields, isNone kv.2 = false → kv.1 ∈ r.map (·.1)) ∧
  (∀ kv ∈ prevD, isNone kv.2 = false → kv.1 ∈ r.map (·.1))

mutual
/-- `r` is the value offered as `o` to a parameter of type `dt` currently holding `prev` -/
def Denotes : DType F → Option (PVal F) → PVal F → PVal F → Prop
  | .double min max ar rr, _, o, r =>
    match r with
    | .float y => DenotesDouble min max ar rr o y
    | _ => False
  | .int _ _, _, o, r =>
    match r with
    | .int i => numInt? o = some i
    | _ => False
  | .scaled scale min max _ _, _, o, r =>
    match r with
    | .float y => DenotesScaled scale min max o y
    | _ => False
  | .bool, _, o, r =>
    match r with
    | .bool b => intLike? o = some (if b then 1 else 0)
    | _ => False
  | .enum ms, _, o, r =>
    match r with
    | .enum n k => DenotesEnum ms o n k
    | _ => False
  | .string _ _ _, _, o, r =>
    match o, r with
    | .str s, .str t => s = t
    | _, _ => False
  | .blob _ _, _, o, r =>
    match o, r with
    | .bytes s, .bytes t => s = t
    | _, _ => False
  | .array elem _ _, prev, o, r =>
    match seqItems? o, r with
    | some vs, .tuple rs => AllDen (fun p x y => Denotes elem p x y) (prevItems prev) vs rs
    | _, _ => False
  | .tuple elems, prev, o, r =>
    match seqItems? o, r with
    | some vs, .tuple rs =>
      (match prev with
       | none => ZipDen elems none vs rs
       | some p =>
         match seqItems? p with
         | some ps => ZipDen elems (some ps) vs rs
         | none => False)
    | _, _ => False
  | .struct ms _ _, prev, o, r =>
    match o, r with
    | .dict fields, .dict rf => DenotesStruct (fun k x y => MemberDen ms k x y) (prevFields prev) fields rf
    | _, _ => False
/-- element-wise, equal length -/
def ZipDen : List (DType F) → Option (List (PVal F)) → List (PVal F) → List (PVal F) → Prop
  | [], _, [], [] => True
  | t :: ts, none, v :: vs, r :: rs => Denotes t none v r ∧ ZipDen ts none vs rs
  | t :: ts, some (p :: ps), v :: vs, r :: rs => Denotes t (some p) v r ∧ ZipDen ts (some ps) vs rs
  | _, _, _, _ => False
def MemberDen : List (String × DType F) → String → PVal F → PVal F → Prop
  | [], _, _, _ => False
  | (k, t) :: rest, key, o, r => if k = key then Denotes t none o r else MemberDen rest key o r
end

/-! ## the Python value a JSON value stands for -/

def WireAll (P : JVal F → PVal F → Prop) : List (JVal F) → List (PVal F) → Prop
  | [], [] => True
  | j :: js, v :: vs => P j v ∧ WireAll P js vs
  | _, _ => False

/-- the value of member `k` of a JSON object (the last one if the key is repeated) -/
def jgiven (fields : List (String × JVal F)) (k : String) : Option (JVal F) :=
  fields.foldl (fun acc kv => if kv.1 = k then some kv.2 else acc) none

def WireStruct (M : String → JVal F → PVal F → Prop) (fields : List (String × JVal F))
    (r : List (String × PVal F)) : Prop :=
  (∀ kv ∈ r, match jgiven fields kv.1 with
      | some j => M kv.1 j kv.2
      | none => False) ∧
  (∀ kv ∈ fields, kv.1 ∈ r.map (·.1))

mutual
/-- numbers stand for numbers (a scaled value travels as its grid index, an integer), strings for
strings, a blob travels as strict base64, arrays and tuples as lists of equal length, structs as objects -/
def WireDenotes : DType F → JVal F → PVal F → Prop
  | .double _ _ _ _, j, v =>
    match v with
    | .float y =>
      (match toFloat? (ofJVal j) with
       | some x => isNaN x = false ∧ same y (clampInf x) = true
       | none => False)
    | _ => False
  | .int _ _, j, v =>
    match v with
    | .int i => numInt? (ofJVal j) = some i
    | _ => False
  | .scaled scale _ _ _ _, j, v =>
    match v with
    | .float y =>
      (match numInt? (ofJVal j) with
       | some k =>
         (match (ofInt k : Option F) with
          | some g => same y (mul scale g) = true
          | none => False)
       | none => False)
    | _ => False
  | .bool, j, v =>
    match v with
    | .bool b => intLike? (ofJVal j) = some (if b then 1 else 0)
    | _ => False
  | .enum ms, j, v =>
    match v with
    | .enum n k => DenotesEnum ms (ofJVal j) n k
    | _ => False
  | .string _ _ _, j, v =>
    match j, v with
    | .str s, .str t => s = t
    | _, _ => False
  | .blob _ _, j, v =>
    match j, v with
    | .str s, .bytes b => Base64.decode? s = some b
    | _, _ => False
  | .array elem _ _, j, v =>
    match j, v with
    | .arr js, .tuple vs => WireAll (fun a b => WireDenotes elem a b) js vs
    | _, _ => False
  | .tuple elems, j, v =>
    match j, v with
    | .arr js, .tuple vs => WireZip elems js vs
    | _, _ => False
  | .struct ms _ _, j, v =>
    match j, v with
    | .obj fields, .dict r => WireStruct (fun k a b => WireMember ms k a b) fields r
    | _, _ => False
def WireZip : List (DType F) → List (JVal F) → List (PVal F) → Prop
  | [], [], [] => True
  | t :: ts, j :: js, v :: vs => WireDenotes t j v ∧ WireZip ts js vs
  | _, _, _ => False
def WireMember : List (String × DType F) → String → JVal F → PVal F → Prop
  | [], _, _, _ => False
  | (k, t) :: rest, key, j, v => if k = key then WireDenotes t j v else WireMember rest key j v
end

/-! ## canonical form, "unchanged" -/

mutual
/-- no float leaf is changed by `+ 0.0` (i.e. none is `-0.0`): the form validation returns -/
def Canon : PVal F → Prop
  | .float x => same (addZero x) x = true
  | .tuple l => CanonList l
  | .list l => CanonList l
  | .dict d => CanonFields d
  | _ => True
def CanonList : List (PVal F) → Prop
  | [] => True
  | v :: vs => Canon v ∧ CanonList vs
def CanonFields : List (String × PVal F) → Prop
  | [] => True
  | (_, v) :: rest => Canon v ∧ CanonFields rest
end

/-- "returns it unchanged": the same representation, and equal to itself in Python's sense (no NaN inside) -/
def Unchanged (r r' : PVal F) : Prop := PVal.same r r' = true ∧ pyEq r r' = true

/-! ## decidability: the monitors are `decide` of the definitions above -/

instance (g : Option F) (x : F) : Decidable (IsSome g x) := by
  unfold IsSome; split <;> infer_instance

instance (scale x : F) : Decidable (OnGridNear scale x) := by
  unfold OnGridNear; split <;> infer_instance

instance (scale min max x : F) : Decidable (BetweenSnapped scale min max x) := by
  unfold BetweenSnapped; split <;> infer_instance

section
variable (G : F → F → Prop) [∀ s x, Decidable (G s x)]
mutual
def decInSetG : (dt : DType F) → (v : PVal F) → Decidable (InSetG G dt v)
  | .double _ _ _ _, v => by cases v <;> simp only [InSetG] <;> infer_instance
  | .int _ _, v => by cases v <;> simp only [InSetG] <;> infer_instance
  | .scaled _ _ _ _ _, v => by cases v <;> simp only [InSetG] <;> infer_instance
  | .bool, v => by cases v <;> simp only [InSetG] <;> infer_instance
  | .enum _, v => by cases v <;> simp only [InSetG] <;> infer_instance
  | .string _ _ _, v => by cases v <;> simp only [InSetG] <;> infer_instance
  | .blob _ _, v => by cases v <;> simp only [InSetG] <;> infer_instance
  | .array elem _ _, v => by
    cases v
    case tuple vs =>
      simp only [InSetG]
      have : ∀ x, Decidable (InSetG G elem x) := decInSetG elem
      infer_instance
    all_goals (simp only [InSetG]; infer_instance)
  | .tuple elems, v => by
    cases v
    case tuple vs => simp only [InSetG]; exact decZipInG elems vs
    all_goals (simp only [InSetG]; infer_instance)
  | .struct ms _ _, v => by
    cases v
    case dict fields =>
      simp only [InSetG]
      have : ∀ k x, Decidable (MemberInG G ms k x) := decMemberInG ms
      infer_instance
    all_goals (simp only [InSetG]; infer_instance)
def decZipInG : (ts : List (DType F)) → (vs : List (PVal F)) → Decidable (ZipInG G ts vs)
  | [], [] => by simp only [ZipInG]; infer_instance
  | t :: ts, v :: vs => by
    simp only [ZipInG]
    have := decInSetG t v
    have := decZipInG ts vs
    infer_instance
  | [], _ :: _ => by simp only [ZipInG]; infer_instance
  | _ :: _, [] => by simp only [ZipInG]; infer_instance
def decMemberInG : (ms : List (String × DType F)) → (k : String) → (v : PVal F) → Decidable (MemberInG G ms k v)
  | [], _, _ => by simp only [MemberInG]; infer_instance
  | (k, t) :: rest, key, v => by
    simp only [MemberInG]
    have := decInSetG t v
    have := decMemberInG rest key v
    infer_instance
end
end

instance (dt : DType F) (v : PVal F) : Decidable (InSetM dt v) := decInSetG OnGridNear dt v

/-- monitor of the value set -/
def inSetB (dt : DType F) (v : PVal F) : Bool := decide (InSetM dt v)

instance (min max ar rr : F) (o : PVal F) (r : F) : Decidable (DenotesDouble min max ar rr o r) := by
  unfold DenotesDouble; split <;> infer_instance

instance (scale min max : F) (o : PVal F) (r : F) : Decidable (DenotesScaled scale min max o r) := by
  unfold DenotesScaled
  split
  · infer_instance
  · split
    · infer_instance
    · split <;> infer_instance

instance (ms : List (String × Int)) (o : PVal F) (n : String) (k : Int) : Decidable (DenotesEnum ms o n k) := by
  unfold DenotesEnum
  cases o <;> infer_instance

def decAllDen (P : Option (PVal F) → PVal F → PVal F → Prop) (d : ∀ p v r, Decidable (P p v r)) :
    (ps vs rs : List (PVal F)) → Decidable (AllDen P ps vs rs)
  | _, [], [] => by simp only [AllDen]; infer_instance
  | ps, v :: vs, r :: rs => by
    simp only [AllDen]
    have := d ps.head? v r
    have := decAllDen P d ps.tail vs rs
    infer_instance
  | _, [], _ :: _ => by simp only [AllDen]; infer_instance
  | _, _ :: _, [] => by simp only [AllDen]; infer_instance

def decDenotesStruct (M : String → PVal F → PVal F → Prop) (d : ∀ k v r, Decidable (M k v r))
    (prevD fields r : List (String × PVal F)) : Decidable (DenotesStruct M prevD fields r) := by
  unfold DenotesStruct
  have : ∀ kv : String × PVal F, Decidable (match given fields kv.1 with
      | some v => M kv.1 v kv.2
      | none => match given (notOffered fields prevD) kv.1 with
        | some pv => M kv.1 pv kv.2
        | none => False) := by
    intro kv
    split
    · exact d _ _ _
    · split
      · exact d _ _ _
      · infer_instance
  infer_instance

mutual
def decDenotes : (dt : DType F) → (prev : Option (PVal F)) → (o r : PVal F) → Decidable (Denotes dt prev o r)
  | .double _ _ _ _, _, _, r => by cases r <;> simp only [Denotes] <;> infer_instance
  | .int _ _, _, _, r => by cases r <;> simp only [Denotes] <;> infer_instance
  | .scaled _ _ _ _ _, _, _, r => by cases r <;> simp only [Denotes] <;> infer_instance
  | .bool, _, _, r => by cases r <;> simp only [Denotes] <;> infer_instance
  | .enum _, _, _, r => by cases r <;> simp only [Denotes] <;> infer_instance
  | .string _ _ _, _, o, r => by simp only [Denotes]; split <;> infer_instance
  | .blob _ _, _, o, r => by simp only [Denotes]; split <;> infer_instance
  | .array elem _ _, prev, o, r => by
    simp only [Denotes]
    split
    · exact decAllDen _ (fun p x y => decDenotes elem p x y) _ _ _
    · infer_instance
  | .tuple elems, prev, o, r => by
    simp only [Denotes]
    split
    · split
      · exact decZipDen elems none _ _
      · split
        · exact decZipDen elems _ _ _
        · infer_instance
    · infer_instance
  | .struct ms _ _, prev, o, r => by
    simp only [Denotes]
    split
    · exact decDenotesStruct _ (fun k x y => decMemberDen ms k x y) _ _ _
    · infer_instance
def decZipDen : (ts : List (DType F)) → (ps : Option (List (PVal F))) → (vs rs : List (PVal F)) →
    Decidable (ZipDen ts ps vs rs)
  | [], _, [], [] => by simp only [ZipDen]; infer_instance
  | t :: ts, none, v :: vs, r :: rs => by
    simp only [ZipDen]
    have := decDenotes t none v r
    have := decZipDen ts none vs rs
    infer_instance
  | t :: ts, some (p :: ps), v :: vs, r :: rs => by
    simp only [ZipDen]
    have := decDenotes t (some p) v r
    have := decZipDen ts (some ps) vs rs
    infer_instance
  | [], _, _ :: _, _ => by simp only [ZipDen]; infer_instance
  | [], _, [], _ :: _ => by simp only [ZipDen]; infer_instance
  | _ :: _, _, [], _ => by simp only [ZipDen]; infer_instance
  | _ :: _, _, _ :: _, [] => by simp only [ZipDen]; infer_instance
  | _ :: _, some [], _ :: _, _ :: _ => by simp only [ZipDen]; infer_instance
def decMemberDen : (ms : List (String × DType F)) → (k : String) → (o r : PVal F) → Decidable (MemberDen ms k o r)
  | [], _, _, _ => by simp only [MemberDen]; infer_instance
  | (k, t) :: rest, key, o, r => by
    simp only [MemberDen]
    have := decDenotes t none o r
    have := decMemberDen rest key o r
    infer_instance
end

instance (dt : DType F) (prev : Option (PVal F)) (o r : PVal F) : Decidable (Denotes dt prev o r) :=
  decDenotes dt prev o r

/-- monitor of "denotes the value offered" -/
def denotesB (dt : DType F) (prev : Option (PVal F)) (o r : PVal F) : Bool := decide (Denotes dt prev o r)

def decWireAll (P : JVal F → PVal F → Prop) (d : ∀ j v, Decidable (P j v)) :
    (js : List (JVal F)) → (vs : List (PVal F)) → Decidable (WireAll P js vs)
  | [], [] => by simp only [WireAll]; infer_instance
  | j :: js, v :: vs => by
    simp only [WireAll]
    have := d j v
    have := decWireAll P d js vs
    infer_instance
  | [], _ :: _ => by simp only [WireAll]; infer_instance
  | _ :: _, [] => by simp only [WireAll]; infer_instance

def decWireStruct (M : String → JVal F → PVal F → Prop) (d : ∀ k j v, Decidable (M k j v))
    (fields : List (String × JVal F)) (r : List (String × PVal F)) : Decidable (WireStruct M fields r) := by
  unfold WireStruct
  have : ∀ kv : String × PVal F, Decidable (match jgiven fields kv.1 with
      | some j => M kv.1 j kv.2
      | none => False) := by
    intro kv
    split
    · exact d _ _ _
    · infer_instance
  infer_instance

mutual
def decWireDenotes : (dt : DType F) → (j : JVal F) → (v : PVal F) → Decidable (WireDenotes dt j v)
  | .double _ _ _ _, j, v => by
    cases v <;> simp only [WireDenotes] <;> try infer_instance
    split <;> infer_instance
  | .int _ _, _, v => by cases v <;> simp only [WireDenotes] <;> infer_instance
  | .scaled _ _ _ _ _, j, v => by
    cases v <;> simp only [WireDenotes] <;> try infer_instance
    split
    · split <;> infer_instance
    · infer_instance
  | .bool, _, v => by cases v <;> simp only [WireDenotes] <;> infer_instance
  | .enum _, _, v => by cases v <;> simp only [WireDenotes] <;> infer_instance
  | .string _ _ _, j, v => by simp only [WireDenotes]; split <;> infer_instance
  | .blob _ _, j, v => by simp only [WireDenotes]; split <;> infer_instance
  | .array elem _ _, j, v => by
    simp only [WireDenotes]
    split
    · exact decWireAll _ (fun a b => decWireDenotes elem a b) _ _
    · infer_instance
  | .tuple elems, j, v => by
    simp only [WireDenotes]
    split
    · exact decWireZip elems _ _
    · infer_instance
  | .struct ms _ _, j, v => by
    simp only [WireDenotes]
    split
    · exact decWireStruct _ (fun k a b => decWireMember ms k a b) _ _
    · infer_instance
def decWireZip : (ts : List (DType F)) → (js : List (JVal F)) → (vs : List (PVal F)) → Decidable (WireZip ts js vs)
  | [], [], [] => by simp only [WireZip]; infer_instance
  | t :: ts, j :: js, v :: vs => by
    simp only [WireZip]
    have := decWireDenotes t j v
    have := decWireZip ts js vs
    infer_instance
  | [], _ :: _, _ => by simp only [WireZip]; infer_instance
  | [], [], _ :: _ => by simp only [WireZip]; infer_instance
  | _ :: _, [], _ => by simp only [WireZip]; infer_instance
  | _ :: _, _ :: _, [] => by simp only [WireZip]; infer_instance
def decWireMember : (ms : List (String × DType F)) → (k : String) → (j : JVal F) → (v : PVal F) →
    Decidable (WireMember ms k j v)
  | [], _, _, _ => by simp only [WireMember]; infer_instance
  | (k, t) :: rest, key, j, v => by
    simp only [WireMember]
    have := decWireDenotes t j v
    have := decWireMember rest key j v
    infer_instance
end

instance (dt : DType F) (j : JVal F) (v : PVal F) : Decidable (WireDenotes dt j v) := decWireDenotes dt j v

/-- monitor of the wire denotation -/
def wireDenotesB (dt : DType F) (j : JVal F) (v : PVal F) : Bool := decide (WireDenotes dt j v)

instance (r r' : PVal F) : Decidable (Unchanged r r') := by unfold Unchanged; infer_instance

def unchangedB (r r' : PVal F) : Bool := decide (Unchanged r r')

/-! ## judging the outcomes of the implementation -/

/-- what a method of the implementation did: returned a value, raised a bad-value error
(`RangeError`/`WrongTypeError` — C01 does not distinguish them), or raised anything else -/
inductive Outcome (F : Type) where
  | ok (v : PVal F)
  | bad
  | other (pyclass : String)
  deriving Inhabited

/-- "never fails with any other kind of exception" -/
def Outcome.total : Outcome F → Bool
  | .other _ => false
  | _ => true

/-- re-validation of a validated value returns it unchanged -/
def Outcome.returns (o : Outcome F) (r : PVal F) : Bool :=
  match o with
  | .ok r' => unchangedB r r'
  | _ => false

/-- the outcomes of `import_value(j)`, `validate(imported, prev)`, and of validating the result
again (without and with itself as `previous`): names of the clauses of the statement that fail -/
def judgeWire (dt : DType F) (j : JVal F) (prev : Option (PVal F))
    (imp : Outcome F) (val re1 re2 : Option (Outcome F)) : List String :=
  (if imp.total then [] else ["total:import"]) ++
  (match imp with
   | .ok v =>
     (if wireDenotesB dt j v then [] else ["denotes:import"]) ++
     (match val with
      | some (.ok r) =>
        (if inSetB dt r then [] else ["inset:wire"]) ++
        (if denotesB dt prev v r then [] else ["denotes:wire"]) ++
        (match re1 with | some o => if o.returns r then [] else ["idem:wire"] | none => ["idem:missing"]) ++
        (match re2 with | some o => if o.returns r then [] else ["idem-prev:wire"] | none => ["idem:missing"])
      | some (.other _) => ["total:validate-imported"]
      | some .bad => []
      | none => ["validate:missing"])
   | _ => [])

/-- the outcomes of `validate(o, prev)` on a Python value and of validating the result again -/
def judgeValidate (dt : DType F) (o : PVal F) (prev : Option (PVal F))
    (val : Outcome F) (re1 re2 : Option (Outcome F)) : List String :=
  match val with
  | .ok r =>
    (if inSetB dt r then [] else ["inset:validate"]) ++
    (if denotesB dt prev o r then [] else ["denotes:validate"]) ++
    (match re1 with | some x => if x.returns r then [] else ["idem:validate"] | none => ["idem:missing"]) ++
    (match re2 with | some x => if x.returns r then [] else ["idem-prev:validate"] | none => ["idem:missing"])
  | .other _ => ["total:validate"]
  | .bad => []

/-- the conversion-only path `dt(o)`: totality, and converting the result again returns it unchanged -/
def judgeCall (call : Outcome F) (recall : Option (Outcome F)) : List String :=
  match call with
  | .ok r => (match recall with | some x => if x.returns r then [] else ["idem:call"] | none => ["idem:missing"])
  | .other _ => ["total:call"]
  | .bad => []

/-- a request that carries a value of type `dt` into the node: `change` on a parameter holding `held`
(`prev = some held`), or `do` on a command with argument type `dt` (`prev = none`); data `j`; `out` = what the node
stored / handed to the command function (`ok r`), or the error it answered with.  "Validation either returns a value
that lies inside the declared value set and denotes the value that was offered, or raises a bad-value error" -/
def ChangeOK (dt : DType F) (j : JVal F) (prev : Option (PVal F)) : Outcome F → Prop
  | .ok r => InSet dt r ∧ ∃ v, WireDenotes dt j v ∧ Denotes dt prev v r
  | .bad => True
  | .other _ => False

/-- monitor of `ChangeOK`; the Python value the JSON value stands for is not observable in a request, so a
candidate witness `hint` is passed along (what `import_value` gives) and CHECKED here -/
def judgeChange (dt : DType F) (j : JVal F) (prev : Option (PVal F)) (hint : Option (PVal F)) (out : Outcome F) :
    List String :=
  match out with
  | .ok r =>
    (if inSetB dt r then [] else ["inset:change"]) ++
    (match hint with
     | some v => if wireDenotesB dt j v && denotesB dt prev v r then [] else ["denotes:change"]
     | none => ["denotes:change"])
  | .other _ => ["total:change"]
  | .bad => []

/-- lone-surrogate inputs and the like: outcome classes only -/
def judgeTotal (outs : List (Outcome F)) : List String :=
  if outs.all Outcome.total then [] else ["total:unmodelled-input"]

/-! ## the conversion-only path: a value from a driver at the result position of a command

`Command.do` hands the return value of the command function to the client after `self.result(res)` — the datatype's
`__call__`, which converts and checks the type but, by design, not the numeric limits (a device reports what it
reports; the same holds for `read_*` results and driver updates).  The clause of the statement that still applies is
"a value of the type, or a bad-value error, never anything else": `OfType dt r` is the declared value set of `dt`
with the limits of the numeric leaves (double, int, scaled) left out — everything else (kinds, grid membership,
enum membership, string / blob lengths and character sets, array lengths, arity, member names, mandatory members)
as in `InSet`. -/

mutual
/-- the value set of `dt`, numeric limits aside; `G scale x` = "`x` is a grid value of `scale`" -/
def OfTypeG (G : F → F → Prop) : DType F → PVal F → Prop
  | .double _ _ _ _, v =>
    match v with
    | .float x => isNaN x = false ∧ le (neg maxFinite) x = true ∧ le x maxFinite = true
    | _ => False
  | .int _ _, v =>
    match v with
    | .int _ => True
    | _ => False
  | .scaled scale _ _ _ _, v =>
    match v with
    | .float x => G scale x
    | _ => False
  | .bool, v =>
    match v with
    | .bool _ => True
    | _ => False
  | .enum ms, v =>
    match v with
    | .enum n k => (n, k) ∈ ms
    | _ => False
  | .string minc maxc utf8, v =>
    match v with
    | .str s => minc ≤ s.length ∧ s.length ≤ maxc ∧ (utf8 = false → ∀ c ∈ s.toList, c.toNat < 128) ∧
        (∀ c ∈ s.toList, c.toNat ≠ 0)
    | _ => False
  | .blob minb maxb, v =>
    match v with
    | .bytes b => minb ≤ b.length ∧ b.length ≤ maxb
    | _ => False
  | .array elem minlen maxlen, v =>
    match v with
    | .tuple vs => (∀ x ∈ vs, OfTypeG G elem x) ∧ minlen ≤ vs.length ∧ vs.length ≤ maxlen
    | _ => False
  | .tuple elems, v =>
    match v with
    | .tuple vs => ZipOfTypeG G elems vs
    | _ => False
  | .struct ms opt _, v =>
    match v with
    | .dict fields => (∀ kv ∈ fields, MemberOfTypeG G ms kv.1 kv.2) ∧ (fields.map (·.1)).Nodup ∧
        (∀ k ∈ ms.map (·.1), k ∉ opt → k ∈ fields.map (·.1))
    | _ => False
def ZipOfTypeG (G : F → F → Prop) : List (DType F) → List (PVal F) → Prop
  | [], [] => True
  | t :: ts, v :: vs => OfTypeG G t v ∧ ZipOfTypeG G ts vs
  | _, _ => False
def MemberOfTypeG (G : F → F → Prop) : List (String × DType F) → String → PVal F → Prop
  | [], _, _ => False
  | (k, t) :: rest, key, v => if k = key then OfTypeG G t v else MemberOfTypeG G rest key v
end

/-- `r` is a value of the type `dt` (numeric limits aside) -/
def OfType (dt : DType F) (v : PVal F) : Prop := OfTypeG OnGrid dt v

/-- what the monitor decides (`OnGridNear` for `OnGrid`) -/
def OfTypeM (dt : DType F) (v : PVal F) : Prop := OfTypeG OnGridNear dt v

section
variable (G : F → F → Prop) [∀ s x, Decidable (G s x)]
mutual
def decOfTypeG : (dt : DType F) → (v : PVal F) → Decidable (OfTypeG G dt v)
  | .double _ _ _ _, v => by cases v <;> simp only [OfTypeG] <;> infer_instance
  | .int _ _, v => by cases v <;> simp only [OfTypeG] <;> infer_instance
  | .scaled _ _ _ _ _, v => by cases v <;> simp only [OfTypeG] <;> infer_instance
  | .bool, v => by cases v <;> simp only [OfTypeG] <;> infer_instance
  | .enum _, v => by cases v <;> simp only [OfTypeG] <;> infer_instance
  | .string _ _ _, v => by cases v <;> simp only [OfTypeG] <;> infer_instance
  | .blob _ _, v => by cases v <;> simp only [OfTypeG] <;> infer_instance
  | .array elem _ _, v => by
    cases v
    case tuple vs =>
      simp only [OfTypeG]
      have : ∀ x, Decidable (OfTypeG G elem x) := decOfTypeG elem
      infer_instance
    all_goals (simp only [OfTypeG]; infer_instance)
  | .tuple elems, v => by
    cases v
    case tuple vs => simp only [OfTypeG]; exact decZipOfTypeG elems vs
    all_goals (simp only [OfTypeG]; infer_instance)
  | .struct ms _ _, v => by
    cases v
    case dict fields =>
      simp only [OfTypeG]
      have : ∀ k x, Decidable (MemberOfTypeG G ms k x) := decMemberOfTypeG ms
      infer_instance
    all_goals (simp only [OfTypeG]; infer_instance)
def decZipOfTypeG : (ts : List (DType F)) → (vs : List (PVal F)) → Decidable (ZipOfTypeG G ts vs)
  | [], [] => by simp only [ZipOfTypeG]; infer_instance
  | t :: ts, v :: vs => by
    simp only [ZipOfTypeG]
    have := decOfTypeG t v
    have := decZipOfTypeG ts vs
    infer_instance
  | [], _ :: _ => by simp only [ZipOfTypeG]; infer_instance
  | _ :: _, [] => by simp only [ZipOfTypeG]; infer_instance
def decMemberOfTypeG : (ms : List (String × DType F)) → (k : String) → (v : PVal F) → Decidable (MemberOfTypeG G ms k v)
  | [], _, _ => by simp only [MemberOfTypeG]; infer_instance
  | (k, t) :: rest, key, v => by
    simp only [MemberOfTypeG]
    have := decOfTypeG t v
    have := decMemberOfTypeG rest key v
    infer_instance
end
end

instance (dt : DType F) (v : PVal F) : Decidable (OfTypeM dt v) := decOfTypeG OnGridNear dt v

/-- monitor of "a value of the type" -/
def ofTypeB (dt : DType F) (v : PVal F) : Bool := decide (OfTypeM dt v)

/-! ### … and denotes the value the driver handed over (conversion only: no previous value, no limits, no clamping) -/

mutual
/-- `r` is the Python value `o` converted to the type `dt`: numbers numerically equal (±inf offered to a double stand
for ±max; a scaled value is the grid value nearest to the number offered), an enum member named or numbered, strings
and bytes equal, sequences element-wise of equal length, structs key-wise (`None`-valued keys dropped) -/
def ConvDenotes : DType F → PVal F → PVal F → Prop
  | .double _ _ _ _, o, r =>
    match r with
    | .float y =>
      (match toFloat? o with
       | some x => isNaN x = false ∧ same y (clampInf x) = true
       | none => False)
    | _ => False
  | .int _ _, o, r =>
    match r with
    | .int i => numInt? o = some i
    | _ => False
  | .scaled scale _ _ _ _, o, r =>
    match r with
    | .float y =>
      (match toFloat? o with
       | some x =>
         (match gridIndex scale x with
          | some k => IsSome (ofGrid scale k) y
          | none => False)
       | none => False)
    | _ => False
  | .bool, o, r =>
    match r with
    | .bool b => intLike? o = some (if b then 1 else 0)
    | _ => False
  | .enum ms, o, r =>
    match r with
    | .enum n k => DenotesEnum ms o n k
    | _ => False
  | .string _ _ _, o, r =>
    match o, r with
    | .str s, .str t => s = t
    | _, _ => False
  | .blob _ _, o, r =>
    match o, r with
    | .bytes s, .bytes t => s = t
    | _, _ => False
  | .array elem _ _, o, r =>
    match seqItems? o, r with
    | some vs, .tuple rs => AllDen (fun _ x y => ConvDenotes elem x y) [] vs rs
    | _, _ => False
  | .tuple elems, o, r =>
    match seqItems? o, r with
    | some vs, .tuple rs => ZipConv elems vs rs
    | _, _ => False
  | .struct ms _ _, o, r =>
    match o, r with
    | .dict fields, .dict rf => DenotesStruct (fun k x y => MemberConv ms k x y) [] fields rf
    | _, _ => False
def ZipConv : List (DType F) → List (PVal F) → List (PVal F) → Prop
  | [], [], [] => True
  | t :: ts, v :: vs, r :: rs => ConvDenotes t v r ∧ ZipConv ts vs rs
  | _, _, _ => False
def MemberConv : List (String × DType F) → String → PVal F → PVal F → Prop
  | [], _, _, _ => False
  | (k, t) :: rest, key, o, r => if k = key then ConvDenotes t o r else MemberConv rest key o r
end

mutual
def decConvDenotes : (dt : DType F) → (o r : PVal F) → Decidable (ConvDenotes dt o r)
  | .double _ _ _ _, o, r => by
    cases r <;> simp only [ConvDenotes] <;> try infer_instance
    split <;> infer_instance
  | .int _ _, _, r => by cases r <;> simp only [ConvDenotes] <;> infer_instance
  | .scaled _ _ _ _ _, o, r => by
    cases r <;> simp only [ConvDenotes] <;> try infer_instance
    split
    · split <;> infer_instance
    · infer_instance
  | .bool, _, r => by cases r <;> simp only [ConvDenotes] <;> infer_instance
  | .enum _, _, r => by cases r <;> simp only [ConvDenotes] <;> infer_instance
  | .string _ _ _, o, r => by simp only [ConvDenotes]; split <;> infer_instance
  | .blob _ _, o, r => by simp only [ConvDenotes]; split <;> infer_instance
  | .array elem _ _, o, r => by
    simp only [ConvDenotes]
    split
    · exact decAllDen _ (fun _ x y => decConvDenotes elem x y) _ _ _
    · infer_instance
  | .tuple elems, o, r => by
    simp only [ConvDenotes]
    split
    · exact decZipConv elems _ _
    · infer_instance
  | .struct ms _ _, o, r => by
    simp only [ConvDenotes]
    split
    · exact decDenotesStruct _ (fun k x y => decMemberConv ms k x y) _ _ _
    · infer_instance
def decZipConv : (ts : List (DType F)) → (vs rs : List (PVal F)) → Decidable (ZipConv ts vs rs)
  | [], [], [] => by simp only [ZipConv]; infer_instance
  | t :: ts, v :: vs, r :: rs => by
    simp only [ZipConv]
    have := decConvDenotes t v r
    have := decZipConv ts vs rs
    infer_instance
  | [], _ :: _, _ => by simp only [ZipConv]; infer_instance
  | [], [], _ :: _ => by simp only [ZipConv]; infer_instance
  | _ :: _, [], _ => by simp only [ZipConv]; infer_instance
  | _ :: _, _ :: _, [] => by simp only [ZipConv]; infer_instance
def decMemberConv : (ms : List (String × DType F)) → (k : String) → (o r : PVal F) → Decidable (MemberConv ms k o r)
  | [], _, _, _ => by simp only [MemberConv]; infer_instance
  | (k, t) :: rest, key, o, r => by
    simp only [MemberConv]
    have := decConvDenotes t o r
    have := decMemberConv rest key o r
    infer_instance
end

instance (dt : DType F) (o r : PVal F) : Decidable (ConvDenotes dt o r) := decConvDenotes dt o r

/-- monitor of "the converted value denotes the value handed over" -/
def convDenotesB (dt : DType F) (o r : PVal F) : Bool := decide (ConvDenotes dt o r)

/-- the conversion-only path `dt(o)` (driver updates, results of `read_*` and of commands, configured values): a value
of the type that denotes the value handed over, or a bad-value error; never anything else -/
def ConvOK (dt : DType F) (o : PVal F) : Outcome F → Prop
  | .ok r => OfType dt r ∧ ConvDenotes dt o r
  | .bad => True
  | .other _ => False

/-- monitor of `ConvOK`, plus "converting the converted value again returns it unchanged" -/
def judgeConv (dt : DType F) (o : PVal F) (call : Outcome F) (recall : Option (Outcome F)) : List String :=
  match call with
  | .ok r =>
    (if ofTypeB dt r then [] else ["oftype:call"]) ++ (if convDenotesB dt o r then [] else ["denotes:call"]) ++
    (match recall with | some x => if x.returns r then [] else ["idem:call"] | none => ["idem:missing"])
  | .other _ => ["total:call"]
  | .bad => []

/-- what `Command.do` returned (`out`) for a command with declared result type `resT` (`none`: no result type — the
return value of the function is ignored and `None` handed back) whose function returned `ret`: a value of the result
type that denotes `ret`, or a bad-value error; never anything else — in particular never the driver's `None` for a
declared type -/
def ResultOK (resT : Option (DType F)) (ret : PVal F) : Outcome F → Prop
  | .ok r =>
    match resT with
    | some dt => OfType dt r ∧ ConvDenotes dt ret r
    | none => isNone r = true
  | .bad => True
  | .other _ => False

/-- monitor of `ResultOK`, plus "converting the converted value again returns it unchanged" (`again` = the outcome of
`result(r)` on the value returned) -/
def judgeResult (resT : Option (DType F)) (ret : PVal F) (out : Outcome F) (again : Option (Outcome F)) : List String :=
  match out with
  | .ok r =>
    (match resT with
     | some dt => (if ofTypeB dt r then [] else ["oftype:result"]) ++ (if convDenotesB dt ret r then [] else ["denotes:result"])
     | none => if isNone r then [] else ["oftype:result"]) ++
    (match resT, again with
     | some _, some x => if x.returns r then [] else ["idem:result"]
     | some _, none => ["idem:missing"]
     | none, _ => [])
  | .other _ => ["total:result"]
  | .bad => []

/-- the error-text helper on the refusal path: it has to answer a text for every candidate (`{"ok": text}`), whatever
the candidate's kind or size and whatever `repr` does -/
def judgeHelper (out : Outcome F) : List String :=
  if out.total then [] else ["total:error-text"]

end Frappy.Spec.C01
