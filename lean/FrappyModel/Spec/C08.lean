import FrappyModel.Node.Activate
/-
C08 — Activation and deactivation boundaries are exact under any interleaving.

Specification only.  Everything here talks about the *observable trace* (`List Obs`: request markers,
replies, delivered updates, stores, in global order) and the static node description — never about
locks, tables or program counters.  Each clause is a small monitor (state, transition, check) over
the trace; `accepts` is the clause, and the same definition is what the driver runs on the traces
recorded from the real implementation.

Reading of the statement.
* An activation `activate s` of connection `c` is *possibly in force* from its request marker until the
  reply (`replyEnds`) to a request of `c` that ends it, and *firmly in force* from its `active` reply until the
  request marker of a request of `c` that ends it.  `deactivate d` ends the activations it matches
  (`cancels`: the same scope, or a parameter of the module `d`); `*IDN?` and disconnect end all.
* `Silent`: an update for `m:p` is delivered to `c` only while an activation covering `m:p` is possibly in force.
* `SnapshotComplete`: at an `active` reply every exported parameter of the scope has been delivered since the
  request marker, and every delivered update carries the value the cache has at that moment (is current).
* `NoLoss`: when an updater has stored a value and its assignment has returned, every connection in whose
  firmly-in-force scope the parameter lay throughout has been sent that value.
* `QuiescentLastEqCache`: when nothing is in progress, the last update a connection holds for a parameter
  firmly in scope equals the cache.
* `OnlyExported`: a scope is made of exported parameters of exported modules; nothing else is ever delivered.
* `TablesFrame`, `TablesOwn` ("the scopes of other connections are unaffected", on the dispatcher's tables): an action changes
  only the table row of the connection whose request thread acts — an updater none —, and every entry stands for an
  activation of that connection still possibly in force.
* `RepliesMatch`: well-formedness of the trace (a reply answers the open request); used to name the scope in the index form
  of `SnapshotComplete`.
-/
namespace Frappy.Spec.C08
open Frappy.Activate

/-! ## monitors in general -/

structure Mon (S : Type) where
  init : S
  next : S → Obs → S
  ok : S → Obs → Bool

namespace Mon
variable {S : Type}

def after (M : Mon S) (s : S) (tr : List Obs) : S := tr.foldl M.next s

/-- every event passes the check in the state reached before it -/
def acceptsFrom (M : Mon S) : S → List Obs → Bool
  | _, [] => true
  | s, o :: rest => M.ok s o && acceptsFrom M (M.next s o) rest

def accepts (M : Mon S) (tr : List Obs) : Bool := M.acceptsFrom M.init tr

/-- index of the first offending event -/
def firstBad (M : Mon S) : S → Nat → List Obs → Option Nat
  | _, _, [] => none
  | s, i, o :: rest => if M.ok s o then firstBad M (M.next s o) (i + 1) rest else some i

end Mon

/-! ## scopes -/

def covers : Scope → Mod → Par → Bool
  | .all, _, _ => true
  | .mod m, m', _ => m == m'
  | .par m p, m', p' => m == m' && p == p'

/-- does `deactivate d` end `activate a` (the matching deactivate) -/
def cancels : Scope → Scope → Bool
  | .all, .all => true
  | .mod m, .mod m' => m == m'
  | .mod m, .par m' _ => m == m'
  | .par m p, .par m' p' => m == m' && p == p'
  | _, _ => false

/-- does request `r` end an activation `a` of the same connection -/
def ends : Req → Scope → Bool
  | .deactivate d, a => cancels d a
  | .ident, _ => true
  | .disconnect, _ => true
  | .activate _, _ => false
  | .rw _ _ _ _, _ => false          -- a `read` / `change` request ends nothing
  | .malformed _ _, _ => false       -- nor does a request that is refused as malformed (e.g. `deactivate` with data)

/-- does a reply to request `r` mark the end of what `r` ends: a positive reply does; for `*IDN?` and a disconnect
any outcome does (the statement says "after an identification request, or a disconnect" — also when the
request itself is answered with an error, e.g. because switching remote logging off failed) -/
def replyEnds : Req → Bool → Bool
  | .ident, _ => true
  | .disconnect, _ => true
  | _, ok => ok

def coveredBy (l : List Scope) (m : Mod) (p : Par) : Bool := l.any (fun s => covers s m p)

/-- the exported parameters a scope consists of -/
def scopeItems (cfg : Cfg) (s : Scope) : List (Mod × Par) :=
  (scopeMods cfg s).flatMap (fun m => (scopePars cfg s m).map (fun p => (m, p)))

/-! ## Silent: nothing is delivered outside the activations possibly in force -/

def liveNext (live : Conn → List Scope) : Obs → Conn → List Scope
  | .reqStart c (.activate s) => set live c (s :: live c)
  | .reply c r ok => if replyEnds r ok then set live c ((live c).filter (fun a => !ends r a)) else live
  | _ => live

def silentOk (live : Conn → List Scope) : Obs → Bool
  | .deliver c m p _ => coveredBy (live c) m p
  | _ => true

def silentMon : Mon (Conn → List Scope) := ⟨fun _ => [], liveNext, silentOk⟩

def Silent (tr : List Obs) : Prop := silentMon.accepts tr = true

/-! ## SnapshotComplete -/

structure SnapSt where
  pend : Conn → Option (List (Mod × Par))     -- what the running `activate` of the connection still owes
  cur : Mod → Par → Entry                     -- the cache

def snapNext (cfg : Cfg) (s : SnapSt) : Obs → SnapSt
  | .reqStart c (.activate sc) => { s with pend := set s.pend c (some (scopeItems cfg sc)) }
  | .reqStart _ _ => s
  | .deliver c m p _ => { s with pend := set s.pend c ((s.pend c).map (fun l => l.filter (fun x => x != (m, p)))) }
  | .reply c _ _ => { s with pend := set s.pend c none }
  | .emit _ m p e => { s with cur := fun m' p' => if m' = m ∧ p' = p then e else s.cur m' p' }
  | .emitDone _ => s

def snapOk (s : SnapSt) : Obs → Bool
  | .deliver _ m p e => e == s.cur m p
  | .reply c (.activate _) true => s.pend c == some []
  | _ => true

def snapMon (cfg : Cfg) (cache : Mod → Par → Entry) : Mon SnapSt := ⟨⟨fun _ => none, cache⟩, snapNext cfg, snapOk⟩

def SnapshotComplete (cfg : Cfg) (cache : Mod → Par → Entry) (tr : List Obs) : Prop :=
  (snapMon cfg cache).accepts tr = true

/-! ## NoLoss -/

structure Oblig where
  m : Mod
  p : Par
  e : Entry
  l : List Conn              -- connections that still have to be sent the value
  deriving DecidableEq, Repr

structure LossSt where
  firm : Conn → List Scope
  oblig : Nat → Option Oblig

def firmNext (firm : Conn → List Scope) : Obs → Conn → List Scope
  | .reply c (.activate s) true => set firm c (s :: firm c)
  | .reqStart c r => set firm c ((firm c).filter (fun a => !ends r a))
  | _ => firm

def obligNext (cfg : Cfg) (firm' : Conn → List Scope) (ob : Nat → Option Oblig) : Obs → Nat → Option Oblig
  | .reqStart c _ => fun u => (ob u).map (fun o => { o with l := o.l.filter (fun c' => c' != c || coveredBy (firm' c) o.m o.p) })
  | .emit u m p e => set ob u (some ⟨m, p, e, cfg.conns.filter (fun c => coveredBy (firm' c) m p)⟩)
  | .deliver c m p e => fun u => (ob u).map (fun o =>
      if o.m = m ∧ o.p = p ∧ o.e = e then { o with l := o.l.filter (fun c' => c' != c) } else o)
  | .emitDone u => set ob u none
  | .reply _ _ _ => ob

def lossNext (cfg : Cfg) (s : LossSt) (o : Obs) : LossSt :=
  let firm' := firmNext s.firm o
  ⟨firm', obligNext cfg firm' s.oblig o⟩

def lossOk (s : LossSt) : Obs → Bool
  | .emitDone u => match s.oblig u with
    | some o => o.l.isEmpty
    | none => true
  | _ => true

def lossMon (cfg : Cfg) : Mon LossSt := ⟨⟨fun _ => [], fun _ => none⟩, lossNext cfg, lossOk⟩

def NoLoss (cfg : Cfg) (tr : List Obs) : Prop := (lossMon cfg).accepts tr = true

/-! ## QuiescentLastEqCache -/

def firmAfter (tr : List Obs) : Conn → List Scope := tr.foldl firmNext (fun _ => [])

def lastNext (last : Conn → Mod → Par → Option Entry) : Obs → Conn → Mod → Par → Option Entry
  | .deliver c m p e => fun c' m' p' => if c' = c ∧ m' = m ∧ p' = p then some e else last c' m' p'
  | _ => last

/-- the last update delivered to `c` for `m:p` -/
def lastDelivered (tr : List Obs) : Conn → Mod → Par → Option Entry := tr.foldl lastNext (fun _ _ _ => none)

def curNext (cur : Mod → Par → Entry) : Obs → Mod → Par → Entry
  | .emit _ m p e => fun m' p' => if m' = m ∧ p' = p then e else cur m' p'
  | _ => cur

/-- the cache as the trace determines it: the last stored value, else the initial one -/
def cacheAfter (cache : Mod → Par → Entry) (tr : List Obs) : Mod → Par → Entry := tr.foldl curNext cache

def reqOpenNext (op : Conn → Bool) : Obs → Conn → Bool
  | .reqStart c _ => set op c true
  | .reply c _ _ => set op c false
  | _ => op

def emitOpenNext (op : Nat → Bool) : Obs → Nat → Bool
  | .emit u _ _ _ => set op u true
  | .emitDone u => set op u false
  | _ => op

def reqOpen (tr : List Obs) : Conn → Bool := tr.foldl reqOpenNext (fun _ => false)
def emitOpen (tr : List Obs) : Nat → Bool := tr.foldl emitOpenNext (fun _ => false)

/-- nothing is in progress: every request has been answered, every assignment has returned -/
def Quiet (tr : List Obs) : Prop := (∀ c, reqOpen tr c = false) ∧ (∀ u, emitOpen tr u = false)

/-- the clause with the node's cache given directly (`now`: what the node holds for every parameter at the end of `tr`, value or
error class AND time stamp) -/
def QuiescentLastEq (cfg : Cfg) (now : Mod → Par → Entry) (tr : List Obs) : Prop :=
  Quiet tr → ∀ c ∈ cfg.conns, ∀ m ∈ cfg.mods, ∀ p ∈ cfg.pars m,
    coveredBy (firmAfter tr c) m p = true → lastDelivered tr c m p = some (now m p)

def QuiescentLastEqCache (cfg : Cfg) (cache : Mod → Par → Entry) (tr : List Obs) : Prop :=
  Quiet tr → ∀ c ∈ cfg.conns, ∀ m ∈ cfg.mods, ∀ p ∈ cfg.pars m,
    coveredBy (firmAfter tr c) m p = true → lastDelivered tr c m p = some (cacheAfter cache tr m p)

/-- threads named in a trace -/
def obsConn : Obs → Option Conn
  | .reqStart c _ => some c
  | .reply c _ _ => some c
  | _ => none

def obsUpd : Obs → Option Nat
  | .emit u _ _ _ => some u
  | .emitDone u => some u
  | _ => none

/-- executable form of `Quiet` (only threads that occur in the trace can have something open) -/
def quietB (tr : List Obs) : Bool :=
  (tr.filterMap obsConn).all (fun c => !reqOpen tr c) && (tr.filterMap obsUpd).all (fun u => !emitOpen tr u)

/-- monitor for `QuiescentLastEqCache`: the first `(c, m, p)` whose last message differs from the cache -/
def quiescentBadNow (cfg : Cfg) (now : Mod → Par → Entry) (tr : List Obs) : Option (Conn × Mod × Par) :=
  if quietB tr then
    (cfg.conns.flatMap (fun c => cfg.mods.flatMap (fun m => (cfg.pars m).map (fun p => (c, m, p))))).find?
      (fun x => coveredBy (firmAfter tr x.1) x.2.1 x.2.2 &&
        !(lastDelivered tr x.1 x.2.1 x.2.2 == some (now x.2.1 x.2.2)))
  else none

def quiescentBad (cfg : Cfg) (cache : Mod → Par → Entry) (tr : List Obs) : Option (Conn × Mod × Par) :=
  quiescentBadNow cfg (cacheAfter cache tr) tr

/-! ## OthersUnaffected (a statement about single actions) -/

/-- an action of connection `c`'s thread, or of any updater, changes nobody else's scope -/
def OthersUnaffected (cfg : Cfg) (σ σ' : State) (a : Act) : Prop :=
  step cfg σ a = some σ' → ∀ c' m p, a.t ≠ .h c' → listens σ' c' m p = listens σ c' m p

/-! ## OnlyExported: the scope of anything is made of exported parameters of exported modules -/

def exportedOk (cfg : Cfg) : Obs → Bool
  | .deliver _ m p _ => exported cfg m p
  | _ => true

/-- no update of a parameter that is not exported (or of a module that is not) is ever delivered, whatever is activated -/
def OnlyExported (cfg : Cfg) (tr : List Obs) : Prop := tr.all (exportedOk cfg) = true

/-! ## replies answer requests (well-formedness of a connection's part of the trace) -/

def matchNext (op : Conn → Option Req) : Obs → Conn → Option Req
  | .reqStart c r => set op c (some r)
  | .reply c _ _ => set op c none
  | _ => op

def matchOk (op : Conn → Option Req) : Obs → Bool
  | .reqStart c _ => op c == none
  | .reply c r _ => op c == some r
  | _ => true

/-- a request marker of `c` comes only when no request of `c` is open; a reply to `c` answers the request that is open -/
def matchMon : Mon (Conn → Option Req) := ⟨fun _ => none, matchNext, matchOk⟩

def RepliesMatch (tr : List Obs) : Prop := matchMon.accepts tr = true

/-! ## the tables belong to the requests

"The scopes of other connections are unaffected", read on the dispatcher's tables themselves rather than on what they
select at one moment: `listens` can stay the same while a table row changes (a connection that is globally active and
is *additionally* entered under `m:p` listens to `m:p` before and after — but no longer stops listening at its global
`deactivate`). -/

/-- the activations of `c` possibly in force after `tr` (the state of `silentMon`) -/
def liveAfter (tr : List Obs) : Conn → List Scope := silentMon.after silentMon.init tr

/-- every entry of the tables — `c ∈ _active_connections`, `c ∈ _subscriptions[k]` under whatever key `k` — stands for an
activation of that very connection that is still possibly in force (its own request put it there, nothing else did) -/
def TablesOwn (σ : State) : Prop :=
  (∀ c, σ.active c = true → Scope.all ∈ liveAfter σ.trace c) ∧
  (∀ k c, σ.subs k c = true → ∃ s, s ≠ Scope.all ∧ s.key = k ∧ s ∈ liveAfter σ.trace c)

/-- an action changes no table row but the one of the connection whose request thread acts; in particular an updater
(`announceUpdate` → `broadcast_event`) changes none -/
def TablesFrame (cfg : Cfg) (σ σ' : State) (a : Act) : Prop :=
  step cfg σ a = some σ' → ∀ c', a.t ≠ .h c' → σ'.active c' = σ.active c' ∧ ∀ k, σ'.subs k c' = σ.subs k c'

end Frappy.Spec.C08
