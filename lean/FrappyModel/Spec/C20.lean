import FrappyModel.Node.Logging
import FrappyModel.Node.LoggingConc
import FrappyModel.Small.Rotate
/-
C20 — Logging: exact per-connection routing, rotation keeps the newest files.

Specification only: `Prop`s written from the statement, and Boolean monitors that the driver
evaluates on traces recorded from the real implementation.
-/
namespace Frappy.Spec.C20
open Frappy.Logging

/-! ## Routing -/

/-- What one event means for the pair (module `m`, connection `c`), read off the statement:
`some (some l)`: `c` chose level `l` for `m`;  `some none`: delivery to `c` for `m` is switched off
(level `off`, `*IDN?`, disconnect);  `none`: the event does not concern the pair.  A `logging`
request with an invalid level or an unknown module is refused and concerns nobody. -/
def effect (t : Tables) (mods : List String) (m : String) (c : Conn) : Op → Option (Option Level)
  | .logging c' spec lvl =>
    if c' = c ∧ mods.contains m = true ∧ (spec = none ∨ spec = some m) then
      match checkLevel t lvl with
      | some l => if l = t.off then some none else some (some l)
      | none => none
    else none
  | .emit _ _ => none
  | .ident c' => if c' = c ∧ mods.contains m = true then some none else none
  | .disconnect c' => if c' = c ∧ mods.contains m = true then some none else none

/-- `Setting hist m c l`: the most recent event of `hist` that concerns `(m, c)` chose level `l`. -/
def Setting (t : Tables) (mods : List String) (hist : List Op) (m : String) (c : Conn) (l : Level) : Prop :=
  ∃ pre op post, hist = pre ++ op :: post ∧ effect t mods m c op = some (some l) ∧
    ∀ op' ∈ post, effect t mods m c op' = none

/-- apply the meaning of one event to the current choice -/
def upd (e : Option (Option Level)) (v : Option Level) : Option Level :=
  match e with
  | some e => e
  | none => v

/-- executable version of `Setting` (scan the history) -/
def setting (t : Tables) (mods : List String) (hist : List Op) (m : String) (c : Conn) : Option Level :=
  hist.foldl (fun cur op => upd (effect t mods m c op) cur) none

/-- The routing clause of the statement for one recorded run: whenever a record of module `m` with
level `lvl` is emitted after history `pre`, connection `c` receives it (once) iff the level it
currently has chosen for `m` is at or below `lvl`. -/
def DeliveryIff (t : Tables) (mods : List String) (ops : List Op) (outs : List Out) : Prop :=
  outs.length = ops.length ∧
  ∀ pre m lvl post, ops = pre ++ Op.emit m lvl :: post →
    ∃ cs, outs[pre.length]? = some (Out.delivered cs) ∧ cs.Nodup ∧
      ∀ c, c ∈ cs ↔ ∃ l, Setting t mods pre m c l ∧ l ≤ lvl

def opConns : Op → List Conn
  | .logging c _ _ => [c]
  | .emit _ _ => []
  | .ident c => [c]
  | .disconnect c => [c]

def dedupConns (cs : List Conn) : List Conn := cs.foldr (fun c acc => if acc.contains c then acc else c :: acc) []

/-- who has to receive a record of module `m`, level `lvl`, after history `pre` (ascending, no duplicates) -/
def expected (t : Tables) (mods : List String) (pre : List Op) (m : String) (lvl : Level) : List Conn :=
  sortConns (dedupConns ((pre.flatMap opConns).filter (fun c =>
    match setting t mods pre m c with
    | some l => decide (l ≤ lvl)
    | none => false)))

/-- monitor: judge a recorded run `(op, what the connections got)` -/
def judgeFrom (t : Tables) (mods : List String) (pre : List Op) : List (Op × Out) → Option Nat
  | [] => none
  | (op, out) :: rest =>
    let bad : Bool := match op with
      | .emit m lvl => !(out == Out.delivered (expected t mods pre m lvl))
      | _ => false
    if bad then some pre.length else judgeFrom t mods (pre ++ [op]) rest

/-- `none` = the run satisfies the routing clause, `some i` = first offending event -/
def judgeRouting (t : Tables) (mods : List String) (trace : List (Op × Out)) : Option Nat :=
  judgeFrom t mods [] trace


/-! ## Routing under interleavings

A run with a concurrent phase: a sequential prefix `pre`, then several threads working at the same time
(`threads`: per thread the requests / connection events / records it issued, in its program order, each connection
used by one thread only), then a sequential suffix `post` (probe records).  Read off the statement:
* "other connections are unaffected": a connection that does nothing during the concurrent phase (a bystander)
  receives a record emitted during that phase iff the level it chose before admits it - whatever the others do
  at that moment;
* a request is answered as it would be alone (its answer does not depend on the table);
* afterwards every connection has the setting its own most recent choice gave it: the suffix is judged against the
  history `pre ++ threads.flatten` (the setting of a pair depends only on the events of its own connection, so every
  interleaving of the threads gives the same one - `setting_shuffle`). -/

def activeConns (threads : List (List Op)) : List Conn := threads.flatten.flatMap opConns

def bystanders (active : List Conn) (cs : List Conn) : List Conn := cs.filter (fun c => !active.contains c)

/-- one event of a thread of the concurrent phase is in order -/
def concEventOK (t : Tables) (mods : List String) (pre : List Op) (active : List Conn) (op : Op) (out : Out) : Bool :=
  match op with
  | .emit m lvl =>
    match out with
    | .delivered cs => bystanders active cs == bystanders active (expected t mods pre m lvl)
    | _ => false
  | op => out == (step t mods [] op).2

/-- monitor for a run with a concurrent phase: `none` = in order, `some (phase, index)` = first offending event
(phase 0: prefix, `k+1`: thread `k`, `threads.length + 1`: suffix) -/
def judgeConc (t : Tables) (mods : List String) (pre : List (Op × Out)) (threads : List (List (Op × Out)))
    (post : List (Op × Out)) : Option (Nat × Nat) :=
  let preOps := pre.map (·.1)
  let thrOps := threads.map (fun th => th.map (·.1))
  let active := activeConns thrOps
  match judgeRouting t mods pre with
  | some i => some (0, i)
  | none =>
    let bad := (threads.zipIdx.filterMap (fun (th, k) =>
      (th.zipIdx.find? (fun (e, _) => !concEventOK t mods preOps active e.1 e.2)).map (fun (_, i) => (k + 1, i))))
    match bad.head? with
    | some b => some b
    | none =>
      match judgeFrom t mods (preOps ++ thrOps.flatten) post with
      | some i => some (threads.length + 1, i - (preOps ++ thrOps.flatten).length)
      | none => none

/-! ## Rotation -/

open Frappy.Rotate

variable {α : Type} [DecidableEq α]

/-- the directory entries that exist while today's file `new` is being written -/
def withNew (before : List α) (new : α) : List α :=
  if new ∈ before then before else before ++ [new]

/-- The rotation clause for one rollover: `before` is the directory before, `after` the directory
after, `new` the file being written, `n > 0` the retention.  Kept are the file being written and
the newest earlier log files, `n` log files in all (or all of them if there are fewer); only
older log files are removed; everything that is not a log file of this handler stays. -/
def KeepsNewest (le : α → α → Bool) (isLog : α → Bool) (before : List α) (new : α) (n : Nat)
    (after : List α) : Prop :=
  new ∈ after
  ∧ (∀ f ∈ after, f ∈ withNew before new)                                   -- nothing appears
  ∧ (∀ f ∈ withNew before new, isLog f = false → f ∈ after)                 -- foreign files stay
  ∧ (after.filter isLog).length = min n ((withNew before new).filter isLog).length
  ∧ (∀ r ∈ withNew before new, isLog r = true → r ∉ after →                 -- only older ones go
      ∀ k ∈ after, isLog k = true → le r k = true ∧ r ≠ k)
  ∧ after.Nodup

instance (le : α → α → Bool) (isLog : α → Bool) (before : List α) (new : α) (n : Nat) (after : List α) :
    Decidable (KeepsNewest le isLog before new n after) := by
  unfold KeepsNewest; infer_instance

/-- monitor for one recorded rollover -/
def keepsNewestB (le : α → α → Bool) (isLog : α → Bool) (before : List α) (new : α) (n : Nat)
    (after : List α) : Bool :=
  decide (KeepsNewest le isLog before new n after)

/-- retention switched off (`max_days = 0`): nothing is ever removed -/
def KeepsAll (before : List α) (new : α) (after : List α) : Prop :=
  new ∈ after ∧ (∀ f ∈ before, f ∈ after) ∧ (∀ f ∈ after, f ∈ withNew before new)

instance (before : List α) (new : α) (after : List α) : Decidable (KeepsAll before new after) := by
  unfold KeepsAll; infer_instance

def keepsAllB (before : List α) (new : α) (after : List α) : Bool :=
  decide (KeepsAll before new after)

end Frappy.Spec.C20
