import FrappyModel.Node.Dispatch
import FrappyModel.Datatypes.Import
import FrappyModel.Node.AccessLock
import FrappyModel.Node.ChangeSection
import FrappyModel.Node.CheckChain
import FrappyModel.Node.Forward
import FrappyModel.Spec.C18
/-
C04 — No invalid, forbidden or out-of-limit request ever reaches the driver.

Specification only.  `Accepted` spells out, clause by clause, when the statement allows the driver to be
called; `changeVerdict` / `doVerdict` are the specification's own decision list (which error class is the
fitting one); `ChangeOK` / `DoOK` say what a recorded request/response pair must look like, and their
Boolean versions are the monitors the driver runs on traces of the real implementation.
-/
namespace Frappy.Spec.C04
open Frappy.Node

variable {J V : Type}

/-! ## the clauses of the statement -/

/-- "the addressed module and accessible exist and are exported": `mod` is the module of the node named `m`,
it is exported, and `p` is one of its parameters, exported under the wire name `a` -/
def ExportedParam (pre : Predef) (n : Node J V) (m a : String) (mod : Module J V) (p : Param J V) : Prop :=
  mod ∈ n ∧ mod.name = m ∧ mod.exported = true ∧ Acc.param p ∈ mod.accs ∧ exportName pre (.param p) = some a

def ExportedCommand (pre : Predef) (n : Node J V) (m a : String) (mod : Module J V) (c : Command J V) : Prop :=
  mod ∈ n ∧ mod.name = m ∧ mod.exported = true ∧ Acc.command c ∈ mod.accs ∧ exportName pre (.command c) = some a

/-- "satisfies the module's current dynamic limits": inside `<p>_limits` when the module has such a parameter,
and not below `<p>_min`, not above `<p>_max` (a missing bound does not restrict), and the bounds are not crossed -/
def InsidePair (env : Env V) (lim : Option V) (v : V) : Prop :=
  match lim with
  | some l => env.le (env.split l).1 v = true ∧ env.le v (env.split l).2 = true
  | none => True

instance (env : Env V) (lim : Option V) (v : V) : Decidable (InsidePair env lim v) := by
  unfold InsidePair; split <;> infer_instance

def LimitsOK (env : Env V) (mod : Module J V) (attr : String) (v : V) : Prop :=
  InsidePair env (attrValue mod (attr ++ "_limits")) v
  ∧ ltOpt env (attrValue mod (attr ++ "_max")) (attrValue mod (attr ++ "_min")) = false
  ∧ ltOpt env (some v) (attrValue mod (attr ++ "_min")) = false
  ∧ ltOpt env (attrValue mod (attr ++ "_max")) (some v) = false

instance (env : Env V) (mod : Module J V) (attr : String) (v : V) : Decidable (LimitsOK env mod attr v) := by
  unfold LimitsOK; infer_instance

/-- a check has no objection -/
def Passes (env : Env V) (mod : Module J V) (attr : String) (v : V) : Check → Prop
  | .limits => LimitsOK env mod attr v
  | .hook i => env.chk mod.name attr i v = .pass

/-- a hook takes the decision over (returns a true value): the checks of the base classes are not asked -/
def TakesOver (env : Env V) (mod : Module J V) (attr : String) (v : V) : Check → Prop
  | .limits => False
  | .hook i => env.chk mod.name attr i v = .stop

/-- "satisfies … the check hooks": every check passes, up to the first hook that takes over -/
def ChecksOK (env : Env V) (mod : Module J V) (attr : String) (v : V) : List Check → Prop
  | [] => True
  | c :: cs => TakesOver env mod attr v c ∨ (Passes env mod attr v c ∧ ChecksOK env mod attr v cs)

/-- all conditions under which a `change` may reach the driver; `v` is the validated value
(a partial struct merged into the current value: `accept` sees the cached value), `w` its re-validation
by the write wrapper (equal to `v` for an idempotent `validate`) -/
structure Accepted (pre : Predef) (env : Env V) (n : Node J V) (spec : Spec) (j : J)
    (mod : Module J V) (p : Param J V) (v w : V) : Prop where
  addressed : ∃ m a, target "target" spec = some (m, a) ∧ ExportedParam pre n m a mod p
  notReadonly : p.readonly = false
  notConstant : p.constant = none
  payload : p.dt.accept j (some p.entry.value) = .ok v
  /-- a new `<p>_limits` pair is itself a dynamic limit: it must not be inverted -/
  ordered : p.isLimitsPair = true → pairInverted env v = false
  revalidated : p.dt.revalidate v = .ok w
  checks : ChecksOK env mod p.attr v p.checks

/-- all conditions under which a `do` may reach the command function -/
structure AcceptedDo (pre : Predef) (n : Node J V) (spec : Spec) (data : Option J)
    (mod : Module J V) (c : Command J V) (arg : Option V) : Prop where
  addressed : ∃ m a, targetDo spec = some (m, a) ∧ ExportedCommand pre n m a mod c
  argument : (∃ ops j v, c.arg = some ops ∧ data = some j ∧ ops.accept j = .ok v ∧ arg = some v)
             ∨ (c.arg.isNone = true ∧ data = none ∧ arg = none)

/-! ## the decision list: which report is the fitting one -/

inductive Verdict (V : Type)
  | refuse (cls : ErrCls)
  | allow (m attr : String) (hasWrite : Bool) (v w : V)     -- a change
  | allowDo (m attr : String) (arg : Option V)              -- a command
  deriving DecidableEq, Repr

def modulesNamed (n : Node J V) (m : String) : List (Module J V) := n.filter (fun x => x.name == m)

/-- the parameters of `mod` exported under the wire name `a` -/
def paramsAt (pre : Predef) (mod : Module J V) (a : String) : List (Param J V) :=
  mod.accs.filterMap (fun acc =>
    match acc with
    | .param p => if wireName pre mod acc = some a then some p else none
    | .command _ => none)

def commandsAt (pre : Predef) (mod : Module J V) (a : String) : List (Command J V) :=
  mod.accs.filterMap (fun acc =>
    match acc with
    | .command c => if wireName pre mod acc = some a then some c else none
    | .param _ => none)

/-- class of the first objection of the chain, `none` when there is none -/
def chainVerdict (env : Env V) (mod : Module J V) (attr : String) (v : V) : List Check → Option ErrCls
  | [] => none
  | .limits :: cs => if LimitsOK env mod attr v then chainVerdict env mod attr v cs else some .rangeError
  | .hook i :: cs =>
    match env.chk mod.name attr i v with
    | .pass => chainVerdict env mod attr v cs
    | .stop => none
    | .raise e => some e.cls

/-- NoSuchModule, NoSuchParameter, ReadOnly, then WrongType / RangeError as the datatype classifies the
payload, RangeError for the limits, the hook's own class for a hook -/
def changeVerdict (pre : Predef) (env : Env V) (n : Node J V) (spec : Spec) (j : J) : Verdict V :=
  match target "target" spec with
  | none => .refuse .protocol
  | some (m, a) =>
    match modulesNamed n m with
    | [] => .refuse .noSuchModule
    | mod :: _ =>
      match paramsAt pre mod a with
      | [] => .refuse .noSuchParameter
      | p :: _ =>
        if p.readonly || p.constant.isSome then .refuse .readOnly
        else
          match p.dt.accept j (some p.entry.value) with
          | .error e => .refuse e.cls
          | .ok v =>
            if p.isLimitsPair && pairInverted env v then .refuse .rangeError
            else
              match p.dt.revalidate v with
              | .error e => .refuse e.cls
              | .ok w =>
                match chainVerdict env mod p.attr v p.checks with
                | some c => .refuse c
                | none => .allow mod.name p.attr p.hasWrite v w

def doVerdict (pre : Predef) (n : Node J V) (spec : Spec) (data : Option J) : Verdict V :=
  match targetDo spec with
  | none => .refuse .protocol
  | some (m, a) =>
    match modulesNamed n m with
    | [] => .refuse .noSuchModule
    | mod :: _ =>
      match commandsAt pre mod a with
      | [] => .refuse .noSuchCommand
      | c :: _ =>
        match c.arg, data with
        | some _, none => .refuse .wrongType
        | none, some _ => .refuse .wrongType
        | none, none => .allowDo mod.name c.attr none
        | some ops, some j =>
          match ops.accept j with
          | .error e => .refuse e.cls
          | .ok v => .allowDo mod.name c.attr (some v)

/-! ## what a recorded exchange must look like -/

abbrev Cache (V : Type) := List (String × List (String × Entry V))

/-- one request as observed: the reply, the calls the driver saw, the updates sent, the cache around it -/
structure Obs (J V : Type) where
  reply : Reply J
  calls : List (DriverCall V)
  emits : List (Msg J)
  cacheBefore : Cache V
  cacheAfter : Cache V

/-- Refused: no call, cache untouched, no update, an error report of the fitting class.
Admitted: the driver is called exactly once with exactly the validated value (a parameter without
a `write_` method has no driver to call). -/
def ExchangeOK (vd : Verdict V) (o : Obs J V) : Prop :=
  match vd with
  | .refuse cls => o.calls = [] ∧ o.emits = [] ∧ o.cacheAfter = o.cacheBefore ∧ o.reply = .error cls
  | .allow m attr hasWrite _ w => o.calls = (if hasWrite then [DriverCall.write m attr w] else [])
  | .allowDo m attr arg => o.calls = [DriverCall.cmd m attr arg] ∧ o.cacheAfter = o.cacheBefore

instance [DecidableEq J] [DecidableEq V] (vd : Verdict V) (o : Obs J V) : Decidable (ExchangeOK vd o) := by
  unfold ExchangeOK; split <;> infer_instance

/-- monitor -/
def exchangeOKB [DecidableEq J] [DecidableEq V] (vd : Verdict V) (o : Obs J V) : Bool := decide (ExchangeOK vd o)

/-- the observation the model produces -/
def obsOf (n : Node J V) (o : Outcome J V) : Obs J V := ⟨o.reply, o.calls, o.emits, cache n, cache o.node⟩


/-! ## the datatype oracle against the datatype model (C01)

For a parameter whose datatype is one of the ten SECoP kinds the value the dispatcher must hand on is not taken on
trust from `datatypes.py`: the monitor recomputes `acceptWire dt j (some cur)` with the C01 model (import + validate
with the cached value as `previous`: a partial struct merged into the current value, a longer array NOT cut down to
the cached length) and demands that the implementation's datatype answered the same — same value, representation
included, or the same bad-value class.  Together with `ExchangeOK` (driver call = that answer) the driver call is
judged against the value computed HERE. -/

section c01
variable {F : Type} [FloatOps F]

def sameErr : Frappy.Err → Frappy.Err → Bool
  | .range, .range => true
  | .wrongType, .wrongType => true
  | .other _, .other _ => true
  | _, _ => false

/-- one row of the accept oracle (what the real datatype answered) agrees with the datatype model -/
def acceptFaithfulB (dt : DType F) (j : JVal F) (prev : Option (PVal F)) (impl : Except Frappy.Err (PVal F)) : Bool :=
  match Frappy.Datatypes.acceptWire dt j prev, impl with
  | .ok a, .ok b => PVal.same a b
  | .error e, .error e' => sameErr e e'
  | _, _ => false

/-- the parameter oracle built from the datatype model: with it the C04 theorems speak about `acceptWire` itself -/
def c01Accept (dt : DType F) (cls : Frappy.Err → Frappy.Node.Err) (j : JVal F) (prev : Option (PVal F)) :
    Except Frappy.Node.Err (PVal F) :=
  match Frappy.Datatypes.acceptWire dt j prev with
  | .ok v => .ok v
  | .error e => .error (cls e)

/-- the write wrapper's own `validate(v)`, from the datatype model -/
def c01Reval (dt : DType F) (cls : Frappy.Err → Frappy.Node.Err) (v : PVal F) : Except Frappy.Node.Err (PVal F) :=
  match Frappy.Datatypes.validate dt v none with
  | .ok w => .ok w
  | .error e => .error (cls e)

/-- the datatype object of a parameter behaves, on the change path, as the datatype model says for the tree `dt`
(this is what `acceptFaithfulB` verifies row by row on the implementation) -/
structure IsC01 (ops : DtOps (JVal F) (PVal F)) (dt : DType F) (cls : Frappy.Err → Frappy.Node.Err) : Prop where
  accept : ∀ j prev, ops.accept j prev = c01Accept dt cls j prev
  revalidate : ∀ v, ops.revalidate v = c01Reval dt cls v

end c01

/-! ## concurrency: the limits in force at the moment of the driver call

"satisfies the module's CURRENT dynamic limits": with several threads (a poller reading a limit from the hardware,
another module writing it) the limits that count are those in force when the driver is called, not those of some
earlier moment of the same request. -/

/-- every driver call of a run of the lock-discipline system was made with a value inside the limit of that moment -/
def CallsWithinLimit (s : AccessLock.LState) : Prop := ∀ c ∈ s.calls, c.1 ≤ c.2

/-- monitor for one driver call of the real code: the value, and the module as it was at the moment of the call -/
def callWithinLimitsB (env : Env V) (mod : Module J V) (attr : String) (v : V) : Bool :=
  decide (LimitsOK env mod attr v)

/-! ## concurrency: the value the driver is given is the payload merged into the CURRENT value

"invoked ... with exactly the validated value (a partial struct merged into the current value)": with several threads
working on one parameter (requests of other connections, the poller reading the hardware, other modules writing) the
value that counts is the one cached at the moment the driver is called, not one read at some earlier moment of the same
request — otherwise a member changed in between is silently written back to the hardware, a change nobody requested. -/

/-- every driver call a request caused in a run of the change-section system was given the payload merged into the
value cached at the moment of the call -/
def CallsMergeCurrent (merge : J → V → Option V) (s : ChangeSection.CState J V) : Prop :=
  ∀ c ∈ s.calls, merge c.payload c.current = some c.value

/-- the requests of a run are handled one at a time: a request begins only when none is being handled and is finished
by the thread that began it (`b`: who is handling a request at the start).  This is what lets the sequential model —
one request = one atomic step, `HistoryOK` — speak about a node with several connections. -/
def OneAtATime : Option Nat → List (ChangeSection.Act J V) → Prop
  | _, [] => True
  | b, .begin t :: r => b = none ∧ OneAtATime (some t) r
  | b, .finish t :: r => b = some t ∧ OneAtATime none r
  | b, _ :: r => OneAtATime b r

section c01merge
variable {F : Type} [FloatOps F]

/-- the merge function of the real code, from the datatype model: `validate(import_value(j), previous = cur)` in the
dispatcher, then `validate` once more in the write wrapper -/
def mergeC01 (dt : DType F) (j : JVal F) (cur : PVal F) : Option (PVal F) :=
  match Frappy.Datatypes.acceptWire dt j (some cur) with
  | .ok v =>
    match Frappy.Datatypes.validate dt v none with
    | .ok w => some w
    | .error _ => none
  | .error _ => none

/-- monitor for one driver call of the real code: payload of the request, the cached value as it was at the moment of
the call, the value the driver got (representation included) -/
def callMergesCurrentB (dt : DType F) (j : JVal F) (cur v : PVal F) : Bool :=
  match mergeC01 dt j cur with
  | some w => PVal.same w v
  | none => false

end c01merge

/-! ## the class layout: which checks a parameter is subject to

"satisfies the module's current dynamic limits and check hooks", said over the classes of the module class as the
programmer wrote them (`ls`: one `Layer` per class in MRO order, most derived first — the class layout of C18), not over
a chain of check functions found on the finished class.  Which hooks exist and whether the limits are enforced is a
matter of the layout alone; the rule for the limits is C18's `AutoApplies` (frappy's documented rule: the class where one
of `<p>_min/_max/_limits` is defined first carries the limit check unless the programmer gave that very class a
`check_<p>` of his own; a hook the class merely INHERITS never switches the limits off). -/

section layout
open Frappy.ExtParams (Layer)
open Frappy.Spec.C18 (AutoApplies)

/-- the class at MRO position `i` defines a `check_<p>` of its own -/
def ownAt (ls : List Layer) (i : Nat) : Bool := (ls.getD i default).ownCheck

/-- `stop` = position (in `ls`) of the programmer's hook that takes the decision over (returns a true value), `none`
when none does; `k` = MRO position of the first class of `ls` (hooks are identified by their MRO position).
 * `stops`: the hook named by `stop` exists and does take over;
 * `hooks`: every programmer's hook of a class before it in MRO order (every hook, when `stop = none`) passes;
 * `limits`: the current dynamic limits hold whenever the automatic limit check applies. -/
structure LayoutOK (env : Env V) (mod : Module J V) (attr : String) (v : V) (k : Nat) (ls : List Layer)
    (stop : Option Nat) : Prop where
  stops : ∀ j, stop = some j → j < ls.length ∧ ownAt ls j = true ∧ env.chk mod.name attr (k + j) v = .stop
  hooks : ∀ i, i < ls.length → (∀ j, stop = some j → i < j) → ownAt ls i = true →
    env.chk mod.name attr (k + i) v = .pass
  limits : AutoApplies ls stop → LimitsOK env mod attr v

/-- the clause of `Accepted` for a parameter of a module class with layout `ls` -/
def LayoutChecksOK (env : Env V) (mod : Module J V) (attr : String) (v : V) (ls : List Layer) : Prop :=
  ∃ stop, LayoutOK env mod attr v 0 ls stop

end layout

/-! ## well-formedness, decided

The theorems are about nodes satisfying `Node.WF` (what class creation and configuration guarantee).  `wfB` decides it, so
that the driver can say of every node the harness builds whether the theorems speak about it
(`Props.C04.wf_of_wfB`). -/

def accKindOKB (pre : Predef) (a : Acc J V) : Bool :=
  match predefKind pre a.attr with
  | some k => decide (k = a.kind)
  | none => true

def accConstROB : Acc J V → Bool
  | .param p => !p.constant.isSome || p.readonly
  | .command _ => true

def moduleWfB (pre : Predef) (m : Module J V) : Bool :=
  decide ((m.accs.map Acc.attr).Nodup) && decide ((m.accs.filterMap (wireName pre m)).Nodup) &&
  m.accs.all (accKindOKB pre) && m.accs.all accConstROB

def wfB (pre : Predef) (n : Node J V) : Bool :=
  decide ((n.map (·.name)).Nodup) && n.all (moduleWfB pre)

/-! ## histories -/

def isRead : DriverCall V → Bool
  | .read _ _ => true
  | _ => false

/-- what the statement demands of one request of a history, given the node as it is at that moment -/
def RequestOK (pre : Predef) (env : Env V) (n : Node J V) (r : Request J V) (o : Obs J V) : Prop :=
  match r with
  | .change spec j => ExchangeOK (changeVerdict pre env n spec j) o
  | .do_ spec data => ExchangeOK (doVerdict pre n spec data) o
  | .read _ _ => o.calls.all isRead = true          -- a read never writes or executes
  | .assign _ _ _ => o.calls = []                   -- an assignment inside the module is not a driver call

instance [DecidableEq J] [DecidableEq V] (pre : Predef) (env : Env V) (n : Node J V) (r : Request J V) (o : Obs J V) :
    Decidable (RequestOK pre env n r o) := by
  unfold RequestOK; split <;> infer_instance

def requestOKB [DecidableEq J] [DecidableEq V] (pre : Predef) (env : Env V) (n : Node J V) (r : Request J V)
    (o : Obs J V) : Bool := decide (RequestOK pre env n r o)

/-- the statement along a whole history of the model: every request is judged against the node (cache,
hence dynamic limits) left behind by the requests before it -/
def HistoryOK (pre : Predef) : Node J V → List (Env V × Request J V) → Prop
  | _, [] => True
  | n, (env, r) :: rest =>
    RequestOK pre env n r (obsOf n (step pre env n r)) ∧ HistoryOK pre (step pre env n r).node rest

/-! ## write paths that forward (parameters generated by helper classes)

The write method of a member of a `StructParam` (struct layout), of a `StructParam` itself (member layout) or of a
`FloatEnumParam` is generated: it hands the value on to the write method of another parameter, and only that one (or the
one after it) is the driver's.  "The driver's write method is invoked only if … the payload … satisfies the module's
current dynamic limits and check hooks" then speaks about EVERY parameter the value passes on its way to the driver:
the addressed one, and each parameter it is handed to — with the value that parameter is given (the member put into
the current value of the struct; the member taken out of the struct; the index closest to the float).  A request that
comes in through a member must not reach `write_<struct>` unless the limits and `check_<struct>` hooks of the struct
agree, and the other way round. -/

section forward
open Frappy.Node.Forward

/-- the generated `write_<a>`, called with `v`, calls `write_<a'>` with `v'` -/
def Hands (c : Ctx J V) (a : String) (v : V) (a' : String) (v' : V) : Prop :=
  ∃ p w, paramOf c.mod a = some p ∧ p.dt.revalidate v = .ok w ∧ (a', v') ∈ succs c a w

/-- the write path of a request that gives `v` to parameter `a`: `b` is given `u` somewhere on it -/
inductive Reach (c : Ctx J V) : String → V → String → V → Prop
  | here (a : String) (v : V) : Reach c a v a v
  | step {a : String} {v : V} {a' : String} {v' : V} {b : String} {u : V} :
      Hands c a v a' v' → Reach c a' v' b u → Reach c a v b u

/-- parameter `a` lets `v` through: valid for its datatype, inside its current limits, its check hooks agree -/
def VisitOK (c : Ctx J V) (a : String) (v : V) : Prop :=
  ∃ p, paramOf c.mod a = some p ∧ (∃ w, p.dt.revalidate v = .ok w) ∧ ChecksOK c.env c.mod a v p.checks

/-- "satisfies the module's current dynamic limits and check hooks", for a write path that forwards -/
def PathOK (c : Ctx J V) (a : String) (v : V) : Prop := ∀ b u, Reach c a v b u → VisitOK c b u

/-- no generated function of the class calls more than one write method (no `StructParam` in member layout) -/
def Linear (c : Ctx J V) : Prop := ∀ a ms, c.body a ≠ .toMembers ms

/-! the decision list for one request (monitor) -/

/-- class of the objection of one parameter of the path, `none` when it lets the value through -/
def visitVerdict (c : Ctx J V) (a : String) (v : V) : Option ErrCls :=
  match paramOf c.mod a with
  | none => some .internal
  | some p =>
    match p.dt.revalidate v with
    | .error e => some e.cls
    | .ok _ => chainVerdict c.env c.mod a v p.checks

/-- the parameters the value passes with the value each is given, in call order (bounded depth) -/
def pathList : Nat → Ctx J V → String → V → List (String × V)
  | 0, _, a, v => [(a, v)]
  | fuel + 1, c, a, v =>
    (a, v) ::
      match paramOf c.mod a with
      | none => []
      | some p =>
        match p.dt.revalidate v with
        | .error _ => []
        | .ok w => (succs c a w).flatMap (fun av => pathList fuel c av.1 av.2)

inductive FwdVerdict (V : Type)
  | refuse (cls : ErrCls)
  | allow (calls : List (DriverCall V))
  deriving DecidableEq, Repr

/-- the driver-written write methods on the path, each with the validated value -/
def pathCalls (c : Ctx J V) (l : List (String × V)) : List (DriverCall V) :=
  l.filterMap (fun av =>
    match c.body av.1, paramOf c.mod av.1 with
    | .driver, some p =>
      match p.dt.revalidate av.2 with
      | .ok w => some (DriverCall.write c.mod.name av.1 w)
      | .error _ => none
    | _, _ => none)

/-- all or nothing: one objection anywhere on the path refuses the request (class of the first one in call order) -/
def pathVerdict (fuel : Nat) (c : Ctx J V) (a : String) (v : V) : FwdVerdict V :=
  match (pathList fuel c a v).findSome? (fun av => visitVerdict c av.1 av.2) with
  | some cls => .refuse cls
  | none => .allow (pathCalls c (pathList fuel c a v))

/-- NoSuchModule, NoSuchParameter, ReadOnly, WrongType / RangeError for the payload as in `changeVerdict`, then the path -/
def forwardVerdict (pre : Predef) (fuel : Nat) (env : Env V) (ops : ValOps V) (body : String → String → Body)
    (n : Node J V) (spec : Spec) (j : J) : FwdVerdict V :=
  match target "target" spec with
  | none => .refuse .protocol
  | some (m, a) =>
    match modulesNamed n m with
    | [] => .refuse .noSuchModule
    | mod :: _ =>
      match paramsAt pre mod a with
      | [] => .refuse .noSuchParameter
      | p :: _ =>
        if p.readonly || p.constant.isSome then .refuse .readOnly
        else
          match p.dt.accept j (some p.entry.value) with
          | .error e => .refuse e.cls
          | .ok v =>
            if p.isLimitsPair && pairInverted env v then .refuse .rangeError
            else pathVerdict fuel ⟨env, ops, mod, body mod.name⟩ p.attr v

def isWrite : DriverCall V → Bool
  | .write _ _ _ => true
  | _ => false

def isErrorReply : Reply J → Bool
  | .error _ => true
  | _ => false

/-- Refused: no driver call at all, cache untouched, no update, an error report of the fitting class.
Admitted: the driver-written write methods of the path are called once each, in order, with exactly the validated
values — all of them unless the request ends with an error report (a driver raised), then the first ones. -/
def ForwardExchangeOK [DecidableEq V] (vd : FwdVerdict V) (o : Obs J V) : Prop :=
  match vd with
  | .refuse cls => o.calls = [] ∧ o.emits = [] ∧ o.cacheAfter = o.cacheBefore ∧ o.reply = .error cls
  | .allow calls =>
    (o.calls.filter isWrite).isPrefixOf calls = true ∧ (isErrorReply o.reply = false → o.calls.filter isWrite = calls)

instance [DecidableEq J] [DecidableEq V] (vd : FwdVerdict V) (o : Obs J V) : Decidable (ForwardExchangeOK vd o) := by
  unfold ForwardExchangeOK; split <;> infer_instance

def forwardExchangeOKB [DecidableEq J] [DecidableEq V] (vd : FwdVerdict V) (o : Obs J V) : Bool :=
  decide (ForwardExchangeOK vd o)

end forward

end Frappy.Spec.C04
