import FrappyModel.Small.Discovery
import FrappyModel.Small.DiscoveryServer
/-
C19 — Discovery responder: bounded well-formed answers, unkillable by datagrams.

Specification only.  Written from the statement:

  "each announcement or answer the node sends over UDP is a single valid UTF-8 JSON object of at
   most 508 bytes carrying the node identity and a TCP port it really listens on, with an over-long
   description truncated on a character boundary (or the responder disabled when the identity
   alone does not fit).  For every datagram received - any bytes at all - the responder answers if
   and only if it is a discovery request, and keeps answering later requests."

The Spec has its own *readers* (a strict UTF-8 decoder and a reader of flat JSON objects) and its own
*size* function; it uses the data types of the model (`Iface`, `Send`, `JTop`, …) but none of its
functions.  Every `Prop` is decidable; the monitors are `decide` of the `Prop`s and are run by the
driver on what the real implementation sent.
-/
namespace Frappy.Spec.C19
open Frappy.Discovery (Str Bytes Iface Send Dest Exc JTop Member)

/-- the limit of the statement -/
def limit : Nat := 508

/-- a datagram of up to this many bytes is received whole ("any bytes at all … 1024 bytes, oversized":
longer datagrams may be cut by the receive buffer; what the responder sees of them is judged) -/
def wholeUpTo : Nat := 1024

/-- the largest TCP port number -/
def maxPort : Nat := 65535

/-! ## reading UTF-8 (strict: no overlong forms, no surrogates, nothing above U+10FFFF) -/

def pushChar (c : Char) : Option Str → Option Str
  | some s => some (c :: s)
  | none => none

def isCont (b : Nat) : Bool := 0x80 ≤ b && b < 0xC0

def validScalar (lo v : Nat) : Bool := lo ≤ v && v < 0x110000 && !(0xD800 ≤ v && v < 0xE000)

/-- `need` continuation bytes are outstanding, `acc` holds the bits read so far, `lo` is the least
code point that may be written with this many bytes -/
def utf8DecodeFrom : Nat → Nat → Nat → Bytes → Option Str
  | 0, _, _, [] => some []
  | _ + 1, _, _, [] => none
  | 0, _, _, b :: r =>
    if b < 0x80 then pushChar (Char.ofNat b) (utf8DecodeFrom 0 0 0 r)
    else if b < 0xC2 then none
    else if b < 0xE0 then utf8DecodeFrom 1 (b - 0xC0) 0x80 r
    else if b < 0xF0 then utf8DecodeFrom 2 (b - 0xE0) 0x800 r
    else if b < 0xF5 then utf8DecodeFrom 3 (b - 0xF0) 0x10000 r
    else none
  | k + 1, acc, lo, b :: r =>
    if isCont b then
      if k = 0 then
        if validScalar lo (acc * 64 + (b - 0x80)) then
          pushChar (Char.ofNat (acc * 64 + (b - 0x80))) (utf8DecodeFrom 0 0 0 r)
        else none
      else utf8DecodeFrom k (acc * 64 + (b - 0x80)) lo r
    else none

def utf8Decode (b : Bytes) : Option Str := utf8DecodeFrom 0 0 0 b

/-! ## reading a flat JSON object (members: strings and non-negative integers; compact form) -/

inductive Val where
  | str (s : Str)
  | num (n : Nat)
deriving DecidableEq, Repr

def hexVal (c : Char) : Option Nat :=
  if '0'.toNat ≤ c.toNat ∧ c.toNat ≤ '9'.toNat then some (c.toNat - '0'.toNat)
  else if 'a'.toNat ≤ c.toNat ∧ c.toNat ≤ 'f'.toNat then some (c.toNat - 'a'.toNat + 10)
  else if 'A'.toNat ≤ c.toNat ∧ c.toNat ≤ 'F'.toNat then some (c.toNat - 'A'.toNat + 10)
  else none

/-- the character a two-character escape `\x` stands for -/
def unescape (c : Char) : Option Char :=
  if c = '"' then some '"'
  else if c = '\\' then some '\\'
  else if c = '/' then some '/'
  else if c = 'n' then some '\n'
  else if c = 'r' then some '\r'
  else if c = 't' then some '\t'
  else if c = 'b' then some (Char.ofNat 8)
  else if c = 'f' then some (Char.ofNat 12)
  else none

inductive SMode where
  | plain
  | esc                       -- after a backslash
  | hex (k acc : Nat)         -- after `\u` and `k` hex digits with value `acc`

def pushRes (c : Char) : Option (Str × Str) → Option (Str × Str)
  | some (s, r) => some (c :: s, r)
  | none => none

/-- reads the inside of a string literal up to and including the closing quote; returns the string
and the rest of the text.  Raw control characters are not allowed; `\uXXXX` escapes of surrogates
are not read (the reader gives up). -/
def readStrBody : SMode → Str → Option (Str × Str)
  | _, [] => none
  | .plain, c :: r =>
    if c = '"' then some ([], r)
    else if c = '\\' then readStrBody .esc r
    else if c.toNat < 0x20 then none
    else pushRes c (readStrBody .plain r)
  | .esc, c :: r =>
    if c = 'u' then readStrBody (.hex 0 0) r
    else match unescape c with
      | some ch => pushRes ch (readStrBody .plain r)
      | none => none
  | .hex k acc, c :: r =>
    match hexVal c with
    | none => none
    | some v =>
      if k = 3 then
        if 0xD800 ≤ acc * 16 + v ∧ acc * 16 + v < 0xE000 then none
        else pushRes (Char.ofNat (acc * 16 + v)) (readStrBody .plain r)
      else readStrBody (.hex (k + 1) (acc * 16 + v)) r

def isDigit (c : Char) : Bool := '0'.toNat ≤ c.toNat && c.toNat ≤ '9'.toNat

/-- reads further digits of a number whose value so far is `acc` -/
def readDigits (acc : Nat) : Str → Nat × Str
  | [] => (acc, [])
  | c :: r => if isDigit c then readDigits (acc * 10 + (c.toNat - '0'.toNat)) r else (acc, c :: r)

def startsWithDigit : Str → Bool
  | [] => false
  | c :: _ => isDigit c

/-- `0` or a digit string without leading zero -/
def readNat : Str → Option (Nat × Str)
  | [] => none
  | c :: r =>
    if isDigit c = false then none
    else if c = '0' ∧ startsWithDigit r = true then none
    else some (readDigits 0 (c :: r))

def readValue : Str → Option (Val × Str)
  | [] => none
  | c :: r =>
    if c = '"' then
      match readStrBody .plain r with
      | some (s, r') => some (.str s, r')
      | none => none
    else
      match readNat (c :: r) with
      | some (n, r') => some (.num n, r')
      | none => none

def consMember (kv : Str × Val) : Option (List (Str × Val)) → Option (List (Str × Val))
  | some ms => some (kv :: ms)
  | none => none

/-- what follows a member: `,` and more members, or `}` and the end of the text -/
def readMembers : Nat → Str → Option (List (Str × Val))
  | 0, _ => none
  | _ + 1, [] => none
  | f + 1, q :: r =>
    if q = '"' then
      match readStrBody .plain r with
      | some (k, colon :: r1) =>
        if colon = ':' then
          match readValue r1 with
          | some (v, sep :: r2) =>
            if sep = ',' then consMember (k, v) (readMembers f r2)
            else if sep = '}' ∧ r2 = [] then some [(k, v)]
            else none
          | _ => none
        else none
      | _ => none
    else none

/-- the whole text is one JSON object -/
def readObject : Str → Option (List (Str × Val))
  | [] => none
  | c :: r =>
    if c = '{' then
      if r = ['}'] then some [] else readMembers r.length r
    else none

def lookup (key : Str) : List (Str × Val) → Option Val
  | [] => none
  | (k, v) :: rest => if k = key then some v else lookup key rest

/-! ## what a message has to carry -/

/-- the node: its identity (equipment id, firmware), its description, the interfaces it listens on -/
structure Node where
  id : Str
  firmware : Str
  description : Str
  ifaces : List Iface

/-- the firmware string of a frappy node of the given version -/
def firmwareOf (version : Str) : Str := ['F', 'R', 'A', 'P', 'P', 'Y', ' '] ++ version

/-- the TCP ports the node listens on -/
def tcpPorts (n : Node) : List Nat :=
  (n.ifaces.filter (fun i => i.scheme = ['t', 'c', 'p'])).map (·.port)

structure Fields where
  secop : Str
  port : Nat
  id : Str
  firmware : Str
  description : Str
deriving DecidableEq, Repr

def strField (key : Str) (ms : List (Str × Val)) : Option Str :=
  match lookup key ms with
  | some (.str s) => some s
  | _ => none

def numField (key : Str) (ms : List (Str × Val)) : Option Nat :=
  match lookup key ms with
  | some (.num n) => some n
  | _ => none

def kSECoP : Str := ['S', 'E', 'C', 'o', 'P']
def kPort : Str := ['p', 'o', 'r', 't']
def kId : Str := ['e', 'q', 'u', 'i', 'p', 'm', 'e', 'n', 't', '_', 'i', 'd']
def kFirmware : Str := ['f', 'i', 'r', 'm', 'w', 'a', 'r', 'e']
def kDescription : Str := ['d', 'e', 's', 'c', 'r', 'i', 'p', 't', 'i', 'o', 'n']
def wNode : Str := ['n', 'o', 'd', 'e']
def wDiscover : Str := ['d', 'i', 's', 'c', 'o', 'v', 'e', 'r']

def fieldsOf (ms : List (Str × Val)) : Option Fields :=
  match strField kSECoP ms, numField kPort ms, strField kId ms, strField kFirmware ms, strField kDescription ms with
  | some s, some p, some i, some f, some d =>
    if (ms.map (·.1)).Nodup then some ⟨s, p, i, f, d⟩ else none
  | _, _, _, _, _ => none

/-- a datagram read as valid UTF-8, as a single JSON object, and its five members -/
def readMessage (msg : Bytes) : Option Fields :=
  match utf8Decode msg with
  | none => none
  | some text =>
    match readObject text with
    | none => none
    | some ms => fieldsOf ms

/-! ## sizes: when does the identity fit, when is the description over-long -/

/-- number of bytes a character needs inside a JSON string literal written in UTF-8 -/
def charSize (c : Char) : Nat :=
  if c = '"' ∨ c = '\\' then 2
  else if c.toNat < 0x20 then
    (if c = '\n' ∨ c = '\r' ∨ c = '\t' ∨ c = Char.ofNat 8 ∨ c = Char.ofNat 12 then 2 else 6)
  else if c.toNat < 0x80 then 1
  else if c.toNat < 0x800 then 2
  else if c.toNat < 0x10000 then 3
  else 4

def strSize : Str → Nat
  | [] => 0
  | c :: s => charSize c + strSize s

/-- `{"SECoP":"node","port":65535,"equipment_id":"","firmware":"","description":""}`:
the object around the three strings, with a port number of five digits -/
def frameSize : Nat := 78

/-- size of the compact message that carries the identity and description `d` -/
def compactSize (n : Node) (d : Str) : Nat :=
  frameSize + strSize n.id + strSize n.firmware + strSize d

/-- the identity alone fits into a message -/
def IdentityFits (n : Node) : Prop := compactSize n [] ≤ limit

instance (n : Node) : Decidable (IdentityFits n) := by unfold IdentityFits; infer_instance

/-- the rule for the description `d` that is sent: a prefix of the description on a character
boundary — all of it unless it is over-long -/
def DescriptionRule (n : Node) (d : Str) : Prop :=
  d <+: n.description ∧ (compactSize n n.description ≤ limit → d = n.description)

instance (n : Node) (d : Str) : Decidable (DescriptionRule n d) := by unfold DescriptionRule; infer_instance

/-- truncation removes no more than necessary: one more character would not fit -/
def TruncationMinimal (n : Node) (d : Str) : Prop :=
  d = n.description ∨ limit < compactSize n (n.description.take (d.length + 1))

instance (n : Node) (d : Str) : Decidable (TruncationMinimal n d) := by unfold TruncationMinimal; infer_instance

/-- one datagram sent by the node -/
def WellFormedMessage (n : Node) (msg : Bytes) : Prop :=
  msg.length ≤ limit ∧
  match readMessage msg with
  | none => False
  | some f => f.secop = wNode ∧ f.id = n.id ∧ f.firmware = n.firmware ∧ f.port ∈ tcpPorts n ∧
              DescriptionRule n f.description

instance (n : Node) (msg : Bytes) : Decidable (WellFormedMessage n msg) := by
  unfold WellFormedMessage; split <;> infer_instance

def portOf (msg : Bytes) : Option Nat :=
  match readMessage msg with
  | some f => some f.port
  | none => none

/-- a batch of datagrams sent to `dest`: one well-formed message per TCP port, in the order of the ports -/
def BatchOK {α : Type} [DecidableEq α] (n : Node) (dest : Dest α) (sends : List (Send α)) : Prop :=
  (∀ s ∈ sends, s.dest = dest ∧ WellFormedMessage n s.payload) ∧
  sends.map (fun s => portOf s.payload) = (tcpPorts n).map some

instance {α : Type} [DecidableEq α] (n : Node) (dest : Dest α) (sends : List (Send α)) :
    Decidable (BatchOK n dest sends) := by unfold BatchOK; infer_instance

/-! ## datagrams -/

/-- a discovery request: the datagram decodes to a JSON object whose member `SECoP` is the string `discover` -/
def IsRequest : Except Exc JTop → Prop
  | .ok (.obj items) => (kSECoP, Member.str wDiscover) ∈ items
  | _ => False

instance (d : Except Exc JTop) : Decidable (IsRequest d) := by
  unfold IsRequest; split <;> infer_instance

deriving instance DecidableEq for Except

/-- one received datagram, what it decodes to, and what the responder sent before taking the next one -/
structure Step (α : Type) where
  addr : α
  decoded : Except Exc JTop
  sends : List (Send α)

/-- `reach a = false`: datagrams cannot be sent to `a` (the operating system refuses, e.g. source port 0): a request
from there cannot be answered; nothing is sent instead, and the responder goes on -/
def StepOK {α : Type} [DecidableEq α] (n : Node) (reach : α → Bool) (st : Step α) : Prop :=
  if IsRequest st.decoded ∧ reach st.addr = true then BatchOK n (.peer st.addr) st.sends else st.sends = []

instance {α : Type} [DecidableEq α] (n : Node) (reach : α → Bool) (st : Step α) : Decidable (StepOK n reach st) := by
  unfold StepOK; infer_instance

/-- A recorded run: `received` datagrams arrived (with their decodings), `steps` is what the responder
did with those it took, in order; `announce` is what it sent at start-up.
* identity fits: the announcement (if asked for) is one well-formed message per TCP port to the
  broadcast address; *every* datagram was taken (the responder is still there for the last one) and
  each was answered iff it is a request;
* identity does not fit: nothing is sent at all. -/
def RunOK {α : Type} [DecidableEq α] (n : Node) (startup : Bool) (reach : α → Bool)
    (received : List (α × Except Exc JTop)) (announce : List (Send α)) (steps : List (Step α)) : Prop :=
  if IdentityFits n then
    (if startup then BatchOK n .broadcast announce else announce = []) ∧
    steps.map (fun st => (st.addr, st.decoded)) = received ∧
    ∀ st ∈ steps, StepOK n reach st
  else
    announce = [] ∧ ∀ st ∈ steps, st.sends = []

instance {α : Type} [DecidableEq α] (n : Node) (startup : Bool) (reach : α → Bool)
    (received : List (α × Except Exc JTop)) (announce : List (Send α)) (steps : List (Step α)) :
    Decidable (RunOK n startup reach received announce steps) := by
  unfold RunOK; infer_instance

/-- what the constructed responder says about itself -/
def ListenerOK (n : Node) (enabled : Bool) (d : Str) : Prop :=
  (enabled = true ↔ IdentityFits n) ∧ (enabled = true → DescriptionRule n d)

instance (n : Node) (enabled : Bool) (d : Str) : Decidable (ListenerOK n enabled d) := by
  unfold ListenerOK; infer_instance

/-! ## the server: "a TCP port it really listens on", round by round

A run of the server is a sequence of rounds (start-up, serving, restart).  In each round every configured
interface is started or fails to start; a started TCP interface serves on the port it is bound to. -/

open Frappy.Discovery (Attempt StartResult) in
/-- the TCP ports the node really listens on in a round: the ports bound by the TCP interfaces whose start
attempt of *that* round succeeded -/
def servedTcpPorts (attempts : List Attempt) : List Nat :=
  attempts.filterMap (fun a =>
    match a.result with
    | .started b => if a.iface.scheme = ['t', 'c', 'p'] then some b else none
    | .failed => none)

/-- every port that can be announced (by any responder of the node that is running) is served -/
def AnnouncedServed (served announceable : List Nat) : Prop := ∀ p ∈ announceable, p ∈ served

instance (served announceable : List Nat) : Decidable (AnnouncedServed served announceable) := by
  unfold AnnouncedServed; infer_instance

def announcedServedB (served announceable : List Nat) : Bool := decide (AnnouncedServed served announceable)

/-! ## monitors -/

def wellFormedMessageB (n : Node) (msg : Bytes) : Bool := decide (WellFormedMessage n msg)
def listenerOKB (n : Node) (enabled : Bool) (d : Str) : Bool := decide (ListenerOK n enabled d)
def truncationMinimalB (n : Node) (d : Str) : Bool := decide (TruncationMinimal n d)
def runOKB {α : Type} [DecidableEq α] (n : Node) (startup : Bool) (reach : α → Bool)
    (received : List (α × Except Exc JTop)) (announce : List (Send α)) (steps : List (Step α)) : Bool :=
  decide (RunOK n startup reach received announce steps)

/-- first thing wrong with a recorded run, for the report (`none` = `RunOK`) -/
def diagnose {α : Type} [DecidableEq α] (n : Node) (startup : Bool) (reach : α → Bool)
    (received : List (α × Except Exc JTop)) (announce : List (Send α)) (steps : List (Step α)) : Option String :=
  if RunOK n startup reach received announce steps then none
  else if ¬ IdentityFits n then some "sends-although-identity-does-not-fit"
  else if ¬ (if startup then BatchOK n .broadcast announce else announce = []) then
    (if (announce ++ steps.flatMap (·.sends)).any (fun s => decide (limit < s.payload.length)) then some "message-too-long"
     else some "announcement-malformed")
  else if ¬ (∀ st ∈ steps, StepOK n reach st) then
    (if steps.any (fun st => st.sends.any (fun s => decide (limit < s.payload.length))) then some "message-too-long"
     else if steps.any (fun st => decide (IsRequest st.decoded) && reach st.addr && st.sends.isEmpty) then some "request-not-answered"
     else if steps.any (fun st => !reach st.addr && !st.sends.isEmpty) then some "sends-to-unreachable-sender"
     else if steps.any (fun st => !decide (IsRequest st.decoded) && !st.sends.isEmpty) then some "non-request-answered"
     else some "answer-malformed")
  else some "responder-gone"

end Frappy.Spec.C19
