import FrappyModel.Node.ModuleProps
import FrappyModel.Spec.C04
/-
C06 — The node's self-description is true of its behaviour.

Specification only: what the report has to list, what its flags have to predict, and the monitors that
compare a report of the real implementation with the behaviour of the same node (report-vs-behaviour:
the monitors of this file read the REPORT and the observed exchange, not the node data).
-/
namespace Frappy.Spec.C06
open Frappy.Node Frappy.Spec.C04

variable {J V : Type}

/-- `(m, a)` names an exported accessible of an exported module -/
def Exported (pre : Predef) (n : Node J V) (m a : String) : Prop :=
  ∃ mod acc, mod ∈ n ∧ mod.name = m ∧ mod.exported = true ∧ acc ∈ mod.accs ∧ exportName pre acc = some a

/-- "the structure report lists exactly the exported modules and accessibles under their wire names" -/
def ListsExactly (pre : Predef) (n : Node J V) (d : List (ModDesc J)) : Prop :=
  (∀ m a, (m, a) ∈ pairsOf d ↔ Exported pre n m a) ∧ (pairsOf d).Nodup ∧
  (∀ m, m ∈ d.map (·.name) ↔ ∃ mod ∈ n, mod.name = m ∧ mod.exported = true)

/-- the pairs the node data says are exported (for the monitor) -/
def exportedPairs (pre : Predef) (n : Node J V) : List (String × String) :=
  n.flatMap (fun mod => if mod.exported then mod.accs.filterMap (fun a => (exportName pre a).map (fun w => (mod.name, w))) else [])

def exportedModules (n : Node J V) : List String := (n.filter (·.exported)).map (·.name)

/-- monitor: a report (of the implementation) lists exactly what the node data exports, once -/
def listsExactlyB (pre : Predef) (n : Node J V) (d : List (ModDesc J)) : Bool :=
  let got := pairsOf d
  let want := exportedPairs pre n
  decide got.Nodup && got.all (fun x => want.contains x) && want.all (fun x => got.contains x)
  && decide (d.map (·.name)).Nodup && (d.map (·.name)).all (fun x => (exportedModules n).contains x)
  && (exportedModules n).all (fun x => (d.map (·.name)).contains x)

/-! ### report against behaviour -/

inductive ProbeKind
  | change | read | do_ | activate
  deriving DecidableEq, Repr

/-- one request aimed at `(m, a)` and what the node did -/
structure Probe (J V : Type) where
  kind : ProbeKind
  m : String
  a : String
  reply : Reply J
  calls : List (DriverCall V)
  subsChanged : Bool          -- the subscription tables differ after the request
  /-- for a change: the specification's decision list (C04) finds nothing to object to -/
  allowed : Bool
  /-- for a do: the request carried a payload (anything but JSON null) -/
  hasData : Bool := false
  /-- for a do with a payload: the argument datatype a client rebuilds from the DESCRIBED command datainfo imports
  and validates the payload; for a change: the datatype a client rebuilds from the DESCRIBED parameter datainfo does
  (computed by the real datatype code, compared here) -/
  clientAccepts : Bool := false

def Reply.isError : Reply J → Bool
  | .error _ => true
  | _ => false

def isNoSuch : Reply J → Bool
  | .error .noSuchModule => true
  | .error .noSuchParameter => true
  | .error .noSuchCommand => true
  | _ => false

/-- the payloads the described datainfo of a command accepts: a command described without `argument` takes no payload
at all, one described with an argument takes exactly the payloads that argument datatype accepts (and needs one) -/
def payloadAcceptable (argument : Option Bool) (hasData clientAccepts : Bool) : Bool :=
  match argument with
  | some true => hasData && clientAccepts
  | _ => !hasData

/-- the verdict of the DESCRIBED datainfo of a command on the payload of a `do`, given the verdicts
`clientAccepts datainfo payload` of the argument datatype a client rebuilds from a described command datainfo -/
def describedAccepts (clientAccepts : J → J → Bool) (ad : AccDesc J) (data : Option J) : Bool :=
  payloadAcceptable ad.argument data.isSome
    (match data with
     | some j => clientAccepts ad.datainfo j
     | none => false)

/-- what the report promises about one exchange:
* nothing that is not described can be read, changed, executed or subscribed (`NoSuch…`, no call, no subscription);
* the described KIND is honoured: a described command can neither be changed, read nor subscribed, a described
  parameter can not be executed (`NoSuch…`, no call);
* a parameter described read-only refuses every change with ReadOnly, one described writable never answers ReadOnly
  and a change nothing objects to is not refused;
* the described datainfo of a parameter accepts and rejects the same payloads as the node: a payload the described
  datainfo excludes is refused by a parameter described writable, and nothing is written (the other direction — what
  the description accepts, the node's datatype accepts — is `datainfoAgreeB` + `allowed`);
* a described constant reads as exactly that constant, without asking the driver;
* the described datainfo of a command accepts and rejects the same payloads as the node: a payload the described
  datainfo excludes is refused and the command NOT executed, one it accepts reaches the command function -/
def ProbeOK [DecidableEq J] (d : List (ModDesc J)) (pr : Probe J V) : Prop :=
  match findDesc d pr.m pr.a with
  | none => pr.calls = [] ∧ pr.subsChanged = false ∧ isNoSuch pr.reply = true
  | some ad =>
    match pr.kind with
    | .change =>
      (ad.kind = .command → isNoSuch pr.reply = true ∧ pr.calls = [])
      ∧ (ad.readonly = some true → pr.reply = .error .readOnly ∧ pr.calls = [])
      ∧ (ad.readonly = some false → pr.reply ≠ .error .readOnly ∧
          (pr.allowed = true → pr.calls ≠ [] ∨ Reply.isError pr.reply = false) ∧
          (pr.clientAccepts = false → Reply.isError pr.reply = true ∧ pr.calls = []))
    | .read =>
      (ad.kind = .command → isNoSuch pr.reply = true ∧ pr.calls = [])
      ∧ (match ad.constant with
         | some c => pr.reply = .read c ∧ pr.calls = []
         | none => True)
    | .activate =>
      -- a command can not be subscribed: refused like an unknown name, before anything is subscribed
      ad.kind = .command → isNoSuch pr.reply = true ∧ pr.subsChanged = false
    | .do_ =>
      (ad.kind = .parameter → isNoSuch pr.reply = true ∧ pr.calls = [])
      ∧ (ad.kind = .command →
          (payloadAcceptable ad.argument pr.hasData pr.clientAccepts = false →
            Reply.isError pr.reply = true ∧ pr.calls = [])
          ∧ (payloadAcceptable ad.argument pr.hasData pr.clientAccepts = true →
            pr.calls ≠ []))

instance [DecidableEq J] [DecidableEq V] (d : List (ModDesc J)) (pr : Probe J V) : Decidable (ProbeOK d pr) := by
  unfold ProbeOK
  split
  · infer_instance
  · split
    · infer_instance
    · have : ∀ c : Option J, Decidable (match c with
         | some c => pr.reply = .read c ∧ pr.calls = []
         | none => True) := fun c => by cases c <;> infer_instance
      infer_instance
    · infer_instance
    · infer_instance

def probeOKB [DecidableEq J] [DecidableEq V] (d : List (ModDesc J)) (pr : Probe J V) : Bool := decide (ProbeOK d pr)

/-- "stable between calls" -/
def stableB [DecidableEq J] (d1 d2 : List (ModDesc J)) : Bool := decide (d1 = d2)

/-! ### interface class and features against the implementing class -/

/-- "the interface class and features match the implementing class": the reported interface class is the first
class of the class chain that is one of the SECoP base classes (none if there is none), the reported features are
exactly the classes of the chain that have `Feature` as a direct base, in chain order -/
def ClassPropsOK (base : List String) (mro : List ClassInfo) (ic feats : List String) : Prop :=
  (match ic with
   | [] => ∀ c ∈ mro, c.name ∉ base
   | [x] => x ∈ base ∧ ∃ before after, mro.map (·.name) = before ++ x :: after ∧ ∀ y ∈ before, y ∉ base
   | _ => False)
  ∧ feats = (mro.filter (·.isFeature)).map (·.name)

/-- monitor: the report's `interface_classes` / `features` of a module against the class chain -/
def classPropsB (base : List String) (mro : List ClassInfo) (ic feats : List String) : Bool :=
  decide (ic = interfaceClassesOf base mro) && decide (feats = featuresOf mro)

/-- "the interface class and features match the implementing class", as a statement about the REPORT of a module: what
the report gives for `interface_classes` / `features` (absent = the empty list) is the serialisation of lists that
satisfy `ClassPropsOK`, and `implementation` names the implementing class -/
def ReportClassPropsOK (enc : PropEnc J) (base : List String) (impl : String) (mro : List ClassInfo)
    (props : List (String × J)) : Prop :=   -- `enc`: how strings / lists of strings are written in the report
  ∃ ic feats, ClassPropsOK base mro ic feats ∧
    reportedProp props "interface_classes" (enc.strs []) = enc.strs ic ∧
    reportedProp props "features" (enc.strs []) = enc.strs feats ∧
    reportedProp props "implementation" (enc.str "") = enc.str impl

/-- monitor: the `implementation` a report states is the qualified name of the implementing class -/
def implementationB (impl : String) (reported : Option String) : Bool := reported == some impl

/-! ### described datainfo against the runtime datatype (relative to the datatype oracle) -/

/-- the two independent verdicts on one payload, and whether emitted values could be imported by a client that built
its datatype from the report — computed by the real datatype code on both sides, compared here -/
structure DatainfoCheck where
  m : String
  a : String
  clientAccepts : Bool      -- `get_datatype(described datainfo)` imports + validates the payload
  nodeAccepts : Bool        -- the parameter's own datatype does
  deriving DecidableEq, Repr

def datainfoAgreeB (c : DatainfoCheck) : Bool := c.clientAccepts == c.nodeAccepts

/-! ### which modules are registered for the report -/

/-- "the structure report lists exactly the exported modules" — for every node CONFIGURATION: whichever way and at
whichever moment a module object came into being (its own turn in the configuration, as the attached module of a module
initialised earlier, out of a Pinata), it is registered for the report exactly when its `export` flag is set, once, in
the order of creation.  `created`: the module objects of the node (`SecNode.modules`) with their `export` flag;
`export`: the list the report is made from (`SecNode.export`). -/
def RegisteredOK (created : List (String × Bool)) (registered : List String) : Prop :=
  registered = (created.filter (·.2)).map (·.1)

instance (created : List (String × Bool)) (registered : List String) : Decidable (RegisteredOK created registered) := by
  unfold RegisteredOK; infer_instance

def registeredB (created : List (String × Bool)) (registered : List String) : Bool :=
  decide (RegisteredOK created registered)

/-- the part of `RegisteredOK` the STATEMENT needs ("lists exactly the exported modules"): no module object with a set
`export` flag is missing from the list the report is made from (the monitor for the implementation; a surplus entry
or another order would not make the report untrue by itself) -/
def unregistered (created : List (String × Bool)) (registered : List String) : List String :=
  ((created.filter (·.2)).map (·.1)).filter (fun m => !registered.contains m)

def allRegisteredB (created : List (String × Bool)) (registered : List String) : Bool :=
  (unregistered created registered).isEmpty

/-- the registered modules whose object has the flag set (the ones `get_descriptive_data` does not skip) -/
def registeredExported (created : List (String × Bool)) (registered : List String) : List String :=
  registered.filter (fun m => created.contains (m, true))

/-- the report has one entry per registered module, in that order -/
def reportFollowsB (registered : List String) (d : List (ModDesc J)) : Bool := decide (d.map (·.name) = registered)

/-! ### stability while the node changes -/

/-- "stable between calls" when module code changed the datatype of some live parameters between the two calls
(`touched`: their (module, wire name) pairs): the same modules, module properties and accessibles in the same order;
an entry that was not touched is the same, a touched one may differ in its `datainfo` only.  (Whether the NEW datainfo
is true is what `ProbeOK` / `datainfoAgreeB` judge against the behaviour after the change.) -/
def StableExcept [DecidableEq J] (touched : List (String × String)) (d1 d2 : List (ModDesc J)) : Prop :=
  d1.map (·.name) = d2.map (·.name) ∧ d1.map (·.props) = d2.map (·.props) ∧
  ∀ xy ∈ d1.zip d2, xy.1.accs.map (·.name) = xy.2.accs.map (·.name) ∧
    ∀ ab ∈ xy.1.accs.zip xy.2.accs,
      if (xy.1.name, ab.1.name) ∈ touched then { ab.1 with datainfo := ab.2.datainfo } = ab.2 else ab.1 = ab.2

def stableExceptB [DecidableEq J] (touched : List (String × String)) (d1 d2 : List (ModDesc J)) : Bool :=
  decide (d1.map (·.name) = d2.map (·.name)) && decide (d1.map (·.props) = d2.map (·.props)) &&
  (d1.zip d2).all (fun xy => decide (xy.1.accs.map (·.name) = xy.2.accs.map (·.name)) &&
    (xy.1.accs.zip xy.2.accs).all (fun ab =>
      if (xy.1.name, ab.1.name) ∈ touched then decide ({ ab.1 with datainfo := ab.2.datainfo } = ab.2) else decide (ab.1 = ab.2)))

end Frappy.Spec.C06
