import FrappyModel.Small.Persist
import FrappyModel.Small.PersistPlace
/-
C17 — Persistent parameters: crash-atomic, exact round trip, retried after failure.

Specification only: `Prop`s written from the statement, and Boolean monitors the driver evaluates on
what was recorded from the real implementation (directory snapshots after every file operation,
operation logs, restored values).
-/
namespace Frappy.Spec.C17
open Frappy.Persist

/-! ## "the file on disk is a complete snapshot - the previous one or the new one - never partial or empty" -/

/-- `file`: content of the persistent-parameter file at some moment (`none` = no such file),
`old`: its content before the save began, `new`: the complete text of the snapshot being saved. -/
def CompleteSnapshot (file old : Option Bytes) (new : Bytes) : Prop :=
  file = old ∨ file = some new

instance (file old : Option Bytes) (new : Bytes) : Decidable (CompleteSnapshot file old new) := by
  unfold CompleteSnapshot; infer_instance

section fs
variable {P : Type} [DecidableEq P]

/-- "for every crash point": whatever prefix of the operations of a save (with or without an I/O
failure in it) has happened when the process dies, the file is a complete snapshot -/
def CrashSafe (fs : FS P) (tgt : P) (new : Bytes) (evs : List (Ev P)) : Prop :=
  ∀ p, p <+: evs → CompleteSnapshot (applyEvs fs p tgt) (fs tgt) new

/-- "for every I/O failure during saving": after the call returned (normally or with the error) the file
is a complete snapshot and nothing else was left behind in the place of the temporary file -/
def FaultSafe (fs : FS P) (tgt tmp : P) (new : Bytes) (evs : List (Ev P)) : Prop :=
  CompleteSnapshot (applyEvs fs evs tgt) (fs tgt) new ∧ applyEvs fs evs tmp = none

end fs

/-- monitor: the recorded contents of the file after 0, 1, 2, … operations of one save;
`none` = fine, `some i` = first moment at which the file is neither the old nor the new snapshot -/
def judgeSnapshots (old : Option Bytes) (new : Bytes) : List (Option Bytes) → Nat → Option Nat
  | [], _ => none
  | s :: rest, i => if decide (CompleteSnapshot s old new) then judgeSnapshots old new rest (i + 1) else some i

/-- monitor: directory listing after a save call returned: nothing but the file itself -/
def noLitterB (target : String) (listing : List String) : Bool :=
  listing.all (· == target)

/-! ## "a save that failed is attempted again by the next save instead of being considered done" -/

/-- Two consecutive calls saving the same values: the first hit an I/O failure, the second runs on a healthy
file system.  `mid`, `fin`: the file after the first resp. second call; `ops2`: number of file operations of the
second call.  If the first call did not get the snapshot onto the disk, the second one works again (performs
operations) and the snapshot is on disk afterwards. -/
def Retried (new : Bytes) (mid fin : Option Bytes) (ops2 : Nat) : Prop :=
  (mid ≠ some new → 0 < ops2) ∧ fin = some new

instance (new : Bytes) (mid fin : Option Bytes) (ops2 : Nat) : Decidable (Retried new mid fin ops2) := by
  unfold Retried; infer_instance

def retriedB (new : Bytes) (mid fin : Option Bytes) (ops2 : Nat) : Bool := decide (Retried new mid fin ops2)

/-! ## "loading after saving restores every persistent parameter … to an equal value" -/

/-- `saved`: the persistent parameters and their values when the snapshot was taken,
`restored`: name ↦ value of the re-created module -/
def Restores {V : Type} (saved restored : List (String × V)) : Prop :=
  ∀ n v, (n, v) ∈ saved → restored.lookup n = some v

def restoresB {V : Type} [DecidableEq V] (saved restored : List (String × V)) : Bool :=
  saved.all (fun e => decide (restored.lookup e.1 = some e.2))

/-! ## "values given in the configuration take precedence over stored ones; … unusable entries are ignored
individually and defaults apply" -/

/-- the usable stored value of parameter `name`: the file is readable, is a JSON object, has an entry for
`name`, `name` is a persistent parameter and the datatype accepts the entry -/
def storedValue {N V : Type} (parse : Bytes → Option (JV N)) (imp : String → JV N → Option V)
    (persistent : String → Bool) (file : Option Bytes) (name : String) : Option V :=
  match file.bind parse with
  | some (.obj kv) => if persistent name then (kv.lookup name).bind (imp name) else none
  | _ => none

/-- value a parameter must have after start-up: `init` is the configured value if `given`, else the default -/
def expectedStart {V : Type} (given : Bool) (init : V) (stored : Option V) : V :=
  if given then init else
    match stored with
    | some v => v
    | none => init

/-- one parameter as observed at a start-up -/
structure StartObs (V : Type) where
  name : String
  persistent : Bool
  given : Bool
  init : V            -- configured value, or default when none was configured
  actual : V          -- value after start-up

def Precedence {N V : Type} (parse : Bytes → Option (JV N)) (imp : String → JV N → Option V)
    (file : Option Bytes) (obs : List (StartObs V)) : Prop :=
  ∀ o ∈ obs, o.actual =
    expectedStart o.given o.init
      (storedValue parse imp (fun n => obs.any (fun q => q.name == n && q.persistent)) file o.name)

/-- monitor: names of the parameters whose start-up value is not the one the statement prescribes -/
def judgeStart {N V : Type} [DecidableEq V] (parse : Bytes → Option (JV N)) (imp : String → JV N → Option V)
    (file : Option Bytes) (obs : List (StartObs V)) : List String :=
  (obs.filter (fun o => !decide (o.actual =
    expectedStart o.given o.init
      (storedValue parse imp (fun n => obs.any (fun q => q.name == n && q.persistent)) file o.name)))).map (·.name)

/-! ## reloading in a running module (`loadParameters()`, the reaction to a power cycle of the hardware)

The two clauses "loading after saving restores every persistent parameter … to an equal value" and "values given in
the configuration take precedence over stored ones" also bind the second loader of the code.  They are stated over
what can be observed of one run of a module: the file when `loadParameters()` is called, the value of every parameter
before and after the call, and the values it has had since the end of start-up. -/

/-- one parameter as observed at a reload -/
structure ReloadObs (V : Type) where
  name : String
  persistent : Bool
  hasWrite : Bool         -- a loaded value goes to the hardware through `write_<name>`, which may refuse it
  before : V              -- value when `loadParameters()` was called
  held : List V           -- every value the parameter has had in this run: at the end of start-up and after each later action
  actual : V              -- value after the call

/-- what a reload must make of one parameter: a usable stored value is restored — unless the write path to the
hardware refuses it (`wval = none`), then the parameter keeps its value.  An unusable or missing entry gives the
parameter nothing (what else may happen to it then — a pending write of a configured value, say — is not a matter of
persistence; `ReloadFromThisRun` still binds the value). -/
def ReloadedTo {V : Type} (wval : String → V → Option V) (o : ReloadObs V) (stored : Option V) : Prop :=
  match stored with
  | some v => o.actual = v ∨ (o.hasWrite = true ∧ wval o.name v = none ∧ o.actual = o.before)
  | none => True

instance {V : Type} [DecidableEq V] (wval : String → V → Option V) (o : ReloadObs V) (stored : Option V) :
    Decidable (ReloadedTo wval o stored) := by
  unfold ReloadedTo; split <;> infer_instance

/-- "loading restores every persistent parameter to an equal value; unusable entries are ignored individually" -/
def ReloadRestores {N V : Type} (parse : Bytes → Option (JV N)) (imp : String → JV N → Option V)
    (wval : String → V → Option V) (file : Option Bytes) (obs : List (ReloadObs V)) : Prop :=
  ∀ o ∈ obs, o.persistent = true →
    ReloadedTo wval o (storedValue parse imp (fun n => obs.any (fun q => q.name == n && q.persistent)) file o.name)

/-- "values given in the configuration take precedence over stored ones", for the whole run: what start-up decided
(configured value, else stored value, else default) is the first element of `held`; a reload may bring back a value
of this run, never one that only a previous run had stored -/
def ReloadFromThisRun {V : Type} (obs : List (ReloadObs V)) : Prop :=
  ∀ o ∈ obs, o.persistent = true → o.actual ∈ o.held

/-- monitor: names of the persistent parameters a reload did not restore as prescribed -/
def judgeReloadRestores {N V : Type} [DecidableEq V] (parse : Bytes → Option (JV N)) (imp : String → JV N → Option V)
    (wval : String → V → Option V) (file : Option Bytes) (obs : List (ReloadObs V)) : List String :=
  (obs.filter (fun o => o.persistent && !decide (ReloadedTo wval o
    (storedValue parse imp (fun n => obs.any (fun q => q.name == n && q.persistent)) file o.name)))).map (·.name)

/-- monitor: names of the persistent parameters to which a reload gave a value they never had in this run -/
def judgeReloadFromThisRun {V : Type} [DecidableEq V] (obs : List (ReloadObs V)) : List String :=
  (obs.filter (fun o => o.persistent && !decide (o.actual ∈ o.held))).map (·.name)

/-! ## where the file lives: "a missing … file never prevents start-up", "loading after saving restores …"

The statement speaks of *the* persistent-parameter file.  Which file that is follows from the equipment id and the
module name (`persistentFile`), and the directories on the way to it may not exist - at the first start (an equipment id
with a `/` puts the file into a subdirectory nobody has created), or no longer (the tree is removed while the server
runs).  A directory that is missing is a file that is missing: it must not prevent start-up, and a save that meets no I/O
failure must leave its snapshot in place all the same. -/

/-- what can be seen of one call (start-up, or an action of a running module) that met no I/O failure: did it raise,
how many file operations it performed, and every regular file below the log directory afterwards, with its content -/
structure PlaceObs where
  raised : Bool
  ops : Nat
  tree : List (Path × Bytes)

/-- the snapshot `new` is in place: complete, at the path derived from equipment id and module name, and nothing else
is in the tree -/
def InPlace (eq mod : String) (new : Bytes) (tree : List (Path × Bytes)) : Prop :=
  tree.lookup (persistentFile eq mod) = some new ∧ ∀ e ∈ tree, e.1 = persistentFile eq mod

instance (eq mod : String) (new : Bytes) (tree : List (Path × Bytes)) : Decidable (InPlace eq mod new tree) := by
  unfold InPlace; infer_instance

/-- a call that meets no I/O failure does not fail, whatever directories exist; and if it touched the file system at
all (it had something to save) the new snapshot is in place afterwards.  (A call that wrongly touches nothing is the
business of `Restores`: the file then does not give back the values.) -/
def SavedWherever (eq mod : String) (new : Bytes) (o : PlaceObs) : Prop :=
  o.raised = false ∧ (0 < o.ops → InPlace eq mod new o.tree)

instance (eq mod : String) (new : Bytes) (o : PlaceObs) : Decidable (SavedWherever eq mod new o) := by
  unfold SavedWherever; infer_instance

/-- monitor -/
def savedWhereverB (eq mod : String) (new : Bytes) (o : PlaceObs) : Bool := decide (SavedWherever eq mod new o)

/-- the listing of a model file system over the paths `ps` (what the harness records of the real tree) -/
def treeOf (fs : FS Path) (ps : List Path) : List (Path × Bytes) :=
  ps.filterMap (fun p => (fs p).map (fun b => (p, b)))

/-- monitor, for the report: the files of the tree that are not the persistent file -/
def strayFiles (eq mod : String) (tree : List (Path × Bytes)) : List Path :=
  (tree.filter (fun e => !decide (e.1 = persistentFile eq mod))).map (·.1)

end Frappy.Spec.C17
