import FrappyModel.Client.Cache
/-
C12 — Client cache and callbacks mirror the node end to end.

Specification only: `Prop`s written from the statement, and Boolean monitors (`judge…`) that the driver
evaluates on traces recorded from the real implementation.

Vocabulary of the statement, as used below
  * the messages "for a parameter": `update`, `error_update`, `reply`, `changed`, `error_read`
    whose specifier denotes the parameter — its identifier from the description, or the bare module
    name standing for `<module>:value` (`<module>:target` in a `changed` message);
  * "the import of a message": the value imported with the parameter's datatype from the description
    (oracle `imp`) resp. the rebuilt error — the reported error class (the generic `InternalError` for a
    class the tables do not know) and the reported text — plus a time stamp that is the message's own `t`
    unless that lies in the future of the clock reading at arrival, in which case (or when there is none)
    it is that clock reading;
  * a message that cannot be imported (malformed data, unusable `t`, value refused by the datatype),
    a message for something that is not a parameter of the description, and garbage change nothing;
  * "registered": registered and since then neither unregistered (from outside or by a callback calling
    `unregister_callback`) nor self-removed by raising `UnregisterCallback`; a callback registered twice counts
    twice.  A registration that a callback removes *while a message is being dispatched* may or may not see that
    message (never more than once); every other registration sees it exactly once.
-/
namespace Frappy.Spec.C12
open Frappy.Client.Cache

/-! ## Which messages, which parameter -/

def cacheActions : List Str :=
  [['u','p','d','a','t','e'], ['e','r','r','o','r','_','u','p','d','a','t','e'], ['r','e','p','l','y'],
   ['c','h','a','n','g','e','d'], ['e','r','r','o','r','_','r','e','a','d']]

def errorActions : List Str :=
  [['e','r','r','o','r','_','u','p','d','a','t','e'], ['e','r','r','o','r','_','r','e','a','d']]

def changedAction : Str := ['c','h','a','n','g','e','d']

/-- the accessible a bare module name stands for -/
def defaultAcc (action : Str) : Str :=
  if action = changedAction then ['t','a','r','g','e','t'] else ['v','a','l','u','e']

/-- the parameter a specifier denotes in a message of kind `action` (identifiers come from the description) -/
def denoted (mp : Maps) (action : Str) (ident : Option Str) : Option (Str × Str) :=
  match ident with
  | none => none
  | some i =>
    if i = ['.'] then none
    else match dictGet mp.internal i with
      | some r => some r
      | none => if ':' ∈ i then none else dictGet mp.internal (i ++ ':' :: defaultAcc action)

/-! ## The import of a message -/

/-- the time stamp kept for a message that arrives at clock reading `now` -/
def Stamp (now : Int) (tq : TQ) (ts : Int) : Prop :=
  match tq with
  | .absent => ts = now
  | .num t => (t ≤ now ∧ ts = t) ∨ (now < t ∧ ts = now)
  | .nan => ts = now
  | .bad => False

instance (now : Int) (tq : TQ) (ts : Int) : Decidable (Stamp now tq ts) := by
  unfold Stamp; split <;> infer_instance

/-- the error class a report of class `cls` has to come back with: the class itself when the tables know it
(the name of the class registered for it, which for the aliases `SyntaxError`, `Protocol`, `Internal` is the
proper name), the generic `InternalError` otherwise -/
def canonName (t : Tables) (cls : Option Str) : Str :=
  match cls.bind (dictGet t.name2class) with
  | some c => nameOfClass t c
  | none => nameOfClass t t.internalError

/-- the reported text survives: the error formats to it (a single final newline may be lost) -/
def TextKept (text fmt : Str) : Prop := fmt = text ∨ text = fmt ++ ['\n']

instance (text fmt : Str) : Decidable (TextKept text fmt) := by unfold TextKept; infer_instance

/-- what the specification needs from the tables (checked by `decide` on the generated ones) -/
def TablesOk (t : Tables) : Prop :=
  (∀ a ∈ t.updateMessages, a ∈ cacheActions) ∧ (∀ a ∈ cacheActions, a ∈ t.updateMessages) ∧
  (∀ a ∈ cacheActions, t.errorPrefix.isPrefixOf a = errorActions.contains a) ∧
  t.writeReply = changedAction ∧
  -- every class registered for an error name is a known class and is the class registered for its own name
  (∀ e ∈ t.name2class, (dictGet t.clsname2name e.2).isSome ∧ dictGet t.name2class (nameOfClass t e.2) = some e.2) ∧
  (dictGet t.clsname2name t.internalError).isSome ∧
  dictGet t.name2class (nameOfClass t t.internalError) = some t.internalError

instance (t : Tables) : Decidable (TablesOk t) := by unfold TablesOk; infer_instance

/-- `e` is the error of the report `[cls, text, …]`, rebuilt -/
def Rebuilt (t : Tables) (cls : Option Str) (text : Str) (e : ErrObj) : Prop :=
  e.name = canonName t cls ∧ dictGet t.clsname2name e.pycls = some e.name ∧ TextKept text (formatErr t e)

instance (t : Tables) (cls : Option Str) (text : Str) (e : ErrObj) : Decidable (Rebuilt t cls text e) := by
  unfold Rebuilt; infer_instance

variable {J V : Type}

/-- `item` is the import of the data part `data` of a message of kind `action` for parameter `(m, p)` at `now` -/
def Imports (t : Tables) (imp : Str → Str → J → Option V) (now : Int) (action m p : Str)
    (data : Data J) (item : Item V) : Prop :=
  match data, item.content with
  | .value j tq, .value v => action ∉ errorActions ∧ imp m p j = some v ∧ Stamp now tq item.ts
  | .report cls text tq, .error e => action ∈ errorActions ∧ Rebuilt t cls text e ∧ Stamp now tq item.ts
  | _, _ => False

instance [DecidableEq V] (t : Tables) (imp : Str → Str → J → Option V) (now : Int) (action m p : Str)
    (data : Data J) (item : Item V) : Decidable (Imports t imp now action m p data item) := by
  unfold Imports; split <;> infer_instance

/-- the message is one of the five kinds, denotes parameter `(m, p)` of the description, and imports to `item` -/
def Effective (t : Tables) (mp : Maps) (imp : Str → Str → J → Option V) (now : Int) (msg : Msg J)
    (m p : Str) (item : Item V) : Prop :=
  msg.action ∈ cacheActions ∧ denoted mp msg.action msg.ident = some (m, p) ∧ mp.isParam m p = true ∧
    Imports t imp now msg.action m p msg.data item

/-- can the data part be imported at all -/
def importable (imp : Str → Str → J → Option V) (action m p : Str) : Data J → Bool
  | .value j tq => !(errorActions.contains action) && (imp m p j).isSome && tq != .bad
  | .report _ _ tq => errorActions.contains action && tq != .bad
  | .malformed => false

/-- the parameter a line changes, if any -/
def effectiveFor (mp : Maps) (imp : Str → Str → J → Option V) : Line J → Option (Str × Str)
  | .garbage => none
  | .msg msg =>
    if cacheActions.contains msg.action then
      match denoted mp msg.action msg.ident with
      | some (m, p) => if mp.isParam m p && importable imp msg.action m p msg.data then some (m, p) else none
      | none => none
    else none

/-! ## Cache clause over histories -/

/-- no line of `evs` is an importable message for `(m, p)` -/
def NoEffective (t : Tables) (mp : Maps) (imp : Str → Str → J → Option V) (evs : List (Ev J)) (m p : Str) : Prop :=
  ∀ now msg, Ev.line now (.msg msg) ∈ evs → ∀ item : Item V, ¬ Effective t mp imp now msg m p item

/-- first sentence of C12, cache part: after any history the entry of every parameter is the import of the last
message for it (and untouched when there was none) -/
def CacheMirrors (t : Tables) (mp : Maps) (imp : Str → Str → J → Option V) (evs : List (Ev J))
    (c0 cN : Cache V) : Prop :=
  ∀ m p, (NoEffective t mp imp evs m p ∧ dictGet cN (m, p) = dictGet c0 (m, p)) ∨
    ∃ pre now msg post item, evs = pre ++ Ev.line now (.msg msg) :: post ∧ Effective t mp imp now msg m p item ∧
      NoEffective t mp imp post m p ∧ dictGet cN (m, p) = some item

/-! ## Callback clause -/

/-- the three levels a message for `(m, p)` concerns -/
def levels (m p : Str) : List Key := [.node, .module m, .param m p]

/-- one block: every call carries the message's parameter and item, and every live registration of the three
levels is called exactly once (a callback registered `n` times, `n` times) — except that a registration which one of
the callbacks of this very block unregisters may miss the message (it is never called more often) -/
def BlockOnce (behave : Call V → Outcome) (live : List Reg) (m p : Str) (item : Item V) (block : List (Call V)) : Prop :=
  (∀ c ∈ block, c.m = m ∧ c.p = p ∧ c.item = item ∧ c.reg.key ∈ levels m p) ∧
  ∀ r : Reg, r.key ∈ levels m p → (block.map (·.reg)).count r ≤ live.count r ∧
    ((∀ c ∈ block, r ∉ (behave c).removes) → (block.map (·.reg)).count r = live.count r)

/-- the cached entries a registration under `key` is told about at once -/
def concerned (key : Key) (e : (Str × Str) × Item V) : Bool :=
  match key with
  | .node => true
  | .module m => e.1.1 == m
  | .param m p => e.1 == (m, p)

/-- the call that tells registration `r` about cache entry `e` -/
def callOf (r : Reg) (e : (Str × Str) × Item V) : Call V := ⟨r, e.1.1, e.1.2, e.2⟩

/-- calls of a fresh registration `r`: exactly one per cached entry concerned, with that entry (any order) -/
def ImmediateOnce (cache : Cache V) (r : Reg) (block : List (Call V)) : Prop :=
  block.Perm ((cache.filter (concerned r.key)).map (callOf r))

/-- registrations alive after an event, given the calls it caused -/
def liveAfter (behave : Call V → Outcome) (live : List Reg) (ev : Ev J) (block : List (Call V)) : List Reg :=
  match ev with
  | .register r =>
    let live' := block.foldl (fun l c => applyRemoves l (behave c).removes) live
    if block.all (fun c => (behave c).result != .unregister) then live' ++ [r] else live'
  | .unregister r => live.erase r
  | .line _ _ => block.foldl (afterCall behave) live

/-- same contents (caches are maps) -/
def SameCache (c c' : Cache V) : Prop := ∀ k, dictGet c k = dictGet c' k

/-- what one event may do: `c`/`c'` cache before/after, `block` the callback calls it causes -/
def StepOk (t : Tables) (mp : Maps) (imp : Str → Str → J → Option V) (behave : Call V → Outcome) (c : Cache V)
    (live : List Reg) (ev : Ev J) (block : List (Call V)) (c' : Cache V) : Prop :=
  match ev with
  | .line now l =>
    match effectiveFor mp imp l, l with
    | some (m, p), .msg msg =>
      ∃ item, dictGet c' (m, p) = some item ∧ Effective t mp imp now msg m p item ∧
        (∀ k, k ≠ (m, p) → dictGet c' k = dictGet c k) ∧ BlockOnce behave live m p item block
    | _, _ => SameCache c c' ∧ block = []
  | .register r => SameCache c c' ∧ ImmediateOnce c r block
  | .unregister _ => SameCache c c' ∧ block = []

/-- first sentence of C12 over a whole history: `steps` lists, in arrival order, each event with the block of
callback calls it caused and the cache after it -/
inductive Mirrors (t : Tables) (mp : Maps) (imp : Str → Str → J → Option V) (behave : Call V → Outcome) :
    Cache V → List Reg → List (Ev J × List (Call V) × Cache V) → Prop
  | nil (c live) : Mirrors t mp imp behave c live []
  | cons (c live ev block c' rest) : StepOk t mp imp behave c live ev block c' →
      Mirrors t mp imp behave c' (liveAfter behave live ev block) rest →
      Mirrors t mp imp behave c live ((ev, block, c') :: rest)

/-- the time-stamp clause alone: an item written for a line that arrived at `now` is not stamped later -/
def NotFuture (now : Int) (item : Item V) : Prop := item.ts ≤ now

/-! ## Monitors (run by the driver on recorded traces of the implementation) -/

section monitors
variable [DecidableEq V]

def keysOf (c : Cache V) : List (Str × Str) := c.map (·.1)

def sameCacheB (c c' : Cache V) : Bool :=
  (keysOf c ++ keysOf c').all (fun k => dictGet c k == dictGet c' k)

def blockOnceB (behave : Call V → Outcome) (live : List Reg) (m p : Str) (item : Item V) (block : List (Call V)) : Bool :=
  block.all (fun c => c.m == m && c.p == p && c.item == item && (levels m p).contains c.reg.key) &&
  (live ++ block.map (·.reg)).all (fun r => !(levels m p).contains r.key ||
    (decide ((block.map (·.reg)).count r ≤ live.count r) &&
      (block.any (fun c => (behave c).removes.contains r) || (block.map (·.reg)).count r == live.count r)))

def immediateOnceB (cache : Cache V) (r : Reg) (block : List (Call V)) : Bool :=
  block.isPerm ((cache.filter (concerned r.key)).map (callOf r))

def effectiveB (t : Tables) (mp : Maps) (imp : Str → Str → J → Option V) (now : Int) (msg : Msg J)
    (m p : Str) (item : Item V) : Bool :=
  decide (msg.action ∈ cacheActions) && decide (denoted mp msg.action msg.ident = some (m, p)) && mp.isParam m p &&
    decide (Imports t imp now msg.action m p msg.data item)

def stepOkB (t : Tables) (mp : Maps) (imp : Str → Str → J → Option V) (behave : Call V → Outcome) (c : Cache V)
    (live : List Reg) (ev : Ev J) (block : List (Call V)) (c' : Cache V) : Bool :=
  match ev with
  | .line now l =>
    match effectiveFor mp imp l, l with
    | some (m, p), .msg msg =>
      match dictGet c' (m, p) with
      | some item => effectiveB t mp imp now msg m p item &&
          (keysOf c ++ keysOf c').all (fun k => k == (m, p) || dictGet c' k == dictGet c k) &&
          blockOnceB behave live m p item block
      | none => false
    | _, _ => sameCacheB c c' && block.isEmpty
  | .register r => sameCacheB c c' && immediateOnceB c r block
  | .unregister _ => sameCacheB c c' && block.isEmpty

/-- `none` = the recorded history satisfies the first sentence of C12; `some i` = index of the first offending event -/
def judgeFrom (t : Tables) (mp : Maps) (imp : Str → Str → J → Option V) (behave : Call V → Outcome) (i : Nat)
    (c : Cache V) (live : List Reg) : List (Ev J × List (Call V) × Cache V) → Option Nat
  | [] => none
  | (ev, block, c') :: rest =>
    if stepOkB t mp imp behave c live ev block c' then judgeFrom t mp imp behave (i + 1) c' (liveAfter behave live ev block) rest
    else some i

def judge (t : Tables) (mp : Maps) (imp : Str → Str → J → Option V) (behave : Call V → Outcome)
    (steps : List (Ev J × List (Call V) × Cache V)) : Option Nat :=
  judgeFrom t mp imp behave 0 [] [] steps

/-- a caller of `readParameter` waking up after its error reply was processed is not a message: it must leave the
cache alone and call nobody (the receive loop has already done the update for the reply) -/
def wakeOkB (c : Cache V) (block : List (Call V)) (c' : Cache V) : Bool := sameCacheB c c' && block.isEmpty

end monitors

/-! ## End to end (second sentence) -/

/-- "reaches the driver equal to what the caller passed and comes back into the cache equal to what the driver
returned": `eqv` is value equality (Python `==`), `drv` the driver -/
def WriteMirrors (eqv : V → V → Prop) (drv : V → V) (v : V) (driverGot : Option V) (entry : Option (Item V)) : Prop :=
  ∃ v', driverGot = some v' ∧ eqv v' v ∧ ∃ r ts, entry = some ⟨.value r, ts⟩ ∧ eqv r (drv v')

/-- monitor of the second sentence on one observed write: `got` lists the values the driver's write function was
called with (exactly one call is expected), `returned` is what that call returned, `entry` the client's cache entry
afterwards; `eqb` decides value equality -/
def writeOkB (eqb : V → V → Bool) (v : V) (got : List V) (returned : V) (entry : Option (Item V)) : Bool :=
  match got, entry with
  | [v'], some ⟨.value r, _⟩ => eqb v' v && eqb r returned
  | _, _ => false

end Frappy.Spec.C12
