import FrappyModel.Client.Match
import FrappyModel.Client.Timed
import FrappyModel.Client.Shutdown
import FrappyModel.Client.Reconnect
import FrappyModel.Client.Conn
/-
C11 — Client: every caller gets its own reply or an error, under all interleavings; clean shutdown.

Specification only: `Prop`s over states / runs written from the statement, and the Boolean monitors the driver
evaluates on runs recorded from the real implementation.
-/
namespace Frappy.Spec.C11
open Frappy.Client.Match

section
variable {α : Type} [DecidableEq α]

/-- *The reply that answers a request* of a known action: same specifier, and the action is the reply action the
table gives for the request, or `error_<request action>`. -/
def Answers (tbl : List (α × α)) (r : Req α) (l : Line α) : Prop :=
  l.spec = r.spec ∧ ((l.err = false ∧ look tbl r.action = some l.action) ∨ (l.err = true ∧ l.action = r.action))

instance (tbl : List (α × α)) (r : Req α) (l : Line α) : Decidable (Answers tbl r l) := by
  unfold Answers; exact inferInstance

/-- For a request whose action the client does not know nothing can be read off the line: the reply that answers it
is the line the peer sent *in response to it*. -/
def AnswersOwn (tbl : List (α × α)) (e : Entry α) (l : Line α) : Prop :=
  if reqKey tbl e.req = none then l.re = some e.id else Answers tbl e.req l

instance (tbl : List (α × α)) (e : Entry α) (l : Line α) : Decidable (AnswersOwn tbl e l) := by
  unfold AnswersOwn; exact inferInstance

/-- no caller is woken without a reply - and no entry is on its way to that - unless the connection is being shut down
or was lost: a wake-up without a reply makes `get_reply` raise a connection error, which is in order only then.
(What an event shared between two entries of one thread would break: the reply to the older entry wakes the wait for
the newer one.) -/
def NoSpuriousRelease (s : St α) : Prop := s.closing = false → s.released = [] ∧ s.relHold = []

/-- every caller whose event was set with a reply got a reply that answers its own request -/
def ReplyMatches (tbl : List (α × α)) (s : St α) : Prop :=
  ∀ p ∈ s.delivered, AnswersOwn tbl p.1 p.2

/-- … restricted to requests of known actions -/
def ReplyMatchesKnown (tbl : List (α × α)) (s : St α) : Prop :=
  ∀ p ∈ s.delivered, reqKey tbl p.1.req ≠ none → Answers tbl p.1.req p.2

/-- no received line is handed to two callers -/
def NoDoubleDelivery (s : St α) : Prop := (s.delivered.map (·.2.seq)).Nodup

/-- a reply is handed over only after the request it answers was transmitted -/
def ReplyFresh (s : St α) : Prop := ∀ p ∈ s.delivered, p.1 ∈ s.wireOut

/-- a request is never left parked with its key free: its key is busy, or the connection is being closed
(then `disconnect` releases it) -/
def NoParking (tbl : List (α × α)) (s : St α) : Prop :=
  ∀ e ∈ s.pending, s.closing = true ∨ hasKey s.active (reqKey tbl e.req) = true

/-- where the client still knows a request: queued, taken by the tx thread, parked, filed, popped by the rx thread
(about to be delivered / about to be requeued), taken by a `disconnect` — or its caller is done with it: answered,
released, timed out -/
def whereabouts (s : St α) : List Nat :=
  s.txq.map (·.id) ++ (s.txHold.toList.map (·.id) ++ (s.pending.map (·.id) ++ (s.active.map (·.2.id)
    ++ (s.rxSet.toList.map (·.1.id) ++ (s.rxHold.map (·.id) ++ (s.relHold.map (·.id)
    ++ (s.delivered.map (·.1.id) ++ (s.released ++ s.timedOut))))))))

/-- no request is lost: every request a caller has queued is still somewhere in the client's machinery, or its caller
has got a reply, was released, or ran into its time-out.  (A caller whose request is in none of these places can only
end by time-out, whatever the peer answers.) -/
def NoLostRequest (s : St α) : Prop := ∀ i, i < s.nextId → i ∈ whereabouts s

instance (s : St α) : Decidable (NoLostRequest s) := by
  unfold NoLostRequest; exact Nat.decidableBallLT _ _

instance (tbl : List (α × α)) (s : St α) : Decidable (ReplyMatches tbl s) := by unfold ReplyMatches; exact inferInstance
instance (tbl : List (α × α)) (s : St α) : Decidable (ReplyMatchesKnown tbl s) := by
  unfold ReplyMatchesKnown; exact inferInstance
instance (s : St α) : Decidable (NoDoubleDelivery s) := by unfold NoDoubleDelivery; exact inferInstance
instance (s : St α) : Decidable (ReplyFresh s) := by unfold ReplyFresh; exact inferInstance
instance (tbl : List (α × α)) (s : St α) : Decidable (NoParking tbl s) := by unfold NoParking; exact inferInstance

/-- nothing is left to release and nobody was forgotten: what `disconnect` has to achieve -/
def AllReleased (s : St α) (ids : List Nat) : Prop :=
  s.active = [] ∧ s.pending = [] ∧ s.txq = [] ∧ s.relHold = [] ∧
    ∀ i ∈ ids, i ∈ s.released ∨ i ∈ s.delivered.map (·.1.id)

/-! ### monitors -/
def replyMatchesB (tbl : List (α × α)) (s : St α) : Bool := decide (ReplyMatches tbl s)
def replyMatchesKnownB (tbl : List (α × α)) (s : St α) : Bool := decide (ReplyMatchesKnown tbl s)
def noDoubleDeliveryB (s : St α) : Bool := decide (NoDoubleDelivery s)
def noParkingB (tbl : List (α × α)) (s : St α) : Bool := decide (NoParking tbl s)

theorem replyMatchesB_iff (tbl : List (α × α)) (s : St α) : replyMatchesB tbl s = true ↔ ReplyMatches tbl s := by
  simp [replyMatchesB]
theorem replyMatchesKnownB_iff (tbl : List (α × α)) (s : St α) :
    replyMatchesKnownB tbl s = true ↔ ReplyMatchesKnown tbl s := by simp [replyMatchesKnownB]
omit [DecidableEq α] in
theorem noDoubleDeliveryB_iff (s : St α) : noDoubleDeliveryB s = true ↔ NoDoubleDelivery s := by
  simp [noDoubleDeliveryB]
theorem noParkingB_iff (tbl : List (α × α)) (s : St α) : noParkingB tbl s = true ↔ NoParking tbl s := by
  simp [noParkingB]

def noLostB (s : St α) : Bool := decide (NoLostRequest s)

omit [DecidableEq α] in
theorem noLostB_iff (s : St α) : noLostB s = true ↔ NoLostRequest s := by simp [noLostB]

/-- index of the first state of an observed run in which a request is lost -/
def firstLost : List (St α) → Nat → Option Nat
  | [], _ => none
  | s :: rest, i => if noLostB s then firstLost rest (i + 1) else some i

/-- index of the first state of an observed run in which a request is parked with its key free -/
def firstParked (tbl : List (α × α)) : List (St α) → Nat → Option Nat
  | [], _ => none
  | s :: rest, i => if noParkingB tbl s then firstParked tbl rest (i + 1) else some i

/-! ### per-caller outcomes of a recorded run

What the harness saw for the caller that created entry `id`: how its `request()` ended, and between which labels of
the run (`putAt` = index of its `put`, `endAt` = number of labels recorded when it returned; times in ms). -/
inductive Outcome where
  | reply (seq : Nat)     -- returned the line with this sequence number
  | secopError (seq : Nat) -- raised the SECoP error carried by this error line
  | connError             -- ConnectionError / CommunicationFailedError
  | timeout
  | other                 -- any other exception, or did not return
  | laterConn             -- its request was queued only after the client had connected anew (the matching model and
                          -- its monitors are about one connection; such a caller is judged by the time bound only)
  deriving DecidableEq, Repr

structure CallerObs where
  id : Nat
  out : Outcome
  putAt : Nat
  endAt : Nat
  tPut : Nat
  tEnd : Nat
  deriving Repr

/-- verdict on one caller; `closedAt` = label indices at which some `disconnect()` call had completed,
`waitMs` = the longest a caller may wait (put time-out + reply time-out), `putClosing` = the connection was already
being shut down (or was shut down) when the caller queued its request: such a caller must be released like one that
was waiting when the shutdown began, it must not sit out its time-out -/
inductive Verdict where
  | ok
  | wrongReply        -- returned a line that was not handed to its entry / does not answer its request
  | notReleased       -- timed out although a disconnect completed while it was waiting
  | spuriousConnError -- connection error without any disconnect
  | late              -- waited longer than the time-out
  | raised            -- ended with an unexpected exception
  | needlessTimeout   -- timed out although the reply to its own request was readable well before the time-out ran out
  deriving DecidableEq, Repr

/-- a line the peer made readable on the live connection, and from when on (ms after the start of the scenario) the
client could have read it -/
structure Arrival (α : Type) where
  line : Line α
  readyMs : Nat
  deriving Repr

/-- "for any order and timing in which replies arrive every caller receives the reply that answers its own request":
the caller of entry `e`, who began its request at `tPut` and gave up when its reply time-out `replyMs` had run out, was
let down when a line that the peer sent in response to this very request, that answers it and that reaches the matching
code (`event = false`) was readable at least `marginMs` before the time-out ran out - whatever the rx thread was doing
instead of reading it. -/
def NeedlessTimeout (tbl : List (α × α)) (e : Entry α) (tPut replyMs marginMs : Nat) (arr : List (Arrival α)) : Prop :=
  ∃ a ∈ arr, a.line.re = some e.id ∧ AnswersOwn tbl e a.line ∧ a.line.event = false ∧ a.readyMs + marginMs ≤ tPut + replyMs

instance (tbl : List (α × α)) (e : Entry α) (tPut replyMs marginMs : Nat) (arr : List (Arrival α)) :
    Decidable (NeedlessTimeout tbl e tPut replyMs marginMs arr) := by
  unfold NeedlessTimeout; exact inferInstance

def needlessTimeoutB (tbl : List (α × α)) (e : Entry α) (tPut replyMs marginMs : Nat) (arr : List (Arrival α)) : Bool :=
  decide (NeedlessTimeout tbl e tPut replyMs marginMs arr)

theorem needlessTimeoutB_iff (tbl : List (α × α)) (e : Entry α) (tPut replyMs marginMs : Nat) (arr : List (Arrival α)) :
    needlessTimeoutB tbl e tPut replyMs marginMs arr = true ↔ NeedlessTimeout tbl e tPut replyMs marginMs arr := by
  simp [needlessTimeoutB]

def judgeCaller (tbl : List (α × α)) (final : St α) (closedAt : List Nat) (everClosing : Bool) (waitMs : Nat)
    (putClosing : Bool) (c : CallerObs) (needless : Bool := false) : Verdict :=
  if c.tEnd > c.tPut + waitMs then .late else
  match c.out with
  | .reply q | .secopError q =>
    match final.delivered.find? (fun p => p.1.id == c.id) with
    | some p => if p.2.seq = q ∧ AnswersOwn tbl p.1 p.2 then .ok else .wrongReply
    | none => .wrongReply
  | .connError => if everClosing then .ok else .spuriousConnError
  | .timeout => if putClosing || closedAt.any (fun k => c.putAt < k ∧ k ≤ c.endAt) then .notReleased
                else if needless then .needlessTimeout else .ok
  | .other => .raised
  | .laterConn => .ok

end

section
open Frappy.Client.Timed
variable {α : Type} [DecidableEq α]

/-- no caller waits longer than its time-out: on the model clock every caller has returned (or raised) by
`t_put + put time-out + reply time-out`; a caller still inside `request()` is within that bound -/
def WaitBounded (cfg : Cfg) (s : TSt α) : Prop :=
  ∀ c ∈ s.callers,
    match c.phase with
    | .done tEnd _ => tEnd ≤ c.tPut + cfg.putMs + cfg.waitMs
    | _ => s.now ≤ c.tPut + cfg.putMs + cfg.waitMs

/-- a caller that returned with its event set returned no later than the moment … it was woken: nothing to say;
a caller that is waiting has an entry the base model knows -/
def CallersKnown (s : TSt α) : Prop :=
  ∀ c ∈ s.callers, ∀ e tW, c.phase = .waiting e tW → e < s.base.nextId

end

section
open Frappy.Client.Shutdown

/-- the tx thread waits for the rx thread to end while the rx thread waits for the tx thread to end -/
def JoinCycle (s : Sh) : Prop := s.tx = .disc .d8 ∧ s.rx = .disc .d5

/-- a worker thread waits for its own end -/
def SelfJoin (s : Sh) : Prop := s.tx = .disc .d5 ∨ s.rx = .disc .d8

/-- the shutdown cannot get stuck: once a shutdown is requested (`_running` is false), as long as a worker thread or
a thread inside `disconnect()` has not finished, one of these threads can take its next step -/
def ShutdownProgress (s : Sh) : Prop := s.running = false → allDone s = false → canMove s = true

end

/-! ### the shutdown clauses on the life-cycle model (connect / reconnect / disconnect across connections) -/
section
open Frappy.Client.Reconnect

/-- "The client stays shut down": as long as the shutdown request of a `disconnect()` that a user called and that has
returned stands — the flag has not been cleared since, i.e. no user has asked for the connection again, and no request of a
user was about to establish a connection when it was made — the client holds no connection, and no thread is at a point
from which it would establish one without looking at the flag again. -/
def StaysShutDown (s : St) : Prop :=
  ∀ (u : Nat) (U : Th), s.th[u]? = some U → U.kind = .userDisc → U.pc = .done → standing s U = true →
    s.io = none ∧ ∀ (i : Nat) (t : Th), s.th[i]? = some t → inWindow t = false

/-- … and no worker thread is left in its loop -/
def inLoop (t : Th) : Bool :=
  (t.kind == .txw && (t.pc == .tgate || t.pc == .tcheck || t.pc == .tgetq || t.pc == .tget || t.pc == .tproc || t.pc == .tsend))
  || (t.kind == .rxw && (t.pc == .rgate || t.pc == .rcheck || t.pc == .rio || t.pc == .rread || t.pc == .rhbq || t.pc == .rhb))

def NoWorkerInLoop (s : St) : Prop :=
  ∀ (u : Nat) (U : Th), s.th[u]? = some U → U.kind = .userDisc → U.pc = .done → standing s U = true →
    ∀ (i : Nat) (t : Th), s.th[i]? = some t → inLoop t = false

/-- … which cannot hold at the very moment the `disconnect()` returns (a `connect()` of a user that had assigned `self.io`
before the flag was set still registers its workers; they end by themselves when the rx thread finds `self.io` gone), so
the clause is: the worker threads run out — left to themselves, after some number of steps none is alive -/
def WorkersRunOut (cfg : Cfg) (s : St) : Prop :=
  ∀ (u : Nat) (U : Th), s.th[u]? = some U → U.kind = .userDisc → U.pc = .done → standing s U = true →
    ∃ n, workersAlive (runGreedy cfg n s) = []

/-- a reconnect thread does not revoke a shutdown request: when it comes to `_shutdown.clear()` in `connect()` it finds
itself registered and leaves the flag alone -/
def ReconnectKeepsFlag (s : St) : Prop :=
  ∀ (i : Nat) (t : Th), s.th[i]? = some t → t.kind = .recon → t.pc = .c2 → s.registered.contains i = true

/-- monitor for the hang of `disconnect()`: some thread waits in `txthread.join()` for a tx thread that sits in `txq.get()` on
an empty queue, the connection is healthy and `_running` is set, and every other thread has finished or is the rx thread
polling: nobody is left who would put the marker -/
def txJoinHangs (s : St) : Bool :=
  let idx := List.range s.th.length
  s.running && (match s.io with | some c => !connDead s c | none => false) &&
  idx.any (fun u => match s.th[u]? with
    | some U => U.pc == .d5 && (match U.w with
      | some x => (match s.th[x]? with
        | some X => X.kind == .txw && X.pc == .tget && (queueOf s X.q).isEmpty
            && idx.all (fun i => i == u || i == x || (match s.th[i]? with
                | some t => t.pc == .done || (t.kind == .rxw && (t.pc == .rcheck || t.pc == .rio || t.pc == .rread))
                | none => true))
        | none => false)
      | none => false)
    | none => false)

end

/-- what the harness saw at the end of a run: exceptions that escaped worker threads, exceptions raised by
`disconnect()` calls, managed threads still alive after the final `disconnect()`, and whether the run dead-locked or
did not terminate -/
structure RunEnd where
  threadErrors : List String
  disconnectRaised : List String
  alive : List String
  deadlock : Bool
  unterminated : Bool
  deriving Repr

/-- the shutdown clause of the statement on one run: the shutdown completes without raising and leaves no worker
thread running -/
def ShutdownClean (r : RunEnd) : Prop :=
  r.threadErrors = [] ∧ r.disconnectRaised = [] ∧ r.alive = [] ∧ r.deadlock = false ∧ r.unterminated = false

instance (r : RunEnd) : Decidable (ShutdownClean r) := by unfold ShutdownClean; exact inferInstance

def shutdownCleanB (r : RunEnd) : Bool := decide (ShutdownClean r)

theorem shutdownCleanB_iff (r : RunEnd) : shutdownCleanB r = true ↔ ShutdownClean r := by simp [shutdownCleanB]

/-- what the harness saw some (virtual) time after a `disconnect()` called by the user had returned, before anything
else was asked of the client: whether a request of some caller was still in progress or was started after that
`disconnect()` began (a request connects anew: "a connect by the user revokes an earlier shutdown request"), the worker
threads (rx, tx, reconnect) still running, whether the client holds a connection -/
structure AfterShutdown where
  userActivity : Bool
  alive : List String
  connected : Bool
  deriving Repr

/-- the shutdown is final: unless the user asks for the connection again, the client stays shut down — no worker
thread running, not connected -/
def ShutdownFinal (a : AfterShutdown) : Prop := a.userActivity = false → a.alive = [] ∧ a.connected = false

instance (a : AfterShutdown) : Decidable (ShutdownFinal a) := by unfold ShutdownFinal; exact inferInstance

def shutdownFinalB (a : AfterShutdown) : Bool := decide (ShutdownFinal a)

theorem shutdownFinalB_iff (a : AfterShutdown) : shutdownFinalB a = true ↔ ShutdownFinal a := by simp [shutdownFinalB]

/-! ### the connection object: what the client relies on

The shutdown clauses of the statement ("completes without raising", "every waiting caller is released promptly") rest on
the connection object behaving as follows, whatever the peer did to the connection (orderly close, reset, close with
unread data) and in whatever order the client's threads call it. -/
section
open Frappy.Client.Conn

/-- what a trace prefix tells: lines the peer sent, lines `readline` returned, whether the peer ended the connection,
whether `shutdown()` / `disconnect()` were called, whether `readline` has raised `ConnectionClosed` -/
structure View where
  sent : Nat := 0
  got : Nat := 0
  peerEnded : Bool := false
  shut : Bool := false
  gone : Bool := false
  sawClosed : Bool := false
  deriving DecidableEq, Repr

def View.see (v : View) : Ev → View
  | .peerSend => { v with sent := v.sent + 1 }
  | .peerFin => { v with peerEnded := true }
  | .peerRst => { v with peerEnded := true }
  | .call .readline (.line _) => { v with got := v.got + 1 }
  | .call .readline .closed => { v with sawClosed := true }
  | .call .shutdown _ => { v with shut := true }
  | .call .disconnect _ => { v with gone := true }
  | _ => v

/-- the connection has ended and nothing is left to read -/
def View.dead (v : View) : Bool := (v.shut || v.peerEnded) && (v.got == v.sent || v.sawClosed)

/-- the line numbers `readline` handed out along a trace -/
def linesOf : List Ev → List Nat
  | [] => []
  | .call .readline (.line n) :: es => n :: linesOf es
  | _ :: es => linesOf es

/-- one call, made in the situation `v`, behaves as the client needs it:
* `shutdown()` and `disconnect()` return normally — always;
* `readline()` on a connection that was not disconnected raises nothing but `ConnectionClosed`, and that only when
  the connection has ended (peer closed / reset, or shut down locally); it returns only the next unread line the peer
  sent, in whatever segments and with whatever pauses its bytes arrived (`peerPart`); it returns `None` only when no
  complete line is waiting; on a dead connection it raises `ConnectionClosed` (it does not go on returning `None`: the
  rx thread would never notice);
* `send()` after `shutdown()` does not return normally (the tx thread notices). -/
def CallOk (v : View) : Op → Out → Prop
  | .shutdown, r => r = .ok
  | .disconnect, r => r = .ok
  | .readline, r =>
    v.gone = true ∨
      (match r with
       | .line n => n = v.got ∧ v.got < v.sent ∧ v.sawClosed = false
       | .nothing => v.dead = false ∧ v.got = v.sent
       | .closed => v.shut = true ∨ v.peerEnded = true
       | _ => False)
  | .send, r => v.gone = true ∨ v.shut = false ∨ r ≠ .ok

instance (v : View) (o : Op) (r : Out) : Decidable (CallOk v o r) := by
  unfold CallOk
  cases o <;> try exact inferInstance
  · cases r <;> exact inferInstance

/-- every call of the trace is `CallOk` in the situation in which it was made -/
def ConnContractFrom (v : View) : List Ev → Prop
  | [] => True
  | e :: es => (match e with | .call o r => CallOk v o r | _ => True) ∧ ConnContractFrom (v.see e) es

def ConnContract (tr : List Ev) : Prop := ConnContractFrom {} tr

/-- monitor: index of the first call of the trace that is not `CallOk` -/
def connFirstBad (v : View) : List Ev → Nat → Option Nat
  | [], _ => none
  | e :: es, i =>
    if (match e with | .call o r => decide (CallOk v o r) | _ => true) then connFirstBad (v.see e) es (i + 1)
    else some i

theorem connFirstBad_iff (v : View) (tr : List Ev) (i : Nat) :
    connFirstBad v tr i = none ↔ ConnContractFrom v tr := by
  induction tr generalizing v i with
  | nil => simp [connFirstBad, ConnContractFrom]
  | cons e es ih =>
    simp only [connFirstBad, ConnContractFrom]
    cases e with
    | call o r =>
      by_cases h : CallOk v o r
      · simp [h, ih]
      · simp [h]
    | peerSend => simp [ih]
    | peerPart => simp [ih]
    | peerFin => simp [ih]
    | peerRst => simp [ih]

end

/-! ### the client on a real connection (loopback TCP, real threads)

One caller has a request pending when the connection is lost (orderly close / reset / close with unread data) or shut
down by the user; `elapsedMs` is the real time between the loss and the return of `request()`. -/
structure Release where
  out : Outcome
  elapsedMs : Nat
  deriving Repr

/-- every waiting caller is released promptly with a connection error -/
def ReleasedPromptly (boundMs : Nat) (r : Release) : Prop := r.out = .connError ∧ r.elapsedMs ≤ boundMs

instance (b : Nat) (r : Release) : Decidable (ReleasedPromptly b r) := by unfold ReleasedPromptly; exact inferInstance

def releasedPromptlyB (b : Nat) (r : Release) : Bool := decide (ReleasedPromptly b r)

theorem releasedPromptlyB_iff (b : Nat) (r : Release) : releasedPromptlyB b r = true ↔ ReleasedPromptly b r := by
  simp [releasedPromptlyB]

end Frappy.Spec.C11
