import FrappyModel.Wire.ReqLoop
/-
C07 — One well-formed reply per request line, for any bytes and any chunking.

Specification only: `Prop`s written from the statement, the laws assumed of Python's library
functions, and Boolean monitors the driver evaluates on the bytes the real handler emitted.
-/
namespace Frappy.Spec.C07
open Frappy.Wire

/-! ## Request lines of a byte stream -/

/-- `ls` are the newline-terminated lines of the stream `s`, in order, and `t` is what follows
the last newline (an unterminated rest, not a request yet) -/
def IsFraming (s : Bytes) (ls : List Bytes) (t : Bytes) : Prop :=
  s = (ls.map (· ++ [EOL])).flatten ++ t ∧ (∀ l ∈ ls, EOL ∉ l) ∧ EOL ∉ t

/-- executable: cut a stream at its newlines -/
def splitLines : Bytes → Drained
  | [] => ⟨[], []⟩
  | b :: rest =>
    let r := splitLines rest
    if b = EOL then ⟨[] :: r.lines, r.rest⟩
    else match r.lines with
      | [] => ⟨[], b :: r.rest⟩
      | l :: ls => ⟨(b :: l) :: ls, r.rest⟩

/-! ## What a request line asks for -/

/-- action and specifier of a request line: the first two blank-separated fields of the line
without surrounding white space (an absent and an empty specifier are the same);
a blank line is a `help` request -/
structure Req where
  action : Bytes
  spec : Bytes
deriving DecidableEq, Repr

def reqOf (T : Tables) (line : Bytes) : Req :=
  if strip line = [] then ⟨T.helpRequest, []⟩
  else ⟨(parts (strip line)).action, (parts (strip line)).spec⟩

/-- the reply action belonging to a request action: `REQUEST2REPLY`, and the identification pair -/
def expectedReply (T : Tables) (a : Bytes) : Option Bytes :=
  if a = T.identRequest then some T.identReply else T.request2reply.lookup a

def nonAscii (l : Bytes) : Bool := l.any (fun b => decide (128 ≤ b))

/-- `rep` echoes the request token `tok`: literally, or — only for tokens with bytes ≥ 0x80, which
no SECoP identifier has — with every such byte written as the character of the same number -/
def Echo (tok rep : Bytes) : Prop := rep = tok ∨ (nonAscii tok = true ∧ rep = latin1 tok)

instance (tok rep : Bytes) : Decidable (Echo tok rep) := by unfold Echo; infer_instance

/-- specifier of a positive reply: the request's; the identification and help replies are literals
without specifier; `describe` without specifier is answered for the node `.` -/
def OkSpec (T : Tables) (req : Req) (rs : Bytes) : Prop :=
  rs = req.spec
  ∨ ((req.action = T.identRequest ∨ req.action = T.helpRequest) ∧ rs = [])
  ∨ (req.action = T.describeRequest ∧ req.spec = [] ∧ rs = [46])

/-- the reply `(ra, rs)` is the positive reply belonging to the request -/
def FitsOk (T : Tables) (req : Req) (ra rs : Bytes) : Prop :=
  expectedReply T req.action = some ra ∧ OkSpec T req rs

/-- the reply `(ra, rs)` with error class `cls` is the error reply belonging to the request -/
def FitsErr (T : Tables) (req : Req) (ra rs cls : Bytes) : Prop :=
  (∃ a, Echo req.action a ∧ ra = T.errorPrefix ++ a) ∧ Echo req.spec rs ∧ cls ∈ T.errorClasses

instance (T : Tables) (req : Req) (ra rs : Bytes) : Decidable (FitsOk T req ra rs) := by
  unfold FitsOk OkSpec; infer_instance

/-- Boolean form of `FitsErr` -/
def fitsErrB (T : Tables) (req : Req) (ra rs cls : Bytes) : Bool :=
  (decide (ra = T.errorPrefix ++ req.action)
    || (nonAscii req.action && decide (ra = T.errorPrefix ++ latin1 req.action)))
  && decide (Echo req.spec rs) && T.errorClasses.contains cls

/-! ## Assumptions on the environment -/

def isSolid (b : Nat) : Bool := decide (33 ≤ b) && decide (b ≤ 126)

/-- non-empty, first and last byte printable ASCII other than space -/
def solidEnds (l : Bytes) : Bool :=
  match l.head?, l.getLast? with
  | some a, some b => isSolid a && isSolid b
  | _, _ => false

/-- the laws assumed of Python's `json` and UTF-8 codec -/
structure LibLaws {J : Type} (L : Lib J) : Prop where
  loads_dumps : ∀ j, L.loads (L.dumps j) = some j
  dumps_ends : ∀ j, solidEnds (L.dumps j) = true
  dumps_noEol : ∀ j, EOL ∉ L.dumps j
  dumps_utf8 : ∀ j, L.utf8ok (L.dumps j) = true
  utf8_join : ∀ a b, L.utf8ok (a ++ SP :: b) = (L.utf8ok a && L.utf8ok b)
  utf8_nil : L.utf8ok [] = true

/-- a token as SECoP writes actions and specifiers: printable ASCII at both ends, no blank, no newline -/
def Token {J : Type} (L : Lib J) (l : Bytes) : Prop :=
  solidEnds l = true ∧ SP ∉ l ∧ EOL ∉ l ∧ L.utf8ok l = true

/-- well-formed triple: action a token, specifier absent or a token -/
def WFTriple {J : Type} (L : Lib J) (t : Triple J) : Prop :=
  Token L t.action ∧ ∀ s, t.spec = some s → Token L s

/-- the dispatcher does its part: positive replies are well formed and belong to the request,
raised SECoP errors carry a class name of errors.py, what it sends itself are event lines -/
def DispFits {J σ : Type} (T : Tables) (L : Lib J) (d : Disp σ J) : Prop :=
  ∀ st t,
    (∀ m ∈ (d st t).1.async, WFTriple L m ∧ m.action ∈ T.asyncActions) ∧
    match (d st t).1.res with
    | .ok r => WFTriple L r ∧ FitsOk T ⟨t.action, t.spec.getD []⟩ r.action (r.spec.getD [])
    | .secop cls => cls ∈ T.errorClasses
    | _ => True

/-- all that "the reply belongs to the request" needs of a dispatcher (`DispFits` without well-formedness): a positive reply
carries the reply action of the request and its specifier, a raised SECoP error a class name of errors.py -/
def DispAnswers {J σ : Type} (T : Tables) (d : Disp σ J) : Prop :=
  ∀ st t,
    match (d st t).1.res with
    | .ok r => FitsOk T ⟨t.action, t.spec.getD []⟩ r.action (r.spec.getD [])
    | .secop cls => cls ∈ T.errorClasses
    | _ => True

/-- action and specifier of the triple contain no newline -/
def NoEolTriple {J : Type} (m : Triple J) : Prop := EOL ∉ m.action ∧ EOL ∉ m.spec.getD []

/-- all that "no line is split" needs of a dispatcher (much less than `DispFits`): answering a request whose action
and specifier contain no newline -- every request cut out of a request line is one -- it sends and returns only
triples without newline in action and specifier.  Nothing is demanded of the characters otherwise: a specifier
echoed from a hostile request (control characters, DEL, bytes ≥ 0x80) is covered. -/
def DispNoEol {J σ : Type} (d : Disp σ J) : Prop :=
  ∀ st t, NoEolTriple t →
    (∀ m ∈ (d st t).1.async, NoEolTriple m) ∧ ∀ r, (d st t).1.res = .ok r → NoEolTriple r

/-! ## Monitors on the bytes the real handler sent -/

/-- an emitted byte string is exactly one line -/
def wholeLine (o : Bytes) : Bool :=
  match o.reverse with
  | [] => false
  | b :: r => decide (b = EOL) && !(r.contains EOL)

/-- error class named by the data part of an error reply: the text between `["` and the next `"` -/
def classOf (data : Bytes) : Option Bytes :=
  match data with
  | 91 :: 34 :: r => if r.contains 34 then some (r.takeWhile (· != 34)) else none
  | _ => none

/-- the fields of an emitted line: the line without its terminator, cut at the first two blanks
(no stripping: white space that ends an echoed field is part of the echo) -/
def outParts (o : Bytes) : Parts := parts o.dropLast

/-- may this emitted line be something else than a reply: a help text line, an event (`update`,
`log`), or an error event (`error_update`, the snapshot/update of a parameter in error state)?
The list is generated from the source (`Generated.C07.asyncActions`). -/
def isAsyncAction (T : Tables) (a : Bytes) : Bool := T.asyncActions.contains a

/-- is this action certainly a reply action? -/
def isReplyAction (T : Tables) (a : Bytes) : Bool := !isAsyncAction T a

def fitsLineB (T : Tables) (reqLine outLine : Bytes) : Bool :=
  let req := reqOf T reqLine
  let p := outParts outLine
  decide (FitsOk T req p.action p.spec)
  || (match classOf p.data with
      | some c => fitsErrB T req p.action p.spec c
      | none => false)

/-- walk through the emitted lines with the request lines still to be answered: the first line
that fits the oldest unanswered request is its reply; other lines must be help text or events.
`some (k, true)`: line found that is neither; `some (k, false)`: requests `k…` unanswered at the end. -/
def scan (T : Tables) : Nat → List Bytes → List Bytes → Option (Nat × Bool)
  | _, [], [] => none
  | k, [], o :: os => if isAsyncAction T (outParts o).action then scan T k [] os else some (k, true)
  | k, _ :: _, [] => some (k, false)
  | k, r :: rs, o :: os =>
    if fitsLineB T r o then scan T (k + 1) rs os
    else if isAsyncAction T (outParts o).action then scan T k (r :: rs) os
    else some (k, true)

inductive Verdict where
  | ok
  /-- emitted string `i` is not one whole line -/
  | split (i : Nat)
  /-- `n` request lines, `m` replies -/
  | count (n m : Nat)
  /-- reply `k` does not belong to request line `k` -/
  | misfit (k : Nat)
  /-- emitted line `i` is not valid UTF-8 (tested by the harness with Python's decoder) -/
  | notUtf8 (i : Nat)
  /-- the data part of emitted line `i` is not strict JSON (tested by the harness with a strict parser) -/
  | notStrict (i : Nat)
deriving DecidableEq, Repr

/-- judge one recorded run: the concatenated input and the byte strings handed to `sendall` -/
def judge (T : Tables) (stream : Bytes) (outs : List Bytes) : Verdict :=
  match outs.findIdx? (fun o => !wholeLine o) with
  | some i => .split i
  | none =>
    let reqs := (splitLines stream).lines
    match scan T 0 reqs outs with
    | none => .ok
    | some (k, true) => if k < reqs.length then .misfit k else .count reqs.length (k + 1)
    | some (k, false) => .count reqs.length k

/-- judge a run that ended because the peer went away (a `sendall` failed): what was delivered are whole
lines, and the replies among them answer the first request lines, one fitting reply each, in order;
the last request lines may be unanswered -/
def judgeGone (T : Tables) (stream : Bytes) (outs : List Bytes) : Verdict :=
  match outs.findIdx? (fun o => !wholeLine o) with
  | some i => .split i
  | none =>
    let reqs := (splitLines stream).lines
    match scan T 0 reqs outs with
    | some (k, true) => if k < reqs.length then .misfit k else .count reqs.length (k + 1)
    | _ => .ok

/-- judge what a peer has RECEIVED on a connection that may have been cut in the middle of a frame (a `sendall`
raised after a part of its frame went out): the received bytes are cut at their newlines; every complete line
is a help text line / an event or the fitting reply to the oldest unanswered request line (in order; the last
request lines may be unanswered), is valid UTF-8 and has a JSON data part (`flags`, one pair per complete line,
tested by the harness with Python's decoder and parser).  Only the unterminated rest after the last newline -- a
line cut off when the connection ended -- is not looked at: a part of a frame followed by anything else sent
later makes a complete line that is none of the above. -/
def judgeReceived (T : Tables) (stream received : Bytes) (flags : List (Bool × Bool)) : Verdict :=
  let reqs := (splitLines stream).lines
  let outs := (splitLines received).lines.map (· ++ [EOL])
  match scan T 0 reqs outs with
  | some (k, true) => if k < reqs.length then .misfit k else .count reqs.length (k + 1)
  | _ =>
    match flags.findIdx? (fun f => !f.1), flags.findIdx? (fun f => !f.2) with
    | some i, _ => .notUtf8 i
    | none, some i => .notStrict i
    | none, none => .ok

/-- the module part of a specifier `module[:accessible]` -/
def moduleOf (spec : Bytes) : Bytes := spec.takeWhile (· != 58)

/-- nothing of another connection's traffic: every event line (`update`, `error_update`, `log`) a
connection received concerns a module it subscribed to.  `none` = fine, `some i` = offending line. -/
def judgeEvents (T : Tables) (subscribed : List Bytes) (outs : List Bytes) : Option Nat :=
  outs.findIdx? (fun o =>
    let p := outParts o
    isAsyncAction T p.action && p.action != T.helpLineAction && !(subscribed.contains (moduleOf p.spec)))

/-- `judge`, then the two implementation-side tests: per emitted line (valid UTF-8, data part strict JSON) -/
def judgeAll (T : Tables) (stream : Bytes) (outs : List Bytes) (flags : List (Bool × Bool)) : Verdict :=
  match judge T stream outs with
  | .ok =>
    match flags.findIdx? (fun f => !f.1), flags.findIdx? (fun f => !f.2) with
    | some i, _ => .notUtf8 i
    | none, some i => .notStrict i
    | none, none => .ok
  | v => v

/-! ## "No input changes the answers given to other lines"

A request line is *neutral* when its action is not one of the requests a module carries out
(`read` polls the hardware, `change` writes a parameter, `do` runs a command — these are meant to
change what later requests are answered).  Everything else — `describe`, `*IDN?`, `ping`, `help`,
`activate`, `deactivate`, `logging`, blank lines, unknown actions, undecodable bytes — must leave the
answers to all other lines as they are, on this and on every other connection of the node. -/

/-- the line asks for nothing a module carries out -/
def Neutral (T : Tables) (line : Bytes) : Bool := !(T.stateActions.contains (reqOf T line).action)

/-- the line is not a message: its text is not valid UTF-8 or its data part is not JSON (`decode_msg`
raises, the request loop answers it with an error reply without asking the dispatcher) -/
def undecodableB {J : Type} (L : Lib J) (line : Bytes) : Bool :=
  !L.utf8ok (strip line) || ((parts (strip line)).data != [] && (L.loads (parts (strip line)).data).isNone)

/-- a line that may be left out: neutral, or not a message at all (also when it begins like `read`,
`change` or `do`) -/
def Removable {J : Type} (T : Tables) (L : Lib J) (line : Bytes) : Bool := Neutral T line || undecodableB L line

/-- request lines with a mark: `true` = the line stays, `false` = the line is left out -/
abbrev Marked := List (Bytes × Bool)

def allLines (m : Marked) : List Bytes := m.map Prod.fst
def keptLines (m : Marked) : List Bytes := (m.filter Prod.snd).map Prod.fst

/-- only neutral lines and lines that are not messages are left out -/
def OnlyNeutralDropped {J : Type} (T : Tables) (L : Lib J) (m : Marked) : Prop :=
  ∀ p ∈ m, p.2 = false → Removable T L p.1 = true

instance {J : Type} (T : Tables) (L : Lib J) (m : Marked) : Decidable (OnlyNeutralDropped T L m) := by
  unfold OnlyNeutralDropped; infer_instance

/-- of one answer per line of `allLines m`, those to the lines that stay -/
def keptOf {α : Type} : Marked → List α → List α
  | [], _ => []
  | _, [] => []
  | (_, true) :: m, a :: as => a :: keptOf m as
  | (_, false) :: m, _ :: as => keptOf m as

/-- the reply lines among the emitted lines, one slot per request line: the first line that fits the
oldest unanswered request is its reply (as `scan`); `none` = no reply found -/
def pairReplies (T : Tables) : List Bytes → List Bytes → List (Option Bytes)
  | reqs, [] => reqs.map (fun _ => none)
  | [], _ :: _ => []
  | r :: rs, o :: os => if fitsLineB T r o then some o :: pairReplies T rs os else pairReplies T (r :: rs) os

inductive IndepVerdict where
  | ok
  /-- the case leaves out line `k`, which is a message some module carries out (a defect of the case, not of the code) -/
  | notNeutral (k : Nat)
  /-- the answer to the `k`-th line that stays is another one when the marked lines are left out -/
  | changed (k : Nat)
deriving DecidableEq, Repr

/-- judge one connection of a pair of runs on two fresh nodes: `outsAll` was emitted for all the lines,
`outsKept` for the lines that stay.  The emitted lines come canonicalised by the harness (time stamps
masked, error reports reduced to the class name). -/
def judgeIndep {J : Type} (T : Tables) (L : Lib J) (m : Marked) (outsAll outsKept : List Bytes) : IndepVerdict :=
  match m.findIdx? (fun p => !p.2 && !Removable T L p.1) with
  | some k => .notNeutral k
  | none =>
    let a := keptOf m (pairReplies T (allLines m) outsAll)
    let b := pairReplies T (keptLines m) outsKept
    match (a.zip b).findIdx? (fun p => p.1 != p.2) with
    | some k => .changed k
    | none => if a.length = b.length then .ok else .changed (min a.length b.length)

/-- the dispatcher keeps its part of "no input changes the answers given to other lines": `R` relates
dispatcher states that answer alike (for the real dispatcher: the same state of the modules, whatever
the subscriptions); requests that no module carries out lead to a state related to the one before -/
structure DispNeutral {J σ : Type} (T : Tables) (d : Disp σ J) (R : σ → σ → Prop) : Prop where
  refl : ∀ a, R a a
  trans : ∀ a b c, R a b → R b c → R a c
  same : ∀ s s' t, R s s' → (d s t).1.res = (d s' t).1.res ∧ R (d s t).2 (d s' t).2
  neutral : ∀ s t, t.action ∉ T.stateActions → R (d s t).2 s

end Frappy.Spec.C07
