import FrappyModel.Klass.Session
import FrappyModel.Klass.Status
import FrappyModel.Klass.StructRW
/-
C09 — Module classes, instances and configurations are isolated from each other.

Specification: `Prop`s written from the statement, and Boolean monitors the driver evaluates on
dumps recorded from the real implementation (a dump is whatever the harness observes of one owner:
description, limits, validation outcomes — the monitors only compare them).
-/
namespace Frappy.Spec.C09
open Frappy.Klass

/-! ## over recorded runs of the implementation (`α` = canonical dump of one owner) -/

variable {α : Type} [DecidableEq α]

/-- One operation with target `target` (`none`: the operation failed, it has no target at all):
every owner that existed before and is not the target looks exactly as before. -/
def IsolatedStep (target : Option String) (before after : List (String × α)) : Prop :=
  ∀ od ∈ before, some od.1 ≠ target → od ∈ after

/-- monitor: the owners whose dump changed (or vanished) although they are not the target -/
def offenders (target : Option String) (before after : List (String × α)) : List String :=
  (before.filter (fun od => decide (some od.1 ≠ target) && !after.contains od)).map (·.1)

/-- the whole run: `init` are the dumps before the first operation -/
def IsolatedRun (init : List (String × α)) : List (Option String × List (String × α)) → Prop
  | [] => True
  | (t, after) :: rest => IsolatedStep t init after ∧ IsolatedRun after rest

/-- monitor for a run: index of the first offending step and the offended owners -/
def judgeRun (init : List (String × α)) (steps : List (Option String × List (String × α))) (i : Nat := 0) :
    Option (Nat × List String) :=
  match steps with
  | [] => none
  | (t, after) :: rest =>
    match offenders t init after with
    | [] => judgeRun after rest (i + 1)
    | bad => some (i, bad)

/-- "A module's description is a function of its own class chain and its own configuration only":
two programs that define the same classes (same declarations, same bases) in different orders,
possibly among other classes, load the same configuration and create the same modules from it in different
orders, show the same dump for every owner they have in common (classes, instances, configuration sections). -/
def OrderIndependent (a b : List (String × α)) : Prop :=
  ∀ o da db, (o, da) ∈ a → (o, db) ∈ b → da = db

def orderOffenders (a b : List (String × α)) : List String :=
  (a.filter (fun od => b.any (fun od' => od'.1 == od.1 && decide (od'.2 ≠ od.2)))).map (·.1)

/-- "… or of instances created later": an instance created after arbitrary other operations shows what an
instance of the same class with the same configuration showed when it was created first -/
def LaterFresh (first later : α) : Prop := first = later
def laterFreshB (first later : α) : Bool := decide (first = later)

/-- "… or behaviour": what `write_<p>(v)` does on one instance (through the generated wrapper) is what that
instance's own datatype says about `v` — not what some other instance's datatype says.  A pair is
(outcomes of the datatype of the instance's parameter, outcomes of the writes) on the same values. -/
def WritesOwn (l : List (α × α)) : Prop := ∀ p ∈ l, p.1 = p.2
def writesOwnB (l : List (α × α)) : Bool := l.all (fun p => decide (p.1 = p.2))

/-- validation behaviour is a function of the exported datainfo: pairs (datainfo, outcomes) -/
def ValFunctional {β : Type} (l : List (α × β)) : Prop := ∀ a b b', (a, b) ∈ l → (a, b') ∈ l → b = b'
def valFunctionalB {β : Type} [DecidableEq β] (l : List (α × β)) : Bool :=
  l.all (fun p => l.all (fun q => !(p.1 == q.1) || decide (p.2 = q.2)))

/-- "… or behaviour … of other instances": what a module shows after one and the same action on it (a member of a struct
parameter is updated) is one thing - whether the action happens on its own or from inside an access to ANOTHER module (the
struct of that module being read or written).  A pair is (step, module, member, action ↦ what the module shows afterwards),
one pair per context the action was carried out in. -/
def ContextFree {β : Type} (l : List (α × β)) : Prop := ∀ k b b', (k, b) ∈ l → (k, b') ∈ l → b = b'

/-- monitor: the keys with more than one outcome -/
def contextOffenders {β : Type} [DecidableEq β] (l : List (α × β)) : List α :=
  ((l.filter (fun p => l.any (fun q => p.1 == q.1 && decide (q.2 ≠ p.2)))).map (·.1)).eraseDups

/-! ## over the heap model -/

/-- all references of the records of an owner point into the heap -/
def Bounded (w : World) : Prop := ∀ o, ∀ r ∈ reach w o, r < w.heap.length

/-- no object reachable from an instance is reachable from any other owner (classes may share objects
among each other: nothing ever writes to an object of a class once the class exists — `frame`) -/
def Separated (w : World) : Prop :=
  ∀ i o, o ≠ Owner.inst i → ∀ r ∈ reach w (.inst i), r ∉ reach w o

/-- every owner has a name of its own -/
def UniqueNames (w : World) : Prop :=
  (w.classes.map (·.pure.decl.name)).Nodup ∧ (w.insts.map (·.name)).Nodup

/-- an operation is admissible in a world: it creates an owner that does not exist yet (Python would
rebind the name; the harness never re-uses names) -/
def Admissible (w : World) : Op → Prop
  | .define d => w.findClass d.name = none
  | .inst n _ _ => w.findInst n = none
  | _ => True

/-- keys of an association list are pairwise different (a Python dict) -/
def KeysNodup {α : Type} (l : List (Name × α)) : Prop := (l.map (·.1)).Nodup

/-- class bodies are Python dicts: the names written in one class body are pairwise different -/
def WellFormed : Op → Prop
  | .define d => KeysNodup d.decls
  | _ => True

/-- every operation of the list is admissible when its turn comes -/
def AdmissibleRun (T : Tables) : World → List Op → Prop
  | _, [] => True
  | w, op :: ops => Admissible w op ∧ AdmissibleRun T (step T w op) ops

/-- The abstract side of the refinement: what a class is, as a function of the *declarations* only
(`env`: class name ↦ its class body and MRO) — no heap, no definition order.  `fuel` bounds the depth of
the inheritance chain. -/
def pureOf (T : Tables) (env : Name → Option ClassDecl) : Nat → Name → Option ClassV
  | 0, _ => none
  | f + 1, n => (env n).map (fun d => pureDefine T (d.mro.tail.filterMap (pureOf T env f)) d)

/-- a definition order consistent with inheritance: a class is defined with the body `env` gives it, after
all classes of its MRO -/
def Consistent (env : Name → Option ClassDecl) (w : World) : Op → Prop
  | .define d => env d.name = some d ∧ ∀ m ∈ d.mro.tail, env m ≠ none → w.findClass m ≠ none
  | _ => True

def ConsistentRun (T : Tables) (env : Name → Option ClassDecl) : World → List Op → Prop
  | _, [] => True
  | w, op :: ops => Consistent env w op ∧ ConsistentRun T env (step T w op) ops

/-! ### what a class shows, as a function of the class bodies (no heap, no definition order) -/

/-- what can be seen of a class: the trees of the datatype objects declared in its body, the views of the
Parameter/Command objects of its `__dict__`, and the views of `cls.accessibles` -/
structure ClassViews where
  declTrees : List (Name × DTree)
  accViews : List (Name × AccView)
  accessibles : List (Name × Option AccView)

/-- the declared datatype objects of a class body (value-level mirror of layout pass 1) -/
def declTreesOf (cv : ClassV) : List (Name × DTree) :=
  cv.dict.filterMap (fun ke => match ke.2 with
    | .acc a => (a.declTree cv.decl.name).map (fun t => (ke.1, t))
    | _ => none)

/-- the tree of the datatype object a slot stands for: a copy carries its own tree, a declared object is looked up
under its name in the class that declared it (`look`: what the classes along the MRO show) -/
def slotTreeV (look : Name → Option ClassViews) (self : Name) (own : List (Name × DTree)) : DtSlot → Option DTree
  | .set (.copy _ _) t => some t
  | .set (.decl c n) _ => if c == self then aget? own n else (look c).bind (fun V => aget? V.declTrees n)
  | _ => none

/-- value-level mirror of layout pass 2 -/
def accViewsOf (look : Name → Option ClassViews) (cv : ClassV) (own : List (Name × DTree)) : List (Name × AccView) :=
  cv.dict.filterMap (fun ke => match ke.2 with
    | .acc a => some (ke.1, ⟨a.isCmd, a.props, slotTreeV look cv.decl.name own a.dt⟩)
    | _ => none)

/-- value-level mirror of `accessibleRef`: the view of the object lying in the `__dict__` of the owner -/
def accessibleViewV (look : Name → Option ClassViews) (self : Name) (own : List (Name × AccView)) (ns : Name × SlotV) :
    Option (Name × Option AccView) :=
  (if ns.2.owner == self then aget? own ns.1
   else (look ns.2.owner).bind (fun V => aget? V.accViews ns.1)).map (fun v => (ns.1, some v))

def dictAccsV (own : List (Name × AccView)) (dict : List (Name × EntryV)) : List (Name × Option AccView) :=
  dict.filterMap (fun ke => match ke.2 with | .acc _ => (aget? own ke.1).map (fun v => (ke.1, some v)) | _ => none)

def accessiblesViewsOf (look : Name → Option ClassViews) (cv : ClassV) (own : List (Name × AccView)) :
    List (Name × Option AccView) :=
  if cv.decl.isModule then cv.accessibles.filterMap (accessibleViewV look cv.decl.name own) else dictAccsV own cv.dict

/-- what a class with value `cv` shows, given what the classes along its MRO show -/
def pureViews (look : Name → Option ClassViews) (cv : ClassV) : ClassViews :=
  ⟨declTreesOf cv, accViewsOf look cv (declTreesOf cv),
   accessiblesViewsOf look cv (accViewsOf look cv (declTreesOf cv))⟩

/-- what a class shows as a function of the *declarations* only (`env`), like `pureOf` -/
def viewsOf (T : Tables) (env : Name → Option ClassDecl) : Nat → Name → Option ClassViews
  | 0, _ => none
  | f + 1, n => (env n).map (fun d =>
      pureViews (fun c => if d.mro.tail.contains c then viewsOf T env f c else none)
        (pureDefine T (d.mro.tail.filterMap (pureOf T env f)) d))

/-- validation behaviour of the accessibles of an owner, for any validation function of datatypes -/
def validateH {V O : Type} (val : DTree → V → O) (w : World) (o : Owner) (v : V) : List (Name × Option O) :=
  (describeH w o).map (fun nv => (nv.1, (nv.2.bind (·.tree)).map (fun t => val t v)))

/-! ## around classes and instances: the loaded configuration, class-chain properties, input tables (`Klass/Session.lean`) -/

/-- every entry of every loaded section refers to an existing `Param` object -/
def CfgBounded (s : Session) : Prop := ∀ c ∈ s.sections, ∀ kr ∈ c.entries, kr.2 < s.params.length

/-- "configurations are isolated": an operation — in particular the creation of a module from a section, from this one or from
one that shares a `Param` object with it — leaves what every loaded section shows as it was -/
def ConfigIsolated (T : STables) (s : Session) (op : SOp) : Prop :=
  ∀ sec, s.findSection sec ≠ none → describeCfg (sstep T s op) sec = describeCfg s sec

/-- the operations on classes and instances a sequence of session operations amounts to -/
def worldOps (T : STables) : Session → List SOp → List Op
  | _, [] => []
  | s, op :: ops => (op.worldOp s).toList ++ worldOps T (sstep T s op) ops

/-- a session run is admissible when the operations on classes and instances it amounts to are -/
def SAdmissibleRun (T : STables) (s : Session) (ops : List SOp) : Prop := AdmissibleRun T.base s.world (worldOps T s ops)

/-- the direct bases of every class along the MRO of `c` are on record -/
def BasesKnown (s : Session) (c : Name) : Prop := ∀ b ∈ mroOf s.world c, ahas s.bases b = true

end Frappy.Spec.C09
