import FrappyModel.Small.ExtParams
import FrappyModel.Small.Control
/-
C18 — Linked parameters stay mutually consistent.

Specification only: `Prop`s written from the statement over *observed values* (what a client can read
after an operation), and Boolean monitors the driver evaluates on the values recorded from the real
implementation after every operation.  Nothing here refers to how the models compute.
-/
namespace Frappy.Spec.C18
open Frappy.ExtParams

/-- `∀ a, o = some a → P a` is decidable (kernel-reducible: no tactic-built casts) -/
instance decForallSome {α : Type} (o : Option α) (P : α → Prop) [∀ a, Decidable (P a)] :
    Decidable (∀ a, o = some a → P a) :=
  match o with
  | none => isTrue (fun _ h => nomatch h)
  | some b => decidable_of_iff (P b) ⟨fun h _ ha => (Option.some.inj ha) ▸ h, fun h => h b rfl⟩

/-! ## struct parameter and member parameters -/

/-- "a struct parameter and its member parameters agree member by member": every member name has a
value in the struct and the member parameter shows the same value -/
def MembersAgree (members : List String) (struct mem : Dict) : Prop :=
  ∀ m ∈ members, ∃ x, struct.lookup m = some x ∧ mem.lookup m = some x

def membersAgreeB (members : List String) (struct mem : Dict) : Bool :=
  members.all (fun m => match struct.lookup m, mem.lookup m with
    | some x, some y => x == y
    | _, _ => false)

theorem membersAgreeB_iff (members : List String) (struct mem : Dict) :
    membersAgreeB members struct mem = true ↔ MembersAgree members struct mem := by
  unfold membersAgreeB MembersAgree
  rw [List.all_eq_true]
  constructor
  · intro h m hm
    have := h m hm
    split at this
    · rename_i x y hx hy
      exact ⟨x, hx, by rw [hy]; simp at this; rw [this]⟩
    · simp at this
  · intro h m hm
    obtain ⟨x, hx, hy⟩ := h m hm
    simp [hx, hy]

/-- index of the first quiescent point at which struct and members differ -/
def judgeStruct (members : List String) : List (Dict × Dict) → Nat → Option Nat
  | [], _ => none
  | (st, mem) :: rest, i => if membersAgreeB members st mem then judgeStruct members rest (i + 1) else some i

/-- what is recorded about the error states after one operation on a module with a struct parameter -/
structure SInfo where
  ok : Bool := true             -- the operation returned (a request was answered without error, a call did not raise)
  announced : Bool := false     -- a VALUE of the struct parameter was announced during the operation (update message)
  flagged : List String := []   -- the members that are in error state (`readerror`) or were never announced, afterwards
  deriving Repr, DecidableEq, Inhabited

/-- agreement "member by member" extends to the error state: an operation that returned and during which the module
announced a valid value of the struct leaves no member in error state — a member that failed earlier (a failed read of the
member, an error announced for it) recovers together with the struct, whether its value has changed or not -/
def MembersRecovered (members : List String) (r : SInfo) : Prop :=
  r.ok = true → r.announced = true → ∀ m ∈ members, m ∉ r.flagged

instance (members : List String) (r : SInfo) : Decidable (MembersRecovered members r) :=
  inferInstanceAs (Decidable (r.ok = true → r.announced = true → ∀ m ∈ members, m ∉ r.flagged))

def membersRecoveredB (members : List String) (r : SInfo) : Bool := decide (MembersRecovered members r)

/-- the monitor for one record: values and error states -/
def structRecOkB (members : List String) (e : Dict × Dict × SInfo) : Bool :=
  membersAgreeB members e.1 e.2.1 && membersRecoveredB members e.2.2

/-- index of the first record that breaks one of the two clauses -/
def judgeStructR (members : List String) : List (Dict × Dict × SInfo) → Nat → Option Nat
  | [], _ => none
  | e :: rest, i => if structRecOkB members e then judgeStructR members rest (i + 1) else some i

/-! ## float parameter bound to an enumerated index -/

/-- "always shows the value belonging to the current index" -/
def ShowsIndexValue (vdict : List (Int × Val)) (idx : Int) (value : Val) : Prop :=
  vdict.lookup idx = some value

/-- "a write selects the closest allowed value": index `i` is allowed and no other label is closer to `x` -/
def SelectsClosest (vdict : List (Int × Val)) (x : Val) (i : Int) : Prop :=
  ∃ v, vdict.lookup i = some v ∧ ∀ jw ∈ vdict, dist v x ≤ dist jw.2 x

def selectsClosestB (vdict : List (Int × Val)) (x : Val) (i : Int) : Bool :=
  match vdict.lookup i with
  | none => false
  | some v => vdict.all (fun jw => decide (dist v x ≤ dist jw.2 x))

theorem selectsClosestB_iff (vdict : List (Int × Val)) (x : Val) (i : Int) :
    selectsClosestB vdict x i = true ↔ SelectsClosest vdict x i := by
  unfold selectsClosestB SelectsClosest
  cases h : vdict.lookup i with
  | none => simp
  | some v => simp [List.all_eq_true]

/-- what is recorded after one operation on a float/enum pair -/
structure FRec where
  write : Option Val        -- `some x`: the operation was a write of the float parameter with value `x`
  assign : Option Val       -- `some x`: the driver assigned `x` to the float parameter (`self.<name> = x`)
  ok : Bool                 -- the operation was accepted
  selected : Option Int     -- the index the write handed to `write_<idx>` (or stored, without such a method)
  idx : Int                 -- index parameter after the operation
  value : Val               -- float parameter after the operation, as a client reads it
  deriving Repr, DecidableEq, Inhabited

/-- … and an update of the float parameter by the driver selects the closest allowed value as well: the index it
leaves is one whose value no other label is closer to (the float parameter then shows that value) -/
def FloatEnumOk (vdict : List (Int × Val)) (r : FRec) : Prop :=
  ShowsIndexValue vdict r.idx r.value ∧
  (∀ x, r.write = some x → r.ok = true → ∃ i, r.selected = some i ∧ SelectsClosest vdict x i) ∧
  (∀ x, r.assign = some x → r.ok = true → SelectsClosest vdict x r.idx)

def floatEnumOkB (vdict : List (Int × Val)) (r : FRec) : Bool :=
  (vdict.lookup r.idx == some r.value) &&
  (match r.write, r.ok with
   | some x, true => (match r.selected with
      | some i => selectsClosestB vdict x i
      | none => false)
   | _, _ => true) &&
  (match r.assign, r.ok with
   | some x, true => selectsClosestB vdict x r.idx
   | _, _ => true)

theorem floatEnumOkB_iff (vdict : List (Int × Val)) (r : FRec) :
    floatEnumOkB vdict r = true ↔ FloatEnumOk vdict r := by
  unfold floatEnumOkB FloatEnumOk ShowsIndexValue
  rw [Bool.and_eq_true, Bool.and_eq_true, beq_iff_eq, and_assoc]
  refine and_congr Iff.rfl (and_congr ?_ ?_)
  · cases hw : r.write with
    | none => simp
    | some x =>
      cases hok : r.ok with
      | false => simp
      | true =>
        cases hs : r.selected with
        | none => simp
        | some i => simp [selectsClosestB_iff]
  · cases hw : r.assign with
    | none => simp
    | some x =>
      cases hok : r.ok with
      | false => simp
      | true => simp [selectsClosestB_iff]

def judgeFloatEnum (vdict : List (Int × Val)) : List FRec → Nat → Option Nat
  | [], _ => none
  | r :: rest, i => if floatEnumOkB vdict r then judgeFloatEnum vdict rest (i + 1) else some i

/-! ## parameter with limit parameters -/

/-- the limit parameters of one base parameter, as a client reads them (`none`: no such parameter) -/
structure Limits where
  min : Option Val
  max : Option Val
  limits : Option (Val × Val)
  deriving Repr, DecidableEq, Inhabited

/-- "inside its current limits": inside every limit parameter that exists -/
def Within (l : Limits) (x : Val) : Prop :=
  (∀ a, l.min = some a → a ≤ x) ∧ (∀ b, l.max = some b → x ≤ b) ∧
  (∀ ab, l.limits = some ab → ab.1 ≤ x ∧ x ≤ ab.2)

instance (l : Limits) (x : Val) : Decidable (Within l x) :=
  inferInstanceAs (Decidable ((∀ a, l.min = some a → a ≤ x) ∧ (∀ b, l.max = some b → x ≤ b) ∧
    (∀ ab, l.limits = some ab → ab.1 ≤ x ∧ x ≤ ab.2)))

/-- Position `a` (MRO order, most derived class first) is the class where the limit parameter selected by `sel` is
defined first: it declares it and no class after it (towards the root) does. -/
def FirstDeclares (layers : List Layer) (sel : Layer → Bool) (a : Nat) : Prop :=
  sel (layers.getD a default) = true ∧ ∀ b, b < layers.length → a < b → sel (layers.getD b default) = false

/-- frappy's rule for the automatic limit check (modulebase.py, `checkLimits` docstring): the class where a limit
parameter is defined first gets a `check_<p>` calling `checkLimits` — unless the programmer gave that very class a
`check_<p>` of his own, which then replaces it ("when no automatic super call is desired"). -/
def AutoAt (layers : List Layer) (a : Nat) : Prop :=
  (layers.getD a default).ownCheck = false ∧
  (FirstDeclares layers (·.declMin) a ∨ FirstDeclares layers (·.declMax) a ∨ FirstDeclares layers (·.declLimits) a)

/-- "a parameter with limit parameters": the limits are enforced on a write when some class of the hierarchy carries the
automatic check and no programmer's `check_<p>` *before* it in MRO order ended the checking by returning `True`
(`stopAt`: the position of the check method that did).  A check method inherited from a class further down, or one that
merely returns `None`, never switches the limits off. -/
def AutoApplies (layers : List Layer) (stopAt : Option Nat) : Prop :=
  ∃ a, a < layers.length ∧ (AutoAt layers a ∧ ∀ j, stopAt = some j → a < j)

instance (layers : List Layer) (sel : Layer → Bool) (a : Nat) : Decidable (FirstDeclares layers sel a) :=
  inferInstanceAs (Decidable (sel (layers.getD a default) = true ∧
    ∀ b, b < layers.length → a < b → sel (layers.getD b default) = false))

instance (layers : List Layer) (a : Nat) : Decidable (AutoAt layers a) :=
  inferInstanceAs (Decidable ((layers.getD a default).ownCheck = false ∧
    (FirstDeclares layers (·.declMin) a ∨ FirstDeclares layers (·.declMax) a ∨ FirstDeclares layers (·.declLimits) a)))

instance (layers : List Layer) (stopAt : Option Nat) : Decidable (AutoApplies layers stopAt) :=
  inferInstanceAs (Decidable (∃ a, a < layers.length ∧ (AutoAt layers a ∧ ∀ j, stopAt = some j → a < j)))

/-- what is recorded for one operation on a parameter with limits -/
structure LRec where
  write : Option Val               -- `some x`: a write of the base parameter with value `x`
  stopAt : Option Nat              -- MRO position of the programmer's `check_<p>` that returned `True` during the write
  echo : Bool                      -- the driver took the requested value over unchanged
  setLimits : Option (Val × Val)   -- `some (a, b)`: a write of `<p>_limits` with the pair `(a, b)`
  ok : Bool                        -- the operation was accepted
  before : Limits                  -- the limits current when the operation was issued
  after : Limits
  value : Val                      -- base parameter after the operation
  deriving Repr, DecidableEq, Inhabited

def LimitsOk (layers : List Layer) (r : LRec) : Prop :=
  (∀ x, r.write = some x → r.ok = true → AutoApplies layers r.stopAt →
    Within r.before x ∧ (r.echo = true → r.value = x ∧ Within r.after r.value)) ∧
  (∀ ab, r.setLimits = some ab → ab.2 < ab.1 → r.ok = false ∧ r.after.limits = r.before.limits)

instance (layers : List Layer) (r : LRec) : Decidable (LimitsOk layers r) :=
  inferInstanceAs (Decidable (
    (∀ x, r.write = some x → r.ok = true → AutoApplies layers r.stopAt →
      Within r.before x ∧ (r.echo = true → r.value = x ∧ Within r.after r.value)) ∧
    (∀ ab, r.setLimits = some ab → ab.2 < ab.1 → r.ok = false ∧ r.after.limits = r.before.limits)))

def limitsOkB (layers : List Layer) (r : LRec) : Bool := decide (LimitsOk layers r)

def judgeLimits (layers : List Layer) : List LRec → Nat → Option Nat
  | [], _ => none
  | r :: rest, i => if limitsOkB layers r then judgeLimits layers rest (i + 1) else some i

/-! ## controllers of the outputs of a node -/

/-- how an operation takes over control -/
inductive Takeover
  | byInput (k : Nat)     -- input `k` took control of its output
  | bySelf (o : Nat)      -- output `o` took control itself
  | no
  deriving Repr, DecidableEq, Inhabited

/-- "among the modules able to drive one output at most one is marked as controlling it, the output names exactly
that one" — for output `o`, whose `controlled_by` is `cb`; `outOf i` is the output input `i` is attached to -/
def SingleController (n : Nat) (outOf : Nat → Nat) (o : Nat) (cb : Option Nat) (act : Nat → Bool) : Prop :=
  (∀ i, i < n → ∀ j, j < n → (outOf i = o ∧ outOf j = o ∧ act i = true ∧ act j = true) → i = j) ∧
  (∀ i, i < n → outOf i = o → act i = true → cb = some i)

/-- … for every output of the node -/
def AllSingle (n nout : Nat) (outOf : Nat → Nat) (cb : Nat → Option Nat) (act : Nat → Bool) : Prop :=
  ∀ o, o < nout → SingleController n outOf o (cb o) act

/-- "taking over control switches the previous controller off" (and marks the new one) -/
def TakenOver (n : Nat) (outOf : Nat → Nat) (t : Takeover) (cb : Nat → Option Nat) (act : Nat → Bool) : Prop :=
  match t with
  | .byInput k => cb (outOf k) = some k ∧ ∀ i, i < n → outOf i = outOf k → (act i = true ↔ i = k)
  | .bySelf o => cb o = none ∧ ∀ i, i < n → outOf i = o → act i = false
  | .no => True

/-- the stronger reading: whoever is named by output `o` is one of its inputs and marked as controlling -/
def NamesActive (n : Nat) (outOf : Nat → Nat) (o : Nat) (cb : Option Nat) (act : Nat → Bool) : Prop :=
  ∀ k, cb = some k → k < n ∧ outOf k = o ∧ act k = true

/-- the outputs are independent: an operation on output `o` (a write to it or to one of its inputs, a call of one of
their methods) changes neither the `controlled_by` of another output nor the flag of an input of another output -/
def OthersUntouched (n nout : Nat) (outOf : Nat → Nat) (o : Nat) (cbB cbA : Nat → Option Nat)
    (actB actA : Nat → Bool) : Prop :=
  (∀ o', o' < nout → o' ≠ o → cbA o' = cbB o') ∧ (∀ i, i < n → outOf i ≠ o → actA i = actB i)

instance (n : Nat) (outOf : Nat → Nat) (o : Nat) (cb : Option Nat) (act : Nat → Bool) :
    Decidable (SingleController n outOf o cb act) :=
  inferInstanceAs (Decidable (
    (∀ i, i < n → ∀ j, j < n → (outOf i = o ∧ outOf j = o ∧ act i = true ∧ act j = true) → i = j) ∧
    (∀ i, i < n → outOf i = o → act i = true → cb = some i)))

instance (n nout : Nat) (outOf : Nat → Nat) (cb : Nat → Option Nat) (act : Nat → Bool) :
    Decidable (AllSingle n nout outOf cb act) :=
  inferInstanceAs (Decidable (∀ o, o < nout → SingleController n outOf o (cb o) act))

instance (n : Nat) (outOf : Nat → Nat) (t : Takeover) (cb : Nat → Option Nat) (act : Nat → Bool) :
    Decidable (TakenOver n outOf t cb act) :=
  match t with
  | .byInput k => inferInstanceAs (Decidable (cb (outOf k) = some k ∧ ∀ i, i < n → outOf i = outOf k → (act i = true ↔ i = k)))
  | .bySelf o => inferInstanceAs (Decidable (cb o = none ∧ ∀ i, i < n → outOf i = o → act i = false))
  | .no => isTrue trivial

instance (n : Nat) (outOf : Nat → Nat) (o : Nat) (cb : Option Nat) (act : Nat → Bool) :
    Decidable (NamesActive n outOf o cb act) :=
  inferInstanceAs (Decidable (∀ k, cb = some k → k < n ∧ outOf k = o ∧ act k = true))

instance (n nout : Nat) (outOf : Nat → Nat) (o : Nat) (cbB cbA : Nat → Option Nat) (actB actA : Nat → Bool) :
    Decidable (OthersUntouched n nout outOf o cbB cbA actB actA) :=
  inferInstanceAs (Decidable ((∀ o', o' < nout → o' ≠ o → cbA o' = cbB o') ∧ (∀ i, i < n → outOf i ≠ o → actA i = actB i)))

/-- what is recorded for one operation on a node with several outputs -/
structure CRec where
  takeover : Takeover
  target : Option Nat      -- the output the operation was issued on (directly or through one of its inputs)
  ok : Bool := true        -- the operation returned (false: an exception came out of it, e.g. a `set_control_active` that failed)
  strong : List Bool       -- per output: none of its inputs was switched off behind its back and no operation on it failed so far (`NamesActive` expected)
  cbB : List (Option Nat)  -- `controlled_by` of every output before …
  actB : List Bool         -- … and `control_active` of every input before the operation
  cb : List (Option Nat)   -- after
  act : List Bool
  deriving Repr, DecidableEq, Inhabited

/-- what the statement demands of one recorded operation: at most one marked input per output and the output names it — at
every quiescent point, also after an operation that failed half-way (a controller that could not be switched off, a new
one that could not be switched on); an operation that took over control AND returned left exactly the new controller marked
and named; the stronger reading where it is expected; and the other outputs untouched -/
def ControlOk (n nout : Nat) (outs : List Nat) (r : CRec) : Prop :=
  let outOf := fun i => outs.getD i 0
  let cb := fun o => (r.cb.getD o none)
  let act := fun i => r.act.getD i false
  AllSingle n nout outOf cb act ∧ (r.ok = true → TakenOver n outOf r.takeover cb act) ∧
  (∀ o, o < nout → r.strong.getD o false = true → NamesActive n outOf o (cb o) act) ∧
  (∀ o, r.target = some o → OthersUntouched n nout outOf o (fun o => r.cbB.getD o none) cb (fun i => r.actB.getD i false) act)

instance (n nout : Nat) (outs : List Nat) (r : CRec) : Decidable (ControlOk n nout outs r) :=
  inferInstanceAs (Decidable (
    AllSingle n nout (fun i => outs.getD i 0) (fun o => (r.cb.getD o none)) (fun i => r.act.getD i false) ∧
    (r.ok = true → TakenOver n (fun i => outs.getD i 0) r.takeover (fun o => (r.cb.getD o none)) (fun i => r.act.getD i false)) ∧
    (∀ o, o < nout → r.strong.getD o false = true →
      NamesActive n (fun i => outs.getD i 0) o (r.cb.getD o none) (fun i => r.act.getD i false)) ∧
    (∀ o, r.target = some o → OthersUntouched n nout (fun i => outs.getD i 0) o (fun o => r.cbB.getD o none)
      (fun o => (r.cb.getD o none)) (fun i => r.actB.getD i false) (fun i => r.act.getD i false))))

def controlOkB (n nout : Nat) (outs : List Nat) (r : CRec) : Bool := decide (ControlOk n nout outs r)

def judgeControl (n nout : Nat) (outs : List Nat) : List CRec → Nat → Option Nat
  | [], _ => none
  | r :: rest, i => if controlOkB n nout outs r then judgeControl n nout outs rest (i + 1) else some i

/-- which clause of the statement applies to an operation, given the flags before it -/
def takeoverOf (cfg : Frappy.Control.Cfg) (actBefore : Nat → Bool) : Frappy.Control.Op → Takeover
  | .writeIn k guarded =>
    if Frappy.Control.validIn cfg k then (if guarded && actBefore k then .no else .byInput k) else .no
  | .writeOut o => if o < cfg.nout then .bySelf o else .no
  | .activate k => if Frappy.Control.validIn cfg k then .byInput k else .no
  | .deactivate _ => .no
  | .selfControlled o => if o < cfg.nout then .bySelf o else .no
  | .updateTarget _ _ => .no

/-- the output an operation is issued on -/
def targetOf (cfg : Frappy.Control.Cfg) : Frappy.Control.Op → Nat
  | .writeIn k _ => cfg.outOf k
  | .writeOut o => o
  | .activate k => cfg.outOf k
  | .deactivate k => cfg.outOf k
  | .selfControlled o => o
  | .updateTarget o _ => o

end Frappy.Spec.C18
