import FrappyModel.Klass.Config
import FrappyModel.Klass.ConfigUnit
/-
C10 — a concrete instance of the datatype oracles of `Klass/Config`, used by the driver only
(the theorems quantify over every `Ops`).  It covers what the generated classes use:
FloatRange, IntRange, StringType, BoolType, EnumType, ArrayOf(<these>), TupleOf (limits).

Numbers travel as integers counting QUARTERS (the generators draw multiples of 0.25, which binary64
represents exactly; the relative tolerance 1.2e-7 of `FloatRange.validate` never bridges a quarter
step in the generated magnitudes), so no float arithmetic is modelled.

Transcribes `frappy/datatypes.py`: `__call__`, `validate`, `setProperty`, `checkProperties`, `default`
of the listed types (repaired tree: `ArrayOf.checkProperties` also checks its members).
-/
namespace Frappy.ConfigDT
open Frappy.Config

inductive CVal where
  | none
  | bool (b : Bool)
  | num (q : Int)              -- quarters
  | str (s : String)
  | list (l : List CVal)       -- list or tuple
  | other                      -- anything else (dict, object, …)
deriving Repr, BEq, Inhabited

inductive CDT where
  | double (min max : Option Int) (unit : String)     -- quarters; none = ∓sys.float_info.max
  | int (min max : Int)                               -- units
  | string (minchars maxchars : Nat) (utf8 : Bool)
  | bool
  | enum (members : List (String × Int))
  | array (minlen maxlen : Nat) (members : CDT)
  | tuple (members : List CDT)
deriving Repr, BEq, Inhabited

def unlimited : Int := 18446744073709551616      -- 1 << 64
def defaultMaxInt : Int := 16777216

def geOpt (q : Int) : Option Int → Bool
  | some m => decide (m ≤ q)
  | none => true
def leOpt (q : Int) : Option Int → Bool
  | some m => decide (q ≤ m)
  | none => true

def isAscii (s : String) : Bool := s.toList.all (fun c => c.val < 128)

/-- a Python number usable as a float: int, float, bool -/
def asNum : CVal → Option Int
  | .num q => some q
  | .bool b => some (if b then 4 else 0)
  | _ => none

def asInt (v : CVal) : Option Int :=
  match asNum v with
  | some q => if q % 4 = 0 then some (q / 4) else none
  | none => none

mutual
/-- `dt(x)` -/
def convert : CDT → CVal → Option CVal
  | .double _ _ _, v => (asNum v).map CVal.num
  | .int _ _, v => (asInt v).map (fun i => CVal.num (4 * i))
  | .string lo hi utf8, .str s =>
    if (utf8 || isAscii s) && decide (lo ≤ s.length) && decide (s.length ≤ hi) then some (.str s) else none
  | .string _ _ _, _ => none
  | .bool, v => match asNum v with
    | some 0 => some (.bool false)
    | some 4 => some (.bool true)
    | _ => none
  | .enum ms, .str s => (ms.find? (fun m => m.1 == s)).map (fun m => CVal.num (4 * m.2))
  | .enum ms, .num q => if q % 4 = 0 && ms.any (fun m => m.2 == q / 4) then some (.num q) else none
  | .enum _, _ => none
  | .array lo hi m, .list l =>
    if decide (lo ≤ l.length) && decide (l.length ≤ hi) then (convertAll m l).map CVal.list else none
  | .array _ _ _, _ => none
  | .tuple ms, .list l => (convertZip ms l).map CVal.list
  | .tuple _, _ => none
def convertAll : CDT → List CVal → Option (List CVal)
  | _, [] => some []
  | m, v :: vs => match convert m v, convertAll m vs with
    | some v', some vs' => some (v' :: vs')
    | _, _ => none
def convertZip : List CDT → List CVal → Option (List CVal)
  | [], [] => some []
  | m :: ms, v :: vs => match convert m v, convertZip ms vs with
    | some v', some vs' => some (v' :: vs')
    | _, _ => none
  | _, _ => none
end

mutual
/-- `dt.validate(x)` -/
def validate : CDT → CVal → Option CVal
  | .double lo hi u, v => match convert (.double lo hi u) v with
    | some (.num q) => if geOpt q lo && leOpt q hi then some (.num q) else none
    | _ => none
  | .int lo hi, v => match convert (.int lo hi) v with
    | some (.num q) => if decide (4 * lo ≤ q) && decide (q ≤ 4 * hi) then some (.num q) else none
    | _ => none
  | .array lo hi m, .list l =>
    if decide (lo ≤ l.length) && decide (l.length ≤ hi) then (validateAll m l).map CVal.list else none
  | .array _ _ _, _ => none
  | .tuple ms, .list l => (validateZip ms l).map CVal.list
  | .tuple _, _ => none
  | dt, v => convert dt v
def validateAll : CDT → List CVal → Option (List CVal)
  | _, [] => some []
  | m, v :: vs => match validate m v, validateAll m vs with
    | some v', some vs' => some (v' :: vs')
    | _, _ => none
def validateZip : List CDT → List CVal → Option (List CVal)
  | [], [] => some []
  | m :: ms, v :: vs => match validate m v, validateZip ms vs with
    | some v', some vs' => some (v' :: vs')
    | _, _ => none
  | _, _ => none
end

def natProp (v : CVal) (hi : Int) : Option Nat :=
  match asInt v with
  | some i => if 0 ≤ i ∧ i ≤ hi then some i.toNat else none
  | none => none

/-- `dt.setProperty(key, value)` -/
def setProp : CDT → Name → CVal → SetRes CDT
  | .double lo hi u, k, v =>
    if k = "min" then match asNum v with | some q => .ok (.double (some q) hi u) | none => .bad
    else if k = "max" then match asNum v with | some q => .ok (.double lo (some q) u) | none => .bad
    else if k = "unit" then match v with | .str s => .ok (.double lo hi s) | _ => .bad
    else if k = "fmtstr" then match v with | .str _ => .ok (.double lo hi u) | _ => .bad
    else if k = "absolute_resolution" || k = "relative_resolution" then
      match asNum v with | some q => if 0 ≤ q then .ok (.double lo hi u) else .bad | none => .bad
    else .unknown
  | .int lo hi, k, v =>
    if k = "min" then match asInt v with
      | some i => if -unlimited ≤ i ∧ i ≤ unlimited then .ok (.int i hi) else .bad
      | none => .bad
    else if k = "max" then match asInt v with
      | some i => if -unlimited ≤ i ∧ i ≤ unlimited then .ok (.int lo i) else .bad
      | none => .bad
    else .unknown
  | .string lo hi u, k, v =>
    if k = "minchars" then match natProp v unlimited with | some n => .ok (.string n hi u) | none => .bad
    else if k = "maxchars" then match natProp v unlimited with | some n => .ok (.string lo n u) | none => .bad
    else if k = "isUTF8" then match convert .bool v with | some (.bool b) => .ok (.string lo hi b) | _ => .bad
    else .unknown
  | .bool, _, _ => .unknown
  | .enum _, _, _ => .unknown
  | .array lo hi m, k, v =>
    if k = "minlen" then match natProp v defaultMaxInt with | some n => .ok (.array n hi m) | none => .bad
    else if k = "maxlen" then match natProp v defaultMaxInt with | some n => .ok (.array lo n m) | none => .bad
    else match setProp m k v with
      | .ok m' => .ok (.array lo hi m')
      | .unknown => .unknown
      | .bad => .bad
  | .tuple _, _, _ => .unknown

def leOptOpt : Option Int → Option Int → Bool
  | some a, some b => decide (a ≤ b)
  | _, _ => true

/-- `dt.checkProperties()` passes -/
def checkDT : CDT → Bool
  | .double lo hi _ => leOptOpt lo hi
  | .int lo hi => decide (lo ≤ hi)
  | .string lo hi _ => decide (lo ≤ hi)
  | .bool => true
  | .enum _ => true
  | .array lo hi m => decide (lo ≤ hi) && checkDT m
  | .tuple _ => true

mutual
/-- `dt.default` -/
def dtDefault : CDT → CVal
  | .double lo hi _ => if geOpt 0 lo && leOpt 0 hi then .num 0 else match lo with | some q => .num q | none => .other
  | .int lo hi => if decide (lo ≤ 0) && decide (0 ≤ hi) then .num 0 else .num (4 * lo)
  | .string lo _ _ => .str (String.ofList (List.replicate lo ' '))
  | .bool => .bool false
  | .enum ms => match ms with | m :: _ => .num (4 * m.2) | [] => .other
  | .array lo _ m => .list (List.replicate lo (dtDefault m))
  | .tuple ms => .list (dtDefaultAll ms)          -- `tuple(el.default for el in members)`
def dtDefaultAll : List CDT → List CVal
  | [] => []
  | m :: ms => dtDefault m :: dtDefaultAll ms
end

def limitDT : LimitKind → CDT → CDT
  | .limits, dt => .tuple [dt, dt]
  | _, dt => dt

def dtMin : CDT → CVal
  | .double (some q) _ _ => .num q
  | .int lo _ => .num (4 * lo)
  | _ => .other
def dtMax : CDT → CVal
  | .double _ (some q) _ => .num q
  | .int _ hi => .num (4 * hi)
  | _ => .other

def limitDefault : LimitKind → CDT → CVal
  | .min, dt => dtMin dt
  | .max, dt => dtMax dt
  | .limits, dt => .list [dtMin dt, dtMax dt]

def visibilityEnum : CDT := .enum [("user", 1), ("advanced", 2), ("expert", 3)]

/-- settable properties of `Parameter` itself (params.py:117-166) other than value/default -/
def ownProp (k : Name) : Option (CVal → Option CVal) :=
  if k = "readonly" then some (validate .bool)
  else if k = "visibility" then some (validate visibilityEnum)
  else if k = "group" then some (validate (.string 0 unlimited.toNat false))
  else if k = "description" then some (validate (.string 0 unlimited.toNat true))
  else if k = "export" then some (fun v => match validate .bool v with        -- OrType(BoolType(), StringType())
    | some b => some b
    | none => validate (.string 0 unlimited.toNat false) v)
  else if k = "needscfg" || k = "update_unchanged" || k = "influences" || k = "constant" || k = "datatype" then
    some some      -- settable, never generated
  else none

/-- settable properties of `Command` (params.py:369-398) -/
def cmdProp (k : Name) : Option (CVal → Option CVal) :=
  if k = "visibility" then some (validate visibilityEnum)
  else if k = "group" then some (validate (.string 0 unlimited.toNat false))
  else if k = "description" then some (validate (.string 0 unlimited.toNat true))
  else if k = "export" then some (fun v => match validate .bool v with
    | some b => some b
    | none => validate (.string 0 unlimited.toNat false) v)
  else if k = "influences" || k = "argument" || k = "result" || k = "datatype" then some some      -- never generated
  else none

/-- a string or a number which is no member of the `visibility` enum: `ValueError` → `ProgrammingError` -/
def cmdRaises (k : Name) (v : CVal) : Bool :=
  k == "visibility" && (match v with | .str _ => true | .num _ => true | _ => false)

def ops : Ops CDT CVal :=
  { convert := convert, validate := validate, setProp := setProp, checkDT := checkDT, dtDefault := dtDefault,
    ownProp := ownProp, cmdProp := cmdProp, cmdRaises := cmdRaises, limitDT := limitDT, limitDefault := limitDefault }

/-! ## the main unit (datatypes.py: `DataType.unit = ''`, `HasUnit.set_main_unit`, `ArrayOf.unit` / `set_main_unit`,
`TupleOf.set_main_unit`) -/

/-- `datatype.unit`: FloatRange has the property; an array shows the unit of its members; everything else `''` -/
def unitOf : CDT → String
  | .double _ _ u => u
  | .array _ _ m => unitOf m
  | _ => ""

mutual
/-- `datatype.set_main_unit(unit)`: `if '$' in self.unit: unit.replace('$', unit)`; arrays and tuples hand it to
their members -/
def setMainUnit (mu : String) : CDT → CDT
  | .double lo hi u => .double lo hi (u.replace "$" mu)
  | .array lo hi m => .array lo hi (setMainUnit mu m)
  | .tuple ms => .tuple (setMainUnitAll mu ms)
  | dt => dt
def setMainUnitAll (mu : String) : List CDT → List CDT
  | [] => []
  | m :: ms => setMainUnit mu m :: setMainUnitAll mu ms
end

def unitOps : UnitOps CDT := ⟨unitOf, setMainUnit⟩

end Frappy.ConfigDT
