import FrappyModel.Klass.Instance
/-
C09 — two kinds of declarations a class body is *elaborated* from before `pureDefine` sees it:

* `status = Parameter(datatype=StatusType(<class>, *<standard code names>, **<custom codes>))`
  (frappy/datatypes.py: `StatusType.__init__`): the enum is `Enum(Enum(<enum of the status of the class>, **standard), **custom)`
  (frappy/lib/enum.py:251-311: the members of the parent first, then the new ones; a pair that is there already is not added
  again; a conflicting pair is a `TypeError` - the class definition fails and is skipped by the model);
* `<name> = StructParam(desc, {member: Parameter(...)}, prefix, readonly=r)` (frappy/extparams.py:66-105): the struct
  parameter, and - set on the class by `__set_name__`, i.e. behind everything written in the body - one parameter
  `<prefix><member>` per member, with `readonly` of the struct and `influences` pointing at each other.
-/
namespace Frappy.Klass

/-- `Enum(parent, **more)`: the members of `base`, then those of `more` that are not there yet -/
def addCodes (base : List (String × Int)) : List (String × Int) → List (String × Int)
  | [] => base
  | m :: rest => addCodes (if m ∈ base then base else base ++ [m]) rest

/-- the datatype object `StatusType(...)` builds: `TupleOf(EnumType(enum), StringType())` -/
def statusTree (parent more : List (String × Int)) : DTree :=
  .node "tuple" [] [.node "enum" [] [] (addCodes parent more), .node "string" [] [] []] []

/-- the codes of a status: the enum of the first member of the datatype of the accessible `status` -/
def statusCodesOfViews (vs : List (Name × Option AccView)) : List (String × Int) :=
  match aget? vs "status" with
  | some (some v) =>
    match v.tree with
    | some (.node _ _ (e :: _) _) => e.members
    | _ => []
  | _ => []

/-- `first.status.datatype.members[0]._enum` of a class as it is now -/
def statusCodesOf (w : World) (c : Name) : List (String × Int) := statusCodesOfViews (describeH w (.cls c))

/-- the standard codes named by `names` (`table`: the class attributes of `StatusType`, generated from the source) -/
def stdCodes (table : List (String × Int)) (names : List String) : List (String × Int) :=
  names.filterMap (fun n => (aget? table n).map (fun c => (n, c)))

/-- a status datatype not worked out yet travels as a tree of kind `status?`: property `parent` (the class whose status is
extended; absent: none), members = the standard and custom codes to be added -/
def pendingStatus (parent : Option Name) (more : List (String × Int)) : DTree :=
  .node "status?" (match parent with | some p => [("parent", p)] | none => []) [] more

def elabTree (w : World) : DTree → DTree
  | .node "status?" p _ more =>
    statusTree (match aget? p "parent" with | some c => statusCodesOf w c | none => []) more
  | t => t

/-- a declaration of a class body, with its status datatype worked out in the world the class is defined in -/
def elabDecl (w : World) : Decl → Decl
  | .param desc (some t) props inh => .param desc (some (elabTree w t)) props inh
  | d => d

def elabClass (w : World) (d : ClassDecl) : ClassDecl := { d with decls := d.decls.map (fun nd => (nd.1, elabDecl w nd.2)) }

/-! ### StructParam -/

/-- the JSON text of a list of names, as property values travel -/
def jsonNames (l : List String) : PVal := "[" ++ ",".intercalate (l.map quote) ++ "]"

structure StructDecl where
  desc : Option PVal
  pfx : String
  readonly : PVal
  tree : DTree
  /-- member name, description and declared datatype of its parameter -/
  members : List (Name × PVal × DTree)
deriving Repr, Inhabited

def StructDecl.structParam (d : StructDecl) : Decl :=
  .param d.desc (some d.tree) [("readonly", d.readonly), ("influences", jsonNames (d.members.map (fun m => d.pfx ++ m.1)))] true

def StructDecl.memberParams (name : Name) (d : StructDecl) : List (Name × Decl) :=
  d.members.map (fun m => (d.pfx ++ m.1, .param (some m.2.1) (some m.2.2) [("readonly", d.readonly), ("influences", jsonNames [name])] true))

/-- the class body as `__init_subclass__` finds it: every struct declaration in its place, the member parameters behind everything -/
def expandStructs (decls : List (Name × (Decl ⊕ StructDecl))) : List (Name × Decl) :=
  decls.map (fun nd => match nd.2 with | .inl d => (nd.1, d) | .inr s => (nd.1, s.structParam)) ++
  decls.flatMap (fun nd => match nd.2 with | .inl _ => [] | .inr s => s.memberParams nd.1)

end Frappy.Klass
