/-
C15 — `frappy/lib/multievent.py` at the granularity of its primitives.

`MultiEvent(threading.Event)`: `events` (set of pending single events), `_lock` (RLock), the flag of the underlying
`threading.Event`.  One action per primitive call a thread makes on shared state (DESIGN 3.7); the pure Python
computation between two primitives belongs to the preceding action:

  set_(ev)   : with _lock:  [lock: acquire; events.discard(ev); empty := not events]
                            [evset: super().set()]        only when `empty`
                            [unlock]
  clear_(ev) : with _lock:  [lock: acquire; events.add(ev)]
                            [evclear: super().clear()]
                            [unlock]
  wait()     : [wait: if not events → return True at once]  [waitdone ok: the flag is set / the time-out expired]

A trace in which `evset`/`evclear` happens without the lock (or in another order) cannot be followed: `step` = none.
-/
namespace Frappy.MultiEvent

abbrev Tid := String
abbrev Name := String

inductive Want where
  | set (t : Name)          -- `_SingleEvent.set` was called (the trigger fired)
  | clear (t : Name)        -- `MultiEvent.new` / `get_trigger` was called (a trigger is being registered)
deriving Repr, DecidableEq

inductive Stage where
  | setHold (empty : Bool)  -- lock taken, event discarded; were the events empty then?
  | setDone                 -- the underlying event is set
  | clearHold               -- lock taken, event added
  | clearDone               -- the underlying event is cleared
deriving Repr, DecidableEq

inductive Lbl where
  | fire (t : Name) | register (t : Name)
  | lock | unlock | evset | evclear
  | wait | waitdone (ok : Bool)
deriving Repr, DecidableEq

structure ME where
  events : List Name := []
  flag : Bool := false
  hold : Option (Tid × Stage) := none       -- the holder of `_lock` and how far it got
  want : List (Tid × Want) := []            -- operations begun, lock not yet taken
  waiter : Option (Tid × Bool) := none      -- thread inside `wait()`; `true`: events were empty on entry
deriving Repr

def addEv (l : List Name) (t : Name) : List Name := if l.contains t then l else l ++ [t]

def busy (m : ME) (T : Tid) : Bool :=
  (m.want.any (fun p => p.1 == T)) || (match m.hold with | some (h, _) => h == T | none => false) ||
  (match m.waiter with | some (h, _) => h == T | none => false)

/-- one primitive of thread `T`; `none`: the real protocol never does this here -/
def step (m : ME) (T : Tid) : Lbl → Option ME
  | .fire t => if busy m T then none else some { m with want := (T, Want.set t) :: m.want }
  | .register t => if busy m T then none else some { m with want := (T, Want.clear t) :: m.want }
  | .lock =>
    match m.hold, m.want.lookup T with
    | none, some (Want.set t) =>
      some { m with events := m.events.erase t, hold := some (T, Stage.setHold (m.events.erase t).isEmpty),
                    want := m.want.filter (fun p => p.1 != T) }
    | none, some (Want.clear t) =>
      some { m with events := addEv m.events t, hold := some (T, Stage.clearHold),
                    want := m.want.filter (fun p => p.1 != T) }
    | _, _ => none
  | .evset =>
    match m.hold with
    | some (h, Stage.setHold true) => if h == T then some { m with flag := true, hold := some (T, Stage.setDone) } else none
    | _ => none
  | .evclear =>
    match m.hold with
    | some (h, Stage.clearHold) => if h == T then some { m with flag := false, hold := some (T, Stage.clearDone) } else none
    | _ => none
  | .unlock =>
    match m.hold with
    | some (h, Stage.setHold false) => if h == T then some { m with hold := none } else none
    | some (h, Stage.setDone) => if h == T then some { m with hold := none } else none
    | some (h, Stage.clearDone) => if h == T then some { m with hold := none } else none
    | _ => none
  | .wait => if busy m T then none else some { m with waiter := some (T, m.events.isEmpty) }
  | .waitdone ok =>
    match m.waiter with
    | some (h, e) =>
      if h == T && (if ok then e || m.flag else !e) then some { m with waiter := none } else none
    | none => none

def run : ME → List (Tid × Lbl) → Option ME
  | m, [] => some m
  | m, (T, l) :: rest =>
    match step m T l with
    | some m' => run m' rest
    | none => none

/-- index of the first label that cannot be followed -/
def firstStuck : ME → Nat → List (Tid × Lbl) → Option Nat
  | _, _, [] => none
  | m, i, (T, l) :: rest =>
    match step m T l with
    | some m' => firstStuck m' (i + 1) rest
    | none => some i

end Frappy.MultiEvent
