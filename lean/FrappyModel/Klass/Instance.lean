import FrappyModel.Klass.Merge
/-
C09 — the concrete side: where the (repaired) code creates objects and where it re-uses them.
`defineClass` lays the result of `pureDefine` out in the heap (modulebase.py:64-120), `instantiate`
copies every accessible of the class including its datatype and applies the configuration to the copy
(modulebase.py:384-397, 442-466; params.py:69-71, 250-259), `setprop`/`addEnum` are the run-time
mutations of one instance (`Parameter.setProperty`, params.py:335-347; `HasControlledBy.register_input`,
mixins.py:36-49).  Every operation except the two mutations only appends to the heap.
-/
namespace Frappy.Klass

structure ClassRec where
  pure : ClassV
  /-- the Parameter/Command objects lying in this class' `__dict__` -/
  accRef : List (Name × Ref)
  /-- the datatype objects given in the declarations of this class -/
  declDt : List (Name × Ref)
  /-- `cls.accessibles` (for a mixin: the accessibles of its `__dict__`) -/
  accessibles : List (Name × Ref)
  /-- the Property objects lying in this class' `__dict__` -/
  propRef : List (Name × Ref)
  /-- `cls.propertyDict` (for a mixin: the Property objects of its `__dict__`) -/
  propDict : List (Name × Ref)
deriving Inhabited

structure InstRec where
  name : Name
  cls : Name
  accessibles : List (Name × Ref)
  /-- `self.propertyValues`: the values of the module properties live on the instance, the Property objects
  stay on the class (properties.py:119-126) -/
  mvals : PropMap
deriving Inhabited

structure World where
  heap : Heap := []
  classes : List ClassRec := []
  insts : List InstRec := []
deriving Inhabited

inductive Owner where
  | cls (n : Name)
  | inst (n : Name)
deriving DecidableEq, Repr, Inhabited

def World.findClass (w : World) (n : Name) : Option ClassRec := w.classes.find? (fun c => c.pure.decl.name == n)
def World.findInst (w : World) (n : Name) : Option InstRec := w.insts.find? (fun i => i.name == n)

/-- the accessibles of an owner (`cls.accessibles` / `self.accessibles`) -/
def World.accessiblesOf (w : World) : Owner → List (Name × Ref)
  | .cls n => match w.findClass n with | some c => c.accessibles | none => []
  | .inst n => match w.findInst n with | some i => i.accessibles | none => []

/-- every object an owner holds directly: its accessibles, and for a class everything in its `__dict__` -/
def World.roots (w : World) : Owner → List Ref
  | .cls n => match w.findClass n with
    | some c => c.accessibles.map (·.2) ++ c.accRef.map (·.2) ++ c.declDt.map (·.2) ++ c.propRef.map (·.2) ++
        c.propDict.map (·.2)
    | none => []
  | .inst n => match w.findInst n with | some i => i.accessibles.map (·.2) | none => []

/-- what can be seen of one accessible: its properties and its datatype (with members and enum) -/
structure AccView where
  isCmd : Bool
  props : PropMap
  tree : Option DTree
deriving Repr, Inhabited

def treeAt (h : Heap) : Option Ref → Option DTree
  | some rd => h.dtAt rd
  | none => none

def viewAt (h : Heap) (r : Ref) : Option AccView :=
  match h.accAt r with
  | some a => some ⟨a.isCmd, a.props, treeAt h a.dtype⟩
  | none => none

/-- the abstraction: what `for_export()` of all accessibles of an owner is computed from -/
def describeH (w : World) (o : Owner) : List (Name × Option AccView) :=
  (w.accessiblesOf o).map (fun nr => (nr.1, viewAt w.heap nr.2))

/-- what can be seen of one module property of an owner: the Property object of the class, and for an
instance its own value (`propertyValues.get(name)`) -/
structure MView where
  prop : Option PropV
  value : Option PVal
deriving DecidableEq, Repr, Inhabited

/-- the abstraction, module-level part: what `exportProperties()` (properties.py:174-187) and the internal
property values of an owner are computed from.  An instance holds values only; the Property objects it is
described with are the ones of its class. -/
def describeM (w : World) : Owner → List (Name × MView)
  | .cls n => match w.findClass n with
    | some c => c.propDict.map (fun nr => (nr.1, ⟨w.heap.propAt nr.2, none⟩))
    | none => []
  | .inst n => match w.findInst n with
    | some i => match w.findClass i.cls with
      | some c => c.propDict.map (fun nr => (nr.1, ⟨w.heap.propAt nr.2, aget? i.mvals nr.1⟩))
      | none => []
    | none => []

/-- objects reachable from one accessible object -/
def reachAcc (h : Heap) (r : Ref) : List Ref :=
  r :: match h.accAt r with
    | some a => a.dtype.toList ++ a.ownDt.toList ++ a.mergedDt.toList
    | none => []

def reach (w : World) (o : Owner) : List Ref := (w.roots o).flatMap (reachAcc w.heap)

/-! ## class definition -/

def resolveDt (w : World) (self : Name) (selfDecl : List (Name × Ref)) : DtId → Option Ref
  | .decl c n => if c == self then aget? selfDecl n else (w.findClass c).bind (fun cr => aget? cr.declDt n)
  | .copy _ _ => none

def AccV.declTree (self : Name) (a : AccV) : Option DTree :=
  match a.ownDt with
  | .set (.decl c _) t => if c == self then some t else none
  | _ => none

/-- pass 1: the datatype objects written in the declarations -/
def allocDecl (self : Name) (st : Heap × List (Name × Ref)) (ke : Name × EntryV) : Heap × List (Name × Ref) :=
  match ke.2 with
  | .acc a => match a.declTree self with
    | some t => let (h, r) := st.1.alloc (.dt t); (h, st.2 ++ [(ke.1, r)])
    | none => st
  | _ => st

def allocSlot (w : World) (self : Name) (selfDecl : List (Name × Ref)) (h : Heap) : DtSlot → Heap × Option Ref
  | .set (.copy _ _) t => (h ++ [.dt t], some h.length)
  | .set id _ => (h, resolveDt w self selfDecl id)
  | _ => (h, none)

def slotRef (w : World) (self : Name) (selfDecl : List (Name × Ref)) : DtSlot → Option Ref
  | .set id _ => resolveDt w self selfDecl id
  | _ => none

def mergedRef (w : World) (self : Name) (selfDecl : List (Name × Ref)) : Option MProps → Option Ref
  | some m => slotRef w self selfDecl m.dt
  | none => none

/-- the heap object of a class-level accessible whose datatype object is `dref` -/
def accObj (w : World) (self : Name) (selfDecl : List (Name × Ref)) (a : AccV) (dref : Option Ref) : AccH :=
  ⟨a.isCmd, a.props, dref, slotRef w self selfDecl a.ownDt, mergedRef w self selfDecl a.merged⟩

/-- pass 2: the Parameter/Command objects of the class' `__dict__` -/
def allocAcc (w : World) (self : Name) (selfDecl : List (Name × Ref)) (st : Heap × List (Name × Ref))
    (ke : Name × EntryV) : Heap × List (Name × Ref) :=
  match ke.2 with
  | .acc a =>
    ((allocSlot w self selfDecl st.1 a.dt).1 ++ [.acc (accObj w self selfDecl a (allocSlot w self selfDecl st.1 a.dt).2)],
     st.2 ++ [(ke.1, (allocSlot w self selfDecl st.1 a.dt).1.length)])
  | _ => st

def accessibleRef (w : World) (self : Name) (own : List (Name × Ref)) (ns : Name × SlotV) : Option (Name × Ref) :=
  (if ns.2.owner == self then aget? own ns.1
   else (w.findClass ns.2.owner).bind (fun cr => aget? cr.accRef ns.1)).map (fun r => (ns.1, r))

def dictAccs (own : List (Name × Ref)) (dict : List (Name × EntryV)) : List (Name × Ref) :=
  dict.filterMap (fun ke => match ke.2 with | .acc _ => (aget? own ke.1).map (fun r => (ke.1, r)) | _ => none)

def chainOf (w : World) (d : ClassDecl) : List ClassV :=
  d.mro.tail.filterMap (fun n => (w.findClass n).map (·.pure))

/-- pass 0: the Property objects of the class' `__dict__` (declared ones, and the copies made for bare values) -/
def allocProp (st : Heap × List (Name × Ref)) (ke : Name × EntryV) : Heap × List (Name × Ref) :=
  match ke.2 with
  | .prop p => (st.1 ++ [.prop p], st.2 ++ [(ke.1, st.1.length)])
  | _ => st

def layoutProp (w : World) (cv : ClassV) : Heap × List (Name × Ref) :=
  cv.dict.foldl allocProp (w.heap, [])

/-- `cls.propertyDict[name]`: the object lies in the `__dict__` of the class it was found in -/
def propertyRef (w : World) (self : Name) (own : List (Name × Ref)) (ns : Name × PSlot) : Option (Name × Ref) :=
  (if ns.2.owner == self then aget? own ns.1
   else (w.findClass ns.2.owner).bind (fun cr => aget? cr.propRef ns.1)).map (fun r => (ns.1, r))

def layoutDecl (w : World) (cv : ClassV) : Heap × List (Name × Ref) :=
  cv.dict.foldl (allocDecl cv.decl.name) ((layoutProp w cv).1, [])

def layoutAcc (w : World) (cv : ClassV) (s1 : Heap × List (Name × Ref)) : Heap × List (Name × Ref) :=
  cv.dict.foldl (allocAcc w cv.decl.name s1.2) (s1.1, [])

def layoutAccessibles (w : World) (cv : ClassV) (own : List (Name × Ref)) : List (Name × Ref) :=
  if cv.decl.isModule then cv.accessibles.filterMap (accessibleRef w cv.decl.name own) else dictAccs own cv.dict

/-- the classes a new class can take objects from: the ones along its MRO (an accessible or a declared datatype
object found by `__init_subclass__` lies in the `__dict__` of a class of `cls.__mro__`; `mro.tail`: the classes
other than the new one, exactly the ones `chainOf` hands to `pureDefine`) -/
def World.restrictTo (w : World) (mro : List Name) : World :=
  { w with classes := w.classes.filter (fun c => mro.contains c.pure.decl.name) }

def layoutRec (w : World) (cv : ClassV) : ClassRec :=
  ⟨cv, (layoutAcc (w.restrictTo cv.decl.mro.tail) cv (layoutDecl w cv)).2, (layoutDecl w cv).2,
   layoutAccessibles (w.restrictTo cv.decl.mro.tail) cv (layoutAcc (w.restrictTo cv.decl.mro.tail) cv (layoutDecl w cv)).2,
   (layoutProp w cv).2, cv.props.filterMap (propertyRef w cv.decl.name (layoutProp w cv).2)⟩

def layout (w : World) (cv : ClassV) : World :=
  { w with heap := (layoutAcc (w.restrictTo cv.decl.mro.tail) cv (layoutDecl w cv)).1, classes := w.classes ++ [layoutRec w cv] }

def defineClass (T : Tables) (w : World) (d : ClassDecl) : World :=
  layout w (pureDefine T (chainOf w d) d)

/-! ## instances -/

def unquote (s : PVal) : String := String.ofList ((s.toList.drop 1).dropLast)

/-- `_add_accessible` with cfg (modulebase.py:442-466) on the copy -/
def applyCfg (T : Tables) (v : AccView) (cfg : PropMap) : AccView :=
  cfg.foldl (fun v kv =>
    if v.isCmd || T.isParamProp kv.1 then { v with props := v.props.put kv.1 kv.2 }
    else { v with tree := v.tree.map (fun t => t.setProp T.dtOwn kv.1 kv.2) }) v

def mainUnitOf (views : List (Name × AccView)) : Option String :=
  match aget? views "value" with
  | some v => if v.isCmd then none else match v.tree with
    | some t => match t.unitOf with
      | some u => if unquote u == "" then none else some (unquote u)
      | none => none
    | none => none
  | none => none

/-- `Parameter.finish` (params.py:299-309) on the copy, after the configuration: a parameter with a constant is read-only -/
def finishView (v : AccView) : AccView :=
  match v.isCmd, v.props.get? "constant" with
  | false, some c => if c == "null" then v else { v with props := v.props.put "readonly" "true" }
  | _, _ => v

/-- the accessibles of a new instance of a class whose accessibles look like `views`
(`Module.__init__`, modulebase.py:384-412: copy, apply cfg, finish, main unit) -/
def instViews (T : Tables) (views : List (Name × Option AccView)) (cfg : List (Name × PropMap)) : List (Name × AccView) :=
  let copied := views.filterMap (fun nv => nv.2.map (fun v => (nv.1, finishView (applyCfg T v ((aget? cfg nv.1).getD [])))))
  match mainUnitOf copied with
  | some u => copied.map (fun nv => if nv.2.isCmd then nv else
      (nv.1, { nv.2 with tree := nv.2.tree.map (DTree.mainUnit (fun p => quote ((unquote p).replace "$" u))) }))
  | none => copied

/-- `self.propertyValues` of a new instance of a class whose module properties look like `props`
(properties.py:119-126: the values the Property objects carry; modulebase.py:372-384: the values given in the
configuration, as `name = value` or as `name = {'value': value}`) -/
def instMVals (props : List (Name × MView)) (cfg : List (Name × PropMap)) : PropMap :=
  props.foldl (fun m np => match (aget? cfg np.1).bind (fun c => aget? c "value") with
      | some v => m.put np.1 v
      | none => m)
    (props.filterMap (fun np => (np.2.prop.bind (·.value)).map (fun v => (np.1, v))))

def allocView (st : Heap × List (Name × Ref)) (nv : Name × AccView) : Heap × List (Name × Ref) :=
  match nv.2.tree with
  | some t =>
    (st.1 ++ [.dt t] ++ [.acc ⟨nv.2.isCmd, nv.2.props, some st.1.length, none, none⟩], st.2 ++ [(nv.1, st.1.length + 1)])
  | none =>
    (st.1 ++ [.acc ⟨nv.2.isCmd, nv.2.props, none, none, none⟩], st.2 ++ [(nv.1, st.1.length)])

def instantiate (T : Tables) (w : World) (name cls : Name) (cfg : List (Name × PropMap)) : World :=
  let s := (instViews T (describeH w (.cls cls)) cfg).foldl allocView (w.heap, [])
  { w with heap := s.1, insts := w.insts ++ [⟨name, cls, s.2, instMVals (describeM w (.cls cls)) cfg⟩] }

/-! ## run-time mutation of one instance -/

/-- `Parameter.setProperty(key, val)` of one instance (`path = []`: a parameter property is set on the Parameter
object, anything else on its datatype object), or `setProperty` on a member datatype of its datatype found along
`path` (what a driver does to narrow the element type of a tuple / limits / struct parameter at run time) -/
def setprop (T : Tables) (w : World) (inst par : Name) (path : List Nat) (key : Name) (val : PVal) : World :=
  match aget? (w.accessiblesOf (.inst inst)) par with
  | some r => match w.heap.accAt r with
    | some a =>
      if path.isEmpty && (a.isCmd || T.isParamProp key) then { w with heap := w.heap.set r (.acc { a with props := a.props.put key val }) }
      else match a.dtype with
        | some rd => match w.heap.dtAt rd with
          | some t => { w with heap := w.heap.set rd (.dt (DTree.setPropAt T.dtOwn path t key val)) }
          | none => w
        | none => w
    | none => w
  | none => w

def nextEnum (ms : List (String × Int)) : Int := ms.foldl (fun m kv => max m kv.2) 0 + 1

/-- the heap after `register_input`: a new enum datatype object, and the accessible at `r` pointing to it -/
def enumHeap (h : Heap) (r : Ref) (a : AccH) (t : DTree) (member : Name) : Heap :=
  List.set (h ++ [.dt (.node "enum" [] [] (t.members ++ [(member, nextEnum t.members)]))]) r
    (.acc { a with dtype := some h.length })

/-- `register_input` (mixins.py:36-49): the datatype object is **replaced** by a new enum -/
def addEnum (w : World) (inst par member : Name) : World :=
  match aget? (w.accessiblesOf (.inst inst)) par with
  | some r => match w.heap.accAt r with
    | some a => match a.dtype with
      | some rd => match w.heap.dtAt rd with
        | some t =>
          { w with heap := enumHeap w.heap r a t member }
        | none => w
      | none => w
    | none => w
  | none => w

inductive Op where
  | define (d : ClassDecl)
  | inst (name cls : Name) (cfg : List (Name × PropMap))
  | setprop (inst par : Name) (path : List Nat) (key : Name) (val : PVal)
  | addEnum (inst par member : Name)
deriving Inhabited

def Op.target : Op → Owner
  | .define d => .cls d.name
  | .inst n _ _ => .inst n
  | .setprop i _ _ _ _ => .inst i
  | .addEnum i _ _ => .inst i

def step (T : Tables) (w : World) : Op → World
  | .define d => defineClass T w d
  | .inst n c cfg => instantiate T w n c cfg
  | .setprop i p pa k v => setprop T w i p pa k v
  | .addEnum i p m => addEnum w i p m

def run (T : Tables) (w : World) (ops : List Op) : World := ops.foldl (step T) w

/-! ## export (`for_export`, properties.py:170-186) -/

def exportProps (rows : List (Name × Name × PVal × Bool × Bool)) (props : PropMap) : PropMap :=
  rows.filterMap (fun row =>
    let (name, ext, dflt, always, stable) := row
    match props.get? name with
    | some v => if always || v != dflt || !stable then some (ext, v) else none
    | none => if always then some (ext, dflt) else none)

/-- one entry of `exportProperties()` (properties.py:174-187) -/
def exportM (nv : Name × MView) : Option (Name × PVal) :=
  match nv.2.prop with
  | some p =>
    let val := nv.2.value.getD p.dflt
    if p.exported != "false" && (p.exported == "\"always\"" || val != p.dflt) then some (p.extname, val) else none
  | none => none

def exportView (T : Tables) (v : AccView) : PropMap :=
  exportProps (if v.isCmd then T.cmdExport else T.paramExport) v.props

end Frappy.Klass
