import FrappyModel.Klass.Heap
/-
C09 — the class algebra at value level: what `HasAccessibles.__init_subclass__`
(frappy/modulebase.py:64-120, repaired: merge into a copy unless the inherited accessible was merged
with the same properties) computes for a class from the classes along its MRO and its own
declarations.  Object identity is kept as *tokens*: every class-level Parameter/Command object lies
in exactly one class `__dict__` under its name (`owner`), a datatype object is either the one given
in a declaration (`DtId.decl`) or the copy owned by an accessible (`DtId.copy`).
Python's C3 linearisation is an input (`ClassDecl.mro`).
-/
namespace Frappy.Klass

/-- constant tables re-extracted from the source (harness/tables/c09.py) -/
structure Tables where
  /-- `Parameter.propertyDict` without `datatype`: name ↦ default -/
  paramProps : PropMap
  /-- property table of every datatype class, by exported type name -/
  dtypeProps : List (String × List Name)
  /-- `PREDEF_ORDER` -/
  predef : List Name
  /-- exported properties: name, extname, default, always, default stable under validation -/
  paramExport : List (Name × Name × PVal × Bool × Bool)
  cmdExport : List (Name × Name × PVal × Bool × Bool)

def Tables.isParamProp (T : Tables) (k : Name) : Bool := ahas T.paramProps k
def Tables.dtOwn (T : Tables) (kind : String) : List Name := (aget? T.dtypeProps kind).getD []

inductive DtId where
  | decl (cls name : Name)
  | copy (cls name : Name)
deriving DecidableEq, Repr, Inhabited

/-- the `datatype` (Parameter) / `argument` (Command) entry of a property dict -/
inductive DtSlot where
  | unset
  | cleared
  | set (id : DtId) (tree : DTree)
deriving Repr, Inhabited

def DtSlot.isUnset : DtSlot → Bool | .unset => true | _ => false
def DtSlot.tree? : DtSlot → Option DTree | .set _ t => some t | _ => none
/-- `is`/`==` on the datatype entry: object identity -/
def DtSlot.same : DtSlot → DtSlot → Bool
  | .unset, .unset => true
  | .cleared, .cleared => true
  | .set a _, .set b _ => a == b
  | _, _ => false

/-- `merged_properties[name]` -/
structure MProps where
  props : PropMap
  dt : DtSlot
deriving Repr, Inhabited

/-- `mergedProperties == properties` (dict equality; datatype objects compare by identity) -/
def MProps.eqv (a b : MProps) : Bool := PropMap.eqv a.props b.props && a.dt.same b.dt

/-- a class-level Parameter/Command object -/
structure AccV where
  isCmd : Bool
  props : PropMap
  dt : DtSlot
  own : PropMap
  ownDt : DtSlot
  merged : Option MProps
deriving Repr, Inhabited

/-- `Property.__set_name__` (properties.py:86-89) -/
def PropV.setName (name : Name) (p : PropV) : PropV :=
  if p.exported != "false" && p.extname == "" then { p with extname := "_" ++ name } else p

inductive Decl where
  | param (desc : Option PVal) (dt : Option DTree) (props : PropMap) (inherit : Bool)
  | cmd (desc : Option PVal) (arg : Option DTree) (props : PropMap)
  | value (v : PVal) (callable : Bool) (optional : Option PVal)
  | none
  | prop (p : PropV)
deriving Repr, Inhabited

structure ClassDecl where
  name : Name
  mro : List Name
  isModule : Bool
  decls : List (Name × Decl)
deriving Repr, Inhabited

inductive EntryV where
  | acc (a : AccV)
  | bare (v : PVal) (callable : Bool) (optional : Option PVal)
  | none
  | prop (p : PropV)
deriving Repr, Inhabited

/-- module property of a class: the Property object (lying in `owner`'s `__dict__`) and its state -/
structure PSlot where
  owner : Name
  val : PropV
deriving Repr, Inhabited

/-- accessible of a class: the object (lying in `owner`'s `__dict__`) and its state -/
structure SlotV where
  owner : Name
  val : AccV
deriving Repr, Inhabited

structure ClassV where
  decl : ClassDecl
  dict : List (Name × EntryV)
  accessibles : List (Name × SlotV)
  /-- `cls.propertyDict` (for a mixin outside `HasProperties`: the Property objects of its `__dict__`) -/
  props : List (Name × PSlot)
deriving Repr, Inhabited

def valueTypeTree : DTree := .node "value" [] [] []
def quote (s : String) : PVal := "\"" ++ s ++ "\""

def applyDtProps (T : Tables) (t : DTree) (props : PropMap) : DTree :=
  props.foldl (fun t kv => t.setProp T.dtOwn kv.1 kv.2) t

def withDesc (props : PropMap) : Option PVal → PropMap
  | some d => props.put "description" d
  | none => props

/-- `fixExport` (params.py:104-112) on the property map -/
def fixExport (T : Tables) (name : Name) (props : PropMap) : PropMap :=
  if (props.get? "export").getD "true" == "true" then
    props.put "export" (if T.predef.contains name then quote name else quote ("_" ++ name))
  else props

/-- `Parameter.__init__` / `Command.__init__` + `__set_name__` (params.py:197-229, 394-431): the object
as it lies in the class namespace before `__init_subclass__` runs -/
def entryOf (T : Tables) (cls name : Name) : Decl → EntryV
  | .param desc dt props inherit =>
    let kwds := withDesc props desc
    let pv := kwds.filter (fun kv => T.isParamProp kv.1)
    let dp := kwds.filter (fun kv => !T.isParamProp kv.1)
    let named := fixExport T name pv        -- `__set_name__`, after ownProperties was taken
    match dt with
    | none =>
      if inherit then .acc ⟨false, named, .unset, PropMap.update dp pv, .unset, none⟩
      else .acc ⟨false, named, .unset, T.paramProps.update pv, .set (.decl cls name) valueTypeTree, none⟩
    | some t =>
      let t' := applyDtProps T t dp
      let slot := DtSlot.set (.decl cls name) t'
      if inherit then .acc ⟨false, named, slot, pv, slot, none⟩
      else .acc ⟨false, named, slot, T.paramProps.update pv, slot, none⟩
  | .cmd desc arg props =>
    let kwds := withDesc props desc
    let slot := match arg with
      | some t => DtSlot.set (.decl cls name) t
      | none => DtSlot.cleared
    .acc ⟨true, fixExport T name kwds, slot, kwds, slot, none⟩
  | .value v c o => .bare v c o
  | .none => .none
  | .prop p => .prop (p.setName name)

/-- `updateProperties` (params.py:261-269, 479-481) -/
def updateProps (T : Tables) (a : AccV) (m : MProps) : MProps :=
  let base := if a.isCmd || a.ownDt.isUnset then m.props else m.props.filter (fun kv => T.isParamProp kv.1)
  ⟨base.update a.own, if a.ownDt.isUnset then m.dt else a.ownDt⟩

structure Walk where
  merged : List (Name × MProps) := []
  accessibles : List (Name × SlotV) := []
  newNames : List Name := []
  overrides : List (Name × EntryV) := []
deriving Inhabited

/-- body of the loop over `base.__dict__.items()` (modulebase.py:79-88) -/
def walkEntry (T : Tables) (isSelf : Bool) (owner : Name) (w : Walk) (ke : Name × EntryV) : Walk :=
  match ke.2 with
  | .acc a =>
    let m := (aget? w.merged ke.1).getD ⟨[], .unset⟩
    { merged := aput w.merged ke.1 (updateProps T a m)
      newNames := if isSelf && !ahas w.accessibles ke.1 && !T.predef.contains ke.1 then w.newNames ++ [ke.1] else w.newNames
      accessibles := aput w.accessibles ke.1 ⟨owner, a⟩
      overrides := aerase w.overrides ke.1 }
  | e => if ahas w.accessibles ke.1 then { w with overrides := aput w.overrides ke.1 e } else w

def walkClass (T : Tables) (isSelf : Bool) (w : Walk) (owner : Name) (dict : List (Name × EntryV)) : Walk :=
  dict.foldl (walkEntry T isSelf owner) w

/-- state of a Parameter after `merge(m)` + `finish()` (params.py:283-315): parameter properties
are assigned, the datatype is a **copy** of the merged one with the merged datatype properties applied -/
def paramState (T : Tables) (cls name : Name) (m : MProps) : PropMap × DtSlot :=
  let pv := m.props.filter (fun kv => T.isParamProp kv.1)
  let dp := m.props.filter (fun kv => !T.isParamProp kv.1)
  (fixExport T name pv,
   match m.dt with
   | .set _ t => .set (.copy cls name) (applyDtProps T t dp)
   | _ => .unset)

/-- state of a Command after `merge(m)` + `finish()` (params.py:497-508): the argument object is
the merged one itself (no copy) -/
def cmdState (T : Tables) (name : Name) (m : MProps) : PropMap × DtSlot :=
  (fixExport T name m.props, m.dt)

def mergedAcc (T : Tables) (cls name : Name) (isCmd : Bool) (own : PropMap) (ownDt : DtSlot) (m : MProps) : AccV :=
  let st := if isCmd then cmdState T name m else paramState T cls name m
  ⟨isCmd, st.1, st.2, own, ownDt, some m⟩

/-- `Command.__call__(func)` (params.py:437-455): a struct argument gets its `optional` list from the
defaults in the signature of `func` (`opt` is the exported form: `none` when every member is optional) -/
def setOptional (opt : Option PVal) : DTree → DTree
  | .node k p cs ms =>
    if k == "struct" then
      match opt with
      | some o => .node k (PropMap.put p "optional" o) cs ms
      | none => .node k (aerase p "optional") cs ms
    else .node k p cs ms

/-- `create_from_value` (params.py:271-281, 483-495) -/
def createFromValue (T : Tables) (cls name : Name) (isCmd : Bool) (m : MProps) (v : PVal) (opt : Option PVal) : AccV :=
  if isCmd then
    ⟨true, fixExport T name m.props,
     match m.dt with | .set _ t => .set (.copy cls name) (setOptional opt t) | d => d, [], .unset, none⟩
  else
    let st := paramState T cls name ⟨m.props.put "value" v, m.dt⟩
    ⟨false, st.1, st.2, [("value", v)], .unset, none⟩

structure Built where
  dict : List (Name × EntryV)
  accs : List (Name × SlotV) := []
deriving Inhabited

/-- `setattr(cls, name, aobj)`: the accessible replaces what lies in the `__dict__` of the new class under its name — but
never a Property object written in that class body (Python: `create_from_value` refuses a Property as bare value, the class
definition fails with a ProgrammingError) -/
def aputAcc (l : List (Name × EntryV)) (k : Name) (a : AccV) : List (Name × EntryV) :=
  match aget? l k with
  | some (.prop _) => l
  | _ => aput l k (.acc a)

/-- body of the loop over the accessibles found (modulebase.py:90-110, repaired) -/
def buildOne (T : Tables) (self : Name) (w : Walk) (b : Built) (ns : Name × SlotV) : Built :=
  let name := ns.1
  let slot := ns.2
  let m := (aget? w.merged name).getD ⟨[], .unset⟩
  match aget? w.overrides name with
  | some .none => b
  | some (.bare v _ opt) =>
    let a := createFromValue T self name slot.val.isCmd m v opt
    { dict := aputAcc b.dict name a, accs := b.accs ++ [(name, ⟨self, a⟩)] }
  | _ =>
    if slot.owner != self then
      match slot.val.merged with
      | some mm =>
        if mm.eqv m then { b with accs := b.accs ++ [(name, slot)] }     -- shared unchanged
        else
          let a := mergedAcc T self name slot.val.isCmd [] .unset m
          { dict := aputAcc b.dict name a, accs := b.accs ++ [(name, ⟨self, a⟩)] }
      | none =>
        let a := mergedAcc T self name slot.val.isCmd [] .unset m
        { dict := aputAcc b.dict name a, accs := b.accs ++ [(name, ⟨self, a⟩)] }
    else
      let a := mergedAcc T self name slot.val.isCmd slot.val.own slot.val.ownDt m
      { dict := aputAcc b.dict name a, accs := b.accs ++ [(name, ⟨self, a⟩)] }

def moveFront {α : Type} (l : List (Name × α)) (k : Name) : List (Name × α) :=
  match aget? l k with
  | some v => (k, v) :: aerase l k
  | none => l
def moveEnd {α : Type} (l : List (Name × α)) (k : Name) : List (Name × α) :=
  match aget? l k with
  | some v => aerase l k ++ [(k, v)]
  | none => l

/-- rebuild order (modulebase.py:96-104): predefined first, new names last -/
def reorder {α : Type} (T : Tables) (newNames : List Name) (l : List (Name × α)) : List (Name × α) :=
  newNames.foldl moveEnd (T.predef.reverse.foldl moveFront l)

/-! ## module properties: `HasProperties.__init_subclass__` (properties.py:128-153) -/

/-- body of the loop over `base.__dict__.items()` (properties.py:134-138): a Property object is taken (a
known key keeps its place), a Parameter/Command of that name removes the property -/
def propsEntry (owner : Name) (acc : List (Name × PSlot)) (ke : Name × EntryV) : List (Name × PSlot) :=
  match ke.2 with
  | .prop p => aput acc ke.1 ⟨owner, p⟩
  | .acc _ => aerase acc ke.1
  | _ => acc

/-- the walk over the reversed MRO (properties.py:133-139): `cls.propertyDict` before bare values are treated -/
def propsWalk (chain : List ClassV) (self : Name) (dict0 : List (Name × EntryV)) : List (Name × PSlot) :=
  dict0.foldl (propsEntry self) (chain.reverse.foldl (fun acc cv => cv.dict.foldl (propsEntry cv.decl.name) acc) [])

/-- `getattr(cls, name)`: the entry of the first `__dict__` along the MRO that has the name -/
def lookupMro (dicts : List (List (Name × EntryV))) (n : Name) : Option EntryV :=
  dicts.findSome? (fun d => aget? d n)

structure PBuilt where
  dict : List (Name × EntryV)
  props : List (Name × PSlot)
deriving Inhabited

/-- body of the loop treating bare values (properties.py:141-153): the Property is **copied**, the copy gets the
value and replaces the bare value in the `__dict__` of the new class and in its `propertyDict`; the Property
object found (it lies in the `__dict__` of a base class and is the `propertyDict` entry of that class and of
all its other subclasses) is left alone.  (Whether the value is accepted by the datatype of the property is
decided by the implementation: a refused value makes the class definition fail as a whole.) -/
def propsBare (self : Name) (dicts : List (List (Name × EntryV))) (b : PBuilt) (np : Name × PSlot) : PBuilt :=
  match lookupMro dicts np.1 with
  | some (.bare v _ _) =>
    ⟨aput b.dict np.1 (.prop { np.2.val with value := some v }),
     aput b.props np.1 ⟨self, { np.2.val with value := some v }⟩⟩
  | _ => b

def propsDefine (chain : List ClassV) (self : Name) (dict0 : List (Name × EntryV)) : PBuilt :=
  (propsWalk chain self dict0).foldl (propsBare self (dict0 :: chain.map (·.dict))) ⟨dict0, propsWalk chain self dict0⟩

/-- the Property objects in the `__dict__` of a class outside `HasProperties` -/
def dictProps (self : Name) (dict : List (Name × EntryV)) : List (Name × PSlot) :=
  dict.filterMap (fun ke => match ke.2 with | .prop p => some (ke.1, ⟨self, p⟩) | _ => none)

/-- `__init_subclass__` for class `d`, given the classes of `d.mro` other than `d` itself, in MRO order:
`HasProperties.__init_subclass__` first (`super().__init_subclass__()`, modulebase.py:67), then the accessibles -/
def pureDefine (T : Tables) (chain : List ClassV) (d : ClassDecl) : ClassV :=
  let dict0 := d.decls.map (fun nd => (nd.1, entryOf T d.name nd.1 nd.2))
  if !d.isModule then ⟨d, dict0, [], dictProps d.name dict0⟩
  else
    let pb := propsDefine chain d.name dict0
    let w0 := chain.reverse.foldl (fun w cv => walkClass T false w cv.decl.name cv.dict) {}
    let w := walkClass T true w0 d.name pb.dict
    let b := w.accessibles.foldl (buildOne T d.name w) { dict := pb.dict }
    ⟨d, b.dict, reorder T w.newNames b.accs, pb.props⟩

end Frappy.Klass
