import FrappyModel.Klass.Config
/-
C10 — the main unit (`$` in units) and the search for a configuration file.

Transcribed:
* `Module.__init__`, "Modify units AFTER applying the cfgdict"   modulebase.py:423-428  → `mainUnitOf`, `mainUnitPass`
* `Module.applyMainUnit`                                         modulebase.py:451-454  → `substParam`
* `to_config_path`                                               config.py:159-176      → `candidates`, `toConfigPath`
* `load_config` (which files are parsed)                         config.py:194-203      → `resolveAll`

`datatype.unit` and `datatype.set_main_unit(unit)` are ORACLES (`UnitOps`), like the other datatype operations: the
theorems hold for every such pair, the driver instance (`ConfigDT.unitOf`, `ConfigDT.setMainUnit`: recursion into the
members of arrays and tuples) is tied to `datatypes.py` by the correspondence run.

Quirks kept: the main unit is the unit of the parameter called `value` AS IT IS after its own cfg (a `unit` override of
`value` in the cfg is what every `$` stands for); an empty main unit substitutes nothing (`$` stays); the substitution
runs over ALL parameters of the instance, whatever their own `unit` says — structured datatypes (tuples, the
`<p>_limits` pair, arrays of tuples) have no unit of their own and carry the `$` in their members; a `Limit` parameter
has got a COPY of its base's datatype before, so it is substituted on its own.
-/
namespace Frappy.Config

/-- the two datatype operations the main unit needs -/
structure UnitOps (DT : Type) where
  unitOf : DT → String                 -- `datatype.unit` ('' for datatypes without unit)
  setMainUnit : String → DT → DT       -- `datatype.set_main_unit(unit)`: every `$` in a unit (members included) replaced

/-- `mainvalue = self.parameters.get('value'); mainunit = mainvalue.datatype.unit` — `none`: no such parameter, or the
unit is empty (`if mainunit:`) -/
def mainUnitOf {DT Val : Type} (u : UnitOps DT) (insts : List (PInst DT Val)) : Option String :=
  match findInst "value" insts with
  | none => none
  | some p =>
    match p.dt with
    | none => none
    | some dt => if u.unitOf dt = "" then none else some (u.unitOf dt)

/-- body of the loop of `applyMainUnit` -/
def substParam {DT Val : Type} (u : UnitOps DT) (mu : String) (p : PInst DT Val) : PInst DT Val :=
  { p with dt := p.dt.map (u.setMainUnit mu) }

/-- `applyMainUnit` when there is a main unit -/
def mainUnitPass {DT Val : Type} (u : UnitOps DT) (i : Instance DT Val) : Instance DT Val :=
  match mainUnitOf u i.params with
  | none => i
  | some mu => { i with params := i.params.map (substParam u mu) }

/-- the constructor including the main-unit step.  The step runs after the cfg loop and before the final checks; it
changes units only, and only the accepted instance is observable, so it is modelled as a pass over the accepted
instance (assumed of the datatypes: replacing a unit does not change the outcome of `checkProperties`) -/
def applyConfigU {DT Val : Type} (ops : Ops DT Val) (u : UnitOps DT) (c : ClassDesc DT Val) (cfg : Cfg Val) :
    Except (List CfgErr) (Instance DT Val) :=
  match applyConfig ops c cfg with
  | .ok i => .ok (mainUnitPass u i)
  | .error es => .error es

/-! ## which file a configuration name stands for (config.py:159-176) -/

/-- `[cfgfile + e for e in ['_cfg.py', '.py', '']]` -/
def cfgSuffixes : List String := ["_cfg.py", ".py", ""]

/-- `[Path(d) / candidate for d in generalConfig.confdir for candidate in candidates]`: directory by directory, in
each directory suffix by suffix — as (directory, file name) pairs -/
def candidates (dirs : List String) (name : String) : List (String × String) :=
  dirs.flatMap fun d => cfgSuffixes.map fun s => (d, name ++ s)

/-- how a configuration is named on the command line -/
inductive CfgRef where
  | path (p : String)        -- contains a path separator: taken as it is
  | name (n : String)        -- searched in the configuration directories

/-- `to_config_path`; `isFile d f`: the file `f` exists in directory `d` (for a full path: `isFile "" p`).
`none`: ConfigError "Couldn't find cfg file" -/
def toConfigPath (isFile : String → String → Bool) (dirs : List String) : CfgRef → Option (String × String)
  | .path p => if isFile "" p then some ("", p) else none
  | .name n => (candidates dirs n).find? fun c => isFile c.1 c.2

/-- `load_config`: every name is resolved, in the order given; the first which is not found ends the start -/
def resolveAll (isFile : String → String → Bool) (dirs : List String) : List CfgRef → Option (List (String × String))
  | [] => some []
  | r :: rest =>
    match toConfigPath isFile dirs r with
    | none => none
    | some f => (resolveAll isFile dirs rest).map (f :: ·)

end Frappy.Config
