/-
C09 — object heap.  Python objects whose identity matters (Parameter/Command objects, datatype
objects) live in an explicit heap `List Obj`; a reference is an index.  Property values are
immutable and carried as canonical JSON text.  A datatype object is modelled together with its
member datatypes and its enum (frappy/datatypes.py: `copy()` always copies them as a whole, and
`setProperty` of ArrayOf delegates to its member: `ArrayOf.setProperty`, datatypes.py:794).
-/
namespace Frappy.Klass

abbrev Ref := Nat
abbrev Name := String
/-- an immutable property value: canonical JSON text -/
abbrev PVal := String
/-- a Python `dict` of properties: insertion ordered association list without duplicate keys -/
abbrev PropMap := List (Name × PVal)

/-- generic ordered association lists (Python dicts keyed by names) -/
def aget? {α : Type} : List (Name × α) → Name → Option α
  | [], _ => none
  | (k', v) :: rest, k => if k' == k then some v else aget? rest k
/-- `d[k] = v`: an existing key keeps its position, a new key goes to the end -/
def aput {α : Type} : List (Name × α) → Name → α → List (Name × α)
  | [], k, v => [(k, v)]
  | (k', v') :: rest, k, v => if k' == k then (k, v) :: rest else (k', v') :: aput rest k v
def aerase {α : Type} (l : List (Name × α)) (k : Name) : List (Name × α) := l.filter (fun kv => !(kv.1 == k))
def ahas {α : Type} (l : List (Name × α)) (k : Name) : Bool := l.any (fun kv => kv.1 == k)

namespace PropMap
def get? (m : PropMap) (k : Name) : Option PVal := aget? m k
def put (m : PropMap) (k : Name) (v : PVal) : PropMap := aput m k v
/-- `d.update(other)` -/
def update (m other : PropMap) : PropMap := other.foldl (fun acc kv => aput acc kv.1 kv.2) m
def sub (a b : PropMap) : Bool := a.all (fun kv => aget? b kv.1 == some kv.2)
/-- Python `dict.__eq__`: same keys with equal values, order irrelevant -/
def eqv (a b : PropMap) : Bool := sub a b && sub b a
end PropMap

/-- a datatype object with its member datatypes; `props` are the explicitly set (exported)
datatype properties, `members` the enum members -/
inductive DTree where
  | node (kind : String) (props : PropMap) (children : List DTree) (members : List (String × Int))
deriving Repr, Inhabited

namespace DTree
def kind : DTree → String | node k _ _ _ => k
def props : DTree → PropMap | node _ p _ _ => p
def children : DTree → List DTree | node _ _ c _ => c
def members : DTree → List (String × Int) | node _ _ _ m => m

/-- `datatype.setProperty(key, value)` (properties.py:189, datatypes.py:794): a key of the datatype's
own property table is set here; an array passes other keys on to its member type; anything else is
a `KeyError` in Python (the operation fails as a whole and is not applied in the model). `own kind`
is the property table of the datatype class (generated from the source). -/
def setProp (own : String → List Name) : DTree → Name → PVal → DTree
  | node k p cs ms, key, v =>
    if (own k).contains key then node k (PropMap.put p key v) cs ms
    else match k, cs with
      | "array", c :: rest => node k p (setProp own c key v :: rest) ms
      | _, _ => node k p cs ms

/-- `setProperty(key, value)` on the member datatype object found by descending along `path` (child
indices: `ArrayOf.members`, `TupleOf.members[i]`, `StructOf.members` in sorted key order).  A
`LimitsType` (kind `"limits"`, datatypes.py:1306-1319) is a `TupleOf(member, member)` built from ONE
member object used twice: it has a single child, and both indices lead to it.  A path that leaves the
tree is an `IndexError` in Python (the operation fails as a whole and is not applied in the model). -/
def setPropAt (own : String → List Name) : List Nat → DTree → Name → PVal → DTree
  | [], t, key, v => t.setProp own key v
  | i :: rest, node k p cs ms, key, v =>
    match cs[if k == "limits" then 0 else i]? with
    | some c => node k p (cs.set (if k == "limits" then 0 else i) (setPropAt own rest c key v)) ms
    | none => node k p cs ms

mutual
/-- what `export_datatype()` shows of a datatype object: a `LimitsType` is exported as a tuple with its
one member twice -/
def exported : DTree → DTree
  | node k p cs ms =>
    if k == "limits" then node "tuple" p (exportedList cs ++ exportedList cs) ms else node k p (exportedList cs) ms
def exportedList : List DTree → List DTree
  | [] => []
  | c :: cs => exported c :: exportedList cs
end

mutual
/-- `datatype.unit` (datatypes.py:207; 806-808: an array has the unit of its member type) -/
def unitOf : DTree → Option PVal
  | node k p cs _ => if k == "array" then unitOfHead cs else p.get? "unit"
def unitOfHead : List DTree → Option PVal
  | [] => none
  | c :: _ => unitOf c
end

mutual
/-- `set_main_unit` (datatypes.py:209, 872, 949): `$` in every unit below is replaced -/
def mainUnit (repl : PVal → PVal) : DTree → DTree
  | node k p cs ms => node k (p.map (fun kv => if kv.1 == "unit" then (kv.1, repl kv.2) else kv)) (mainUnits repl cs) ms
def mainUnits (repl : PVal → PVal) : List DTree → List DTree
  | [] => []
  | c :: cs => mainUnit repl c :: mainUnits repl cs
end
end DTree

/-- Parameter / Command object as it lies in the heap: the fields that are references -/
structure AccH where
  isCmd : Bool
  props : PropMap            -- propertyValues without the datatype
  dtype : Option Ref         -- propertyValues['datatype'] (Parameter) / ['argument'] (Command)
  ownDt : Option Ref         -- ownProperties['datatype'|'argument']: the object given in the declaration
  mergedDt : Option Ref      -- mergedProperties['datatype'|'argument']
deriving Repr, Inhabited

/-- a `Property` object (properties.py:44-92): what the module-level part of a description is computed from.
`value` is the value given with the declaration or by a bare class attribute (`UNSET` = `none`), `dflt` is
`default`, `exported` is `export`: `false`, `true` or `"always"` (canonical JSON text, like all values) -/
structure PropV where
  value : Option PVal
  dflt : PVal
  extname : String
  exported : PVal
deriving DecidableEq, Repr, Inhabited

inductive Obj where
  | acc (a : AccH)
  | dt (t : DTree)
  | prop (p : PropV)
deriving Repr, Inhabited

abbrev Heap := List Obj

namespace Heap
def alloc (h : Heap) (o : Obj) : Heap × Ref := (h ++ [o], h.length)
def accAt (h : Heap) (r : Ref) : Option AccH := match h[r]? with | some (.acc a) => some a | _ => none
def dtAt (h : Heap) (r : Ref) : Option DTree := match h[r]? with | some (.dt t) => some t | _ => none
def propAt (h : Heap) (r : Ref) : Option PropV := match h[r]? with | some (.prop p) => some p | _ => none
end Heap

end Frappy.Klass
