import FrappyModel.Klass.Config
/-
C10 — model of the part of a configuration which can only be applied with the whole node at hand: module properties
whose value is the NAME OF ANOTHER MODULE (`frappy.modules.Attached`).

Transcribed (of the repaired tree: `fix: resolve attached modules at initialization`, `fix: report cyclic dependencies …`,
`fix: do not hand out a module as attached module when its initialization failed`, see design_notes/C15.md):
* `SecNode.create_modules`, second loop     secnode.py:214-218 → `initNode`
* `SecNode.get_module`                       secnode.py:72-114  → `initMod` (`_isinitialized`, `initializing`, the loop over the
                                                                  `Attached` properties of `propertyDict`, `initFailed`,
                                                                  "error initializing <m>: …")
* `Attached.__get__`                         modules.py:128-148 → `resolveStep`
* `SecNode.get_module_instance` for a name which is configured but not registered (its constructor failed): the
  constructor is run AGAIN and its errors are reported a second time → `InitState.recreated`

The attachments of a module are resolved in the order its own code asks for them in `earlyInit`/`initModule` (class
description: `ModDecl.attached` lists those first), then in `propertyDict` order; the first one that fails ends the
initialisation of the module (one "error initializing" line per module).  A successful resolution is cached
(`attachedModules`), so every attachment is listed once.

Recursion: `get_module` of a target initialises the target first (depth first, `initializing` is the stack).  The model
uses fuel (number of registered modules + 1, never used up: the stack holds distinct registered modules); running out of
fuel is modelled as a failing initialisation, so that the theorems do not depend on the bound.
-/
namespace Frappy.Config

/-- `<prop> = Attached(<base>, …)` of a module class -/
structure AttDecl where
  prop : Name
  base : Name                    -- the class the attached module must inherit from (`basecls`)
deriving DecidableEq, Repr

/-- a module of the node as configured: name, class, cfg; what the class IS (`kinds`: names of the classes it inherits
from, itself included — for `isinstance`) and which attached-module properties it has, in resolution order -/
structure ModDecl (DT Val : Type) where
  name : Name
  cls : ClassDesc DT Val
  cfg : Cfg Val
  kinds : List Name
  attached : List AttDecl

inductive InitErr where
  | noSuchModule (prop target : Name)     -- `NoSuchModuleError`: no module of that name is configured on the node
  | doesNotExist (prop target : Name)     -- configured, but its constructor failed: "attached module … does not exist"
  | wrongKind (prop target : Name)        -- "… must inherit from …"
  | targetFailed (prop target : Name)     -- "… failed to initialize"
  | cyclic (prop target : Name)           -- "cyclic dependency: module … is needed for its own initialization"
  | fuel
deriving DecidableEq, Repr

structure InitState where
  initialized : List Name                       -- `_isinitialized`
  failed : List Name                            -- `initFailed`
  errors : List (Name × InitErr)                -- "error initializing <module>: …", in order
  recreated : List Name                         -- failing constructors run again by `get_module_instance`
  attached : List (Name × Name × Name)          -- `attachedModules`: (module, property, attached module)
deriving Repr

/-- what the init phase works on: the node as configured, the result of `create_modules`' first loop, and the reading
of a property value as a module name (`none`: no value, or the empty string — "not attached") -/
structure InitEnv (DT Val : Type) where
  mods : List (ModDecl DT Val)
  node : NodeOut DT Val
  nameOf : Val → Option Name

variable {DT Val : Type}

def declOf (env : InitEnv DT Val) (m : Name) : Option (ModDecl DT Val) := env.mods.find? (fun x => x.name == m)

/-- `isinstance(modobj, basecls)` -/
def hasKind (env : InitEnv DT Val) (t base : Name) : Bool :=
  match declOf env t with
  | some md => md.kinds.contains base
  | none => false

/-- the module name the instance holds for an attached-module property -/
def attTarget (nameOf : Val → Option Name) (i : Instance DT Val) (d : AttDecl) : Option Name :=
  (lookup d.prop i.modProps).bind nameOf

structure Loop where
  st : InitState
  err : Option InitErr            -- the exception which ended the loop

/-- the checks of `Attached.__get__` on the module object it got: `isinstance`, `initFailed`; then the cache -/
def checkTarget (env : InitEnv DT Val) (m : Name) (d : AttDecl) (t : Name) (st : InitState) : Loop :=
  if !hasKind env t d.base then ⟨st, some (.wrongKind d.prop t)⟩
  else if st.failed.contains t then ⟨st, some (.targetFailed d.prop t)⟩
  else ⟨{ st with attached := st.attached ++ [(m, d.prop, t)] }, none⟩

/-- `getattr(modobj, pname)` for one `Attached` property of module `m` (instance `i`): `Attached.__get__`.
`initT`: `SecNode.get_module` for a registered, not yet initialised target -/
def resolveStep (env : InitEnv DT Val) (initT : InitState → Name → InitState) (stack : List Name) (m : Name)
    (i : Instance DT Val) (acc : Loop) (d : AttDecl) : Loop :=
  if acc.err.isSome then acc else
  match attTarget env.nameOf i d with
  | none => acc                                     -- `if not modulename: return None`
  | some t =>
    if !(env.mods.map (·.name)).contains t then ⟨acc.st, some (.noSuchModule d.prop t)⟩
    else match lookup t env.node.modules with
      | none => ⟨{ acc.st with recreated := acc.st.recreated ++ [t] }, some (.doesNotExist d.prop t)⟩
      | some _ =>
        if acc.st.initialized.contains t then checkTarget env m d t acc.st
        else if stack.contains t then ⟨acc.st, some (.cyclic d.prop t)⟩
        else checkTarget env m d t (initT acc.st t)

/-- end of `get_module`: `_isinitialized = True`; with an exception also the error line and `initFailed` -/
def finishInit (m : Name) (r : Loop) : InitState :=
  match r.err with
  | none => { r.st with initialized := r.st.initialized ++ [m] }
  | some e => { r.st with initialized := r.st.initialized ++ [m], failed := r.st.failed ++ [m],
                          errors := r.st.errors ++ [(m, e)] }

/-- `SecNode.get_module(m)` for a registered module which is neither initialised nor being initialised -/
def initMod (env : InitEnv DT Val) : Nat → List Name → InitState → Name → InitState
  | 0, _, st, m => finishInit m ⟨st, some .fuel⟩
  | fuel + 1, stack, st, m =>
    match lookup m env.node.modules, declOf env m with
    | some i, some md =>
      finishInit m (md.attached.foldl (resolveStep env (initMod env fuel (m :: stack)) (m :: stack) m i) ⟨st, none⟩)
    | _, _ => st

def initTop (env : InitEnv DT Val) (st : InitState) (kv : Name × Instance DT Val) : InitState :=
  if st.initialized.contains kv.1 then st else initMod env (env.node.modules.length + 1) [] st kv.1

/-- `for modname in list(self.modules): self.get_module(modname)` -/
def initNode (env : InitEnv DT Val) : InitState :=
  env.node.modules.foldl (initTop env) ⟨[], [], [], [], []⟩

structure Started (DT Val : Type) where
  node : NodeOut DT Val
  init : InitState

def nodeCfgs (mods : List (ModDecl DT Val)) : List (Name × ClassDesc DT Val × Cfg Val) :=
  mods.map fun m => (m.name, m.cls, m.cfg)

/-- `SecNode.create_modules`: every module is constructed, then every registered module is initialised -/
def startNode (ops : Ops DT Val) (nameOf : Val → Option Name) (mods : List (ModDecl DT Val)) : Started DT Val :=
  let node := createNode ops (nodeCfgs mods)
  ⟨node, initNode ⟨mods, node, nameOf⟩⟩

/-- `Server._processCfg`: any error → `sys.exit(1)` -/
def Started.starts (s : Started DT Val) : Bool := s.node.errors.isEmpty && s.init.errors.isEmpty

/-- the attribute `<m>.<prop>` of a started node -/
def Started.attachedOf (s : Started DT Val) (m prop : Name) : Option Name :=
  (s.init.attached.find? (fun e => e.1 == m && e.2.1 == prop)).map (·.2.2)

end Frappy.Config
