import FrappyModel.Klass.Heap
/-
C09 — behaviour of modules with struct parameters (frappy/extparams.py:129-195): the struct and its members are kept
consistent by callbacks; while the struct of a module is read or written as a whole (generated `read_<struct>` /
`write_<struct>`, the struct callback) the member → struct callback is switched off by a nesting counter `insideRW` - ONE PER
StructParam OBJECT (`self.insideRW = AccessDepth()` in `__init__`, run again by `Parameter.copy()` for every module).
State of one thread; `V`: values.
-/
namespace Frappy.Klass.StructRW

/-- the struct parameter of one module: nesting depth of the accesses of this thread, value of the struct, values of the members -/
structure SP (V : Type) where
  depth : Nat
  struct : List (Name × V)
  members : List (Name × V)
deriving Repr, Inhabited

/-- module name ↦ its struct parameter -/
abbrev Mods (V : Type) := List (Name × SP V)

def amod {α : Type} (l : List (Name × α)) (k : Name) (f : α → α) : List (Name × α) :=
  l.map (fun kv => if kv.1 == k then (kv.1, f kv.2) else kv)

/-- `pobj.insideRW.value += 1` at the start of `read_<struct>` / `write_<struct>` of module `x` -/
def enter {V : Type} (w : Mods V) (x : Name) : Mods V := amod w x (fun s => { s with depth := s.depth + 1 })
def leave {V : Type} (w : Mods V) (x : Name) : Mods V := amod w x (fun s => { s with depth := s.depth - 1 })

/-- `y.<member> = v` (or `read_<member>` returning `v`): the value is stored, then the member callback
(extparams.py:189-193) writes it into the struct unless the struct OF THIS PARAMETER OBJECT is being accessed -/
def updSP {V : Type} (m : Name) (v : V) (s : SP V) : SP V :=
  { s with members := aput s.members m v, struct := if s.depth == 0 then aput s.struct m v else s.struct }

def memberUpdate {V : Type} (w : Mods V) (y m : Name) (v : V) : Mods V := amod w y (updSP m v)

/-- the variant in which the counter is one for all struct parameters (a class attribute): what the callback of `y` sees
is the sum of all depths -/
def memberUpdateShared {V : Type} (w : Mods V) (y m : Name) (v : V) : Mods V :=
  let total := (w.map (fun kv => kv.2.depth)).sum
  amod w y (fun s => { s with members := aput s.members m v, struct := if total == 0 then aput s.struct m v else s.struct })

end Frappy.Klass.StructRW
