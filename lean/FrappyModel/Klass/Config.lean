/-
C10 — model of how a module configuration is applied (`frappy/modulebase.py`, `secnode.py`, `config.py`).

Transcribed (of the repaired tree, see design_notes/C10.md):
* `Module.__init__`               modulebase.py:358-428  → `applyConfig`
* `Module._add_accessible`        modulebase.py:442-466  → `cfgStep`, `applyEntries`
* `Module._handle_writes`         modulebase.py:468-515  → `deriveLimit`, `handleWrites`
* `Parameter.finish`              params.py:276-303      → folded into `handleWrites` (the start value is the
                                                          conversion by the final datatype)
* `HasProperties.checkProperties` properties.py:155-169  → `checkMandatory`, `Ops.checkDT`
* `Module.writeInitParams` + head of `__pollThread`  modulebase.py:726-737, 797-821 → `prologue`
* `SecNode.get_module_instance` / `create_modules`   secnode.py:99-165 → `createNode`
* `Config.merge_modules` / `load_config`             config.py:113-135, 186-215 → `mergeModules`, `loadConfig`
* `Param.__init__`, `Mod.__init__` (bare values, `Group`)  config.py:53-90 → `paramDict`, `modArgStep`, `setGroup`, `modDict`
* the `continue` for optional accessibles             modulebase.py:405-411 → `AccDecl`, `accLoop`, `implemented`
* cfg of a `Command` (`Command.setProperty`)          modulebase.py:476-486, params.py:505-514 → `cmdEntries`, `applyCommands`

Datatypes are ORACLES (`Ops`): conversion `dt(x)`, validation `dt.validate(x)`, `setProperty`,
`checkProperties`.  The class description is data.  Quirks kept:
* a BadValueError/KeyError raised by `Parameter.setProperty` is turned into `ProgrammingError`, which
  nobody catches: the constructor is left at once (`CfgErr.raised`, reported as "error creating <m>");
* `value`/`default` are checked against the FINAL datatype in `_handle_writes` (repaired tree; the pinned
  tree checked against the datatype as it was when the entry was reached and swallowed the final check);
* the datatype of a `Limit` parameter without own datatype is a COPY of the base parameter's datatype, derived
  before the limit's cfg is applied (repaired tree; the pinned tree applied the cfg to `ValueType()`, whose
  `setProperty` ignores everything, and derived the datatype afterwards);
* `checkProperties` (mandatory, min ≤ max) runs only when nothing was collected before, and the module
  check stops at the first missing mandatory property.
-/
namespace Frappy.Config

abbrev Name := String

inductive SetRes (DT : Type) where
  | ok (dt : DT)
  | unknown            -- KeyError: the datatype has no such property
  | bad                -- BadValueError: the value does not fit the property

inductive LimitKind where
  | min | max | limits
deriving DecidableEq, Repr

/-- the oracles -/
structure Ops (DT Val : Type) where
  convert : DT → Val → Option Val          -- `dt(x)`, `none` = BadValueError
  validate : DT → Val → Option Val         -- `dt.validate(x)` (conversion + limits)
  setProp : DT → Name → Val → SetRes DT    -- `dt.setProperty(k, v)`
  checkDT : DT → Bool                      -- `dt.checkProperties()` passes
  dtDefault : DT → Val                     -- `dt.default`
  ownProp : Name → Option (Val → Option Val)  -- settable properties of `Parameter` itself (not value/default)
  cmdProp : Name → Option (Val → Option Val)  -- settable properties of `Command`
  cmdRaises : Name → Val → Bool               -- the refusal of a `Command` property value is a `ValueError` (not a `BadValueError`)
  limitDT : LimitKind → DT → DT            -- `Limit.set_datatype`
  limitDefault : LimitKind → DT → Val

inductive CfgErr where
  | badModProp (key : Name)
  | badValue (param key : Name)
  | limitNoBase (param : Name)
  | noDatatype (param : Name)
  | needsCfg (param : Name)
  | unknownNames (keys : List Name)
  | unknownProp (name key : Name)       -- "'<name>' has no property '<key>'"
  | mandatory (key : Name)
  | badDatatype (param : Name)
  | raised
deriving DecidableEq, Repr

structure ModPropDesc (Val : Type) where
  name : Name
  validate : Val → Option Val
  mandatory : Bool
  classValue : Option Val          -- value given at class level

structure ParamDesc (DT Val : Type) where
  name : Name
  dt : Option DT
  limit : Option LimitKind
  base : Name                      -- `<base>_<postfix>` for limits
  value : Option Val               -- class level `Parameter(value=…)`
  default : Option Val
  needscfg : Bool
  hasWrite : Bool
  own : List (Name × Val)          -- class level values of the parameter's own properties

structure ClassDesc (DT Val : Type) where
  modProps : List (ModPropDesc Val)      -- `propertyDict` order
  params : List (ParamDesc DT Val)       -- `accessibles` order (non-optional parameters)
  otherNames : List Name                 -- commands

/-- a module property in the cfg: bare value, or a dict with or without the key `value` -/
inductive PropCfg (Val : Type) where
  | bare (v : Val)
  | dict (v : Option Val)

inductive Entry (Val : Type) where
  | prop (c : PropCfg Val)               -- not a dict of parameter properties
  | acc (items : List (Name × Val))      -- `{propname: propvalue, …}` in dict order

abbrev Cfg (Val : Type) := List (Name × Entry Val)

/-- a parameter object on the instance -/
structure PInst (DT Val : Type) where
  name : Name
  dt : Option DT
  own : List (Name × Val)
  value : Option Val
  default : Option Val
  notInit : Bool
  given : Bool

structure Instance (DT Val : Type) where
  modProps : List (Name × Val)
  params : List (PInst DT Val)
  writeDict : List (Name × Val)

/-! ## assoc lists (Python dicts keep insertion order) -/

def lookup {α : Type} (k : Name) : List (Name × α) → Option α
  | [] => none
  | (k', v) :: r => if k' = k then some v else lookup k r

def setKey {α : Type} (k : Name) (v : α) : List (Name × α) → List (Name × α)
  | [] => [(k, v)]
  | (k', v') :: r => if k' = k then (k, v) :: r else (k', v') :: setKey k v r

def erase {α : Type} (k : Name) : List (Name × α) → List (Name × α)
  | [] => []
  | (k', v') :: r => if k' = k then r else (k', v') :: erase k r

/-! ## step 2: module properties (modulebase.py:361-370) -/

inductive PropRes (Val : Type) where
  | absent
  | set (v : Val)
  | bad
  | raised        -- `value['value']` on a dict without that key: KeyError leaves the constructor

def applyModProp {Val : Type} (d : ModPropDesc Val) : Option (Entry Val) → PropRes Val
  | none => .absent
  | some (.prop (.bare v)) => match d.validate v with | some v' => .set v' | none => .bad
  | some (.prop (.dict (some v))) => match d.validate v with | some v' => .set v' | none => .bad
  | some (.prop (.dict none)) => .raised
  | some (.acc items) =>        -- a dict: its `value` member is taken
    match lookup "value" items with
    | some v => match d.validate v with | some v' => .set v' | none => .bad
    | none => .raised

structure ModPropsOut (Val : Type) where
  values : List (Name × Val)
  errs : List CfgErr
  raised : Bool

/-- keys other than `value` in the dict given for a module property (repaired tree: collected, not ignored) -/
def extraKeys {Val : Type} : Option (Entry Val) → List Name
  | some (.acc items) => (items.map (·.1)).filter (fun k => k != "value")
  | _ => []

def modPropStep {Val : Type} (cfg : Cfg Val) (acc : ModPropsOut Val) (d : ModPropDesc Val) : ModPropsOut Val :=
  if acc.raised then acc else
  let ex := (extraKeys (lookup d.name cfg)).map (CfgErr.unknownProp d.name)
  match applyModProp d (lookup d.name cfg) with
  | .absent => match d.classValue with
    | some v => { acc with values := acc.values ++ [(d.name, v)], errs := acc.errs ++ ex }
    | none => { acc with errs := acc.errs ++ ex }
  | .set v => { acc with values := acc.values ++ [(d.name, v)], errs := acc.errs ++ ex }
  | .bad => match d.classValue with
    | some v => { acc with values := acc.values ++ [(d.name, v)], errs := acc.errs ++ ex ++ [.badModProp d.name] }
    | none => { acc with errs := acc.errs ++ ex ++ [.badModProp d.name] }
  | .raised => { acc with raised := true }

def applyModProps {Val : Type} (ds : List (ModPropDesc Val)) (cfg : Cfg Val) : ModPropsOut Val :=
  ds.foldl (modPropStep cfg) ⟨[], [], false⟩

/-! ## `_add_accessible`: the cfg loop of one parameter (modulebase.py:454-464) -/

structure Acc (DT Val : Type) where
  dt : Option DT
  own : List (Name × Val)
  value : Option Val
  default : Option Val

inductive StepRes (DT Val : Type) where
  | cont (a : Acc DT Val)
  | raised                 -- ProgrammingError: constructor left

/-- `accessible.setProperty(propname, propvalue)` (params.py:313-325).  `value`/`default` have `ValueType()`:
anything is stored; they are checked against the final datatype in `_handle_writes` (repaired tree) -/
def cfgStep {DT Val : Type} (ops : Ops DT Val) (a : Acc DT Val) (k : Name) (v : Val) : StepRes DT Val :=
  if k = "value" then .cont { a with value := some v }
  else if k = "default" then .cont { a with default := some v }
  else match ops.ownProp k with
    | some validator => match validator v with
      | some v' => .cont { a with own := setKey k v' a.own }
      | none => .raised
    | none => match a.dt with
      | none => .cont a            -- `ValueType.setProperty`: silently ignored
      | some dt => match ops.setProp dt k v with
        | .ok dt' => .cont { a with dt := some dt' }
        | .unknown => .raised
        | .bad => .raised

/-- the loop; `none` = the constructor was left by an exception -/
def applyEntries {DT Val : Type} (ops : Ops DT Val) (a : Acc DT Val) : List (Name × Val) → Option (Acc DT Val)
  | [] => some a
  | (k, v) :: rest =>
    match cfgStep ops a k v with
    | .cont a' => applyEntries ops a' rest
    | .raised => none

/-! ## `_handle_writes` (modulebase.py:468-515) -/

def findInst {DT Val : Type} (name : Name) : List (PInst DT Val) → Option (PInst DT Val)
  | [] => none
  | p :: r => if p.name = name then some p else findInst name r

inductive LimitRes (DT Val : Type) where
  | go (a : Acc DT Val)
  | noBase
  | baseUntyped
  | baseBad                 -- `datatype.copy()` of an inconsistent base datatype raises (caught, reported on the base)

/-- derivation of the datatype of a `Limit` from the base parameter (already on the instance): a copy of the base's
datatype; `DataType.copy` rebuilds the datatype and so fails exactly when `checkProperties` fails -/
def deriveLimit {DT Val : Type} (ops : Ops DT Val) (insts : List (PInst DT Val)) (pd : ParamDesc DT Val)
    (a : Acc DT Val) : LimitRes DT Val :=
  match pd.limit with
  | none => .go a
  | some k =>
    match findInst pd.base insts with
    | none => .noBase
    | some b =>
      match b.dt with
      | none => .baseUntyped
      | some bdt =>
        match a.dt with
        | some _ => .go a          -- the programmer gave a datatype
        | none =>
          if ops.checkDT bdt then
            .go { a with dt := some (ops.limitDT k bdt), default := some (ops.limitDefault k bdt) }
          else .baseBad

structure POut (DT Val : Type) where
  inst : PInst DT Val
  errs : List CfgErr
  write : Option Val

def mkInst {DT Val : Type} (name : Name) (a : Acc DT Val) (notInit given : Bool) : PInst DT Val :=
  ⟨name, a.dt, a.own, a.value, a.default, notInit, given⟩

/-- `dt(x)` where the final check has already shown that it succeeds -/
def conv {DT Val : Type} (ops : Ops DT Val) (dt : DT) (v : Val) : Val := (ops.convert dt v).getD v

/-- repaired tree: `value` and `default` (from cfg or class) are checked against the FINAL datatype;
the first that does not convert is collected and the parameter is left as it is -/
def finalCheck {DT Val : Type} (ops : Ops DT Val) (dt : DT) (a : Acc DT Val) : Option Name :=
  match a.value with
  | some v => if (ops.convert dt v).isNone then some "value" else
    match a.default with
    | some d => if (ops.convert dt d).isNone then some "default" else none
    | none => none
  | none =>
    match a.default with
    | some d => if (ops.convert dt d).isNone then some "default" else none
    | none => none

/-- no value: default, needscfg, not-initialised marker -/
def startFromDefault {DT Val : Type} (ops : Ops DT Val) (pd : ParamDesc DT Val) (a : Acc DT Val) (dt : DT) :
    POut DT Val :=
  let e1 : List CfgErr := if pd.needscfg then [.needsCfg pd.name] else []
  match a.default with
  | none =>
    -- `dt.default` is computed by `checkProperties` when the datatype is built: cfg overrides do not refresh it
    let d := ops.dtDefault (pd.dt.getD dt)
    ⟨mkInst pd.name { a with default := some d, value := some d } true false, e1, none⟩
  | some d =>
    let d' := conv ops dt d
    ⟨mkInst pd.name { a with default := some d', value := some d' } false false, e1, none⟩

/-- value given (cfg or class): write registration (the raw value), start value = conversion -/
def startFromValue {DT Val : Type} (ops : Ops DT Val) (pd : ParamDesc DT Val) (a : Acc DT Val) (dt : DT) (v : Val) :
    POut DT Val :=
  let v' := conv ops dt v
  let d := match a.default with
    | none => v'
    | some d => conv ops dt d
  ⟨mkInst pd.name { a with value := some v', default := some d } false true, [],
    if pd.hasWrite then some v else none⟩

def handleWrites {DT Val : Type} (ops : Ops DT Val) (pd : ParamDesc DT Val) (a : Acc DT Val) : POut DT Val :=
  match a.dt with
  | none =>       -- for a limit the error was reported when the derivation failed
    ⟨mkInst pd.name a false false, if pd.limit.isSome then [] else [.noDatatype pd.name], none⟩
  | some dt =>
    match finalCheck ops dt a with
    | some key => ⟨mkInst pd.name a false false, [.badValue pd.name key], none⟩
    | none =>
      match a.value with
      | none => startFromDefault ops pd a dt
      | some v => startFromValue ops pd a dt v

/-! ## one accessible -/

inductive PRes (DT Val : Type) where
  | done (o : POut DT Val)
  | raised

def classAcc {DT Val : Type} (pd : ParamDesc DT Val) : Acc DT Val := ⟨pd.dt, pd.own, pd.value, pd.default⟩

structure Start (DT Val : Type) where
  acc : Acc DT Val
  errs : List CfgErr

/-- repaired tree: the datatype of a `Limit` is derived (from the base parameter already on the instance) BEFORE
its cfg is applied; when that is not possible the cfg is applied to the parameter as the class left it
(`ValueType()`: datatype properties ignored) and the reason is collected -/
def startAcc {DT Val : Type} (ops : Ops DT Val) (insts : List (PInst DT Val)) (pd : ParamDesc DT Val) : Start DT Val :=
  match deriveLimit ops insts pd (classAcc pd) with
  | .go a => ⟨a, []⟩
  | .noBase => ⟨classAcc pd, [.limitNoBase pd.name]⟩
  | .baseUntyped => ⟨classAcc pd, []⟩
  | .baseBad => ⟨classAcc pd, [.badDatatype pd.base]⟩

def withErrs {DT Val : Type} (es : List CfgErr) (o : POut DT Val) : POut DT Val := { o with errs := es ++ o.errs }

def addParam {DT Val : Type} (ops : Ops DT Val) (insts : List (PInst DT Val)) (pd : ParamDesc DT Val) :
    Option (Entry Val) → PRes DT Val
  | none => .done (withErrs (startAcc ops insts pd).errs (handleWrites ops pd (startAcc ops insts pd).acc))
  | some (.prop _) => .raised            -- `cfg.items()` on something that is not a dict: AttributeError
  | some (.acc items) =>
    match applyEntries ops (startAcc ops insts pd).acc items with
    | some a => .done (withErrs (startAcc ops insts pd).errs (handleWrites ops pd a))
    | none => .raised

/-! ## all accessibles (modulebase.py:389-397) -/

structure ParamsOut (DT Val : Type) where
  insts : List (PInst DT Val)
  errs : List CfgErr
  writes : List (Name × Val)
  raised : Bool

def addWrite {Val : Type} (ws : List (Name × Val)) (name : Name) : Option Val → List (Name × Val)
  | some v => ws ++ [(name, v)]
  | none => ws

def paramStep {DT Val : Type} (ops : Ops DT Val) (cfg : Cfg Val) (acc : ParamsOut DT Val) (pd : ParamDesc DT Val) :
    ParamsOut DT Val :=
  if acc.raised then acc else
  match addParam ops acc.insts pd (lookup pd.name cfg) with
  | .raised => { acc with raised := true }
  | .done o =>
    { insts := acc.insts ++ [o.inst], errs := acc.errs ++ o.errs,
      writes := addWrite acc.writes pd.name o.write,
      raised := false }

def applyParams {DT Val : Type} (ops : Ops DT Val) (ps : List (ParamDesc DT Val)) (cfg : Cfg Val) : ParamsOut DT Val :=
  ps.foldl (paramStep ops cfg) ⟨[], [], [], false⟩

/-! ## commands in the cfg (modulebase.py:476-486)

`Command.setProperty` is `HasProperties.setProperty`: an unknown property is a `KeyError`, an ill-typed value a
`BadValueError` — both are COLLECTED by `_add_accessible` (unlike `Parameter.setProperty`, which turns them into a
`ProgrammingError`); the loop over the cfg of that command ends there. -/

inductive CmdRes where
  | errs (es : List CfgErr)
  | raised                   -- an exception nobody catches leaves the constructor

/-- `Command.setProperty` turns a `ValueError` (a string or number which is not a member of the `visibility` enum) into
a `ProgrammingError`, which `_add_accessible` does not catch; a `BadValueError` (wrong type) is collected -/
def cmdEntries {DT Val : Type} (ops : Ops DT Val) (name : Name) : List (Name × Val) → CmdRes
  | [] => .errs []
  | (k, v) :: rest =>
    match ops.cmdProp k with
    | none => .errs [.unknownProp name k]
    | some f =>
      match f v with
      | none => if ops.cmdRaises k v then .raised else .errs [.badValue name k]
      | some _ => cmdEntries ops name rest

def addCommand {DT Val : Type} (ops : Ops DT Val) (name : Name) : Option (Entry Val) → CmdRes
  | none => .errs []
  | some (.prop _) => .raised            -- `cfg.items()` on something that is not a dict: AttributeError
  | some (.acc items) => cmdEntries ops name items

structure CmdsOut where
  errs : List CfgErr
  raised : Bool

def cmdStep {DT Val : Type} (ops : Ops DT Val) (cfg : Cfg Val) (acc : CmdsOut) (n : Name) : CmdsOut :=
  if acc.raised then acc else
  match addCommand ops n (lookup n cfg) with
  | .raised => { acc with raised := true }
  | .errs es => { acc with errs := acc.errs ++ es }

/-- the commands of the class (`otherNames`).  In the constructor they are handled by the same loop as the parameters,
in `accessibles` order; the model keeps them apart (what is collected for commands is listed after what is collected
for parameters — the harness compares the two groups separately) -/
def applyCommands {DT Val : Type} (ops : Ops DT Val) (names : List Name) (cfg : Cfg Val) : CmdsOut :=
  names.foldl (cmdStep ops cfg) ⟨[], false⟩

/-! ## names left over (modulebase.py:399-403) and the final checks (416-428) -/

def knownNames {DT Val : Type} (c : ClassDesc DT Val) : List Name :=
  c.modProps.map (·.name) ++ c.params.map (·.name) ++ c.otherNames

def leftover {DT Val : Type} (c : ClassDesc DT Val) (cfg : Cfg Val) : List Name :=
  (cfg.map (·.1)).filter (fun k => !(knownNames c).contains k)

/-- `Module.checkProperties`: raises at the first mandatory property without a value -/
def checkMandatory {Val : Type} (ds : List (ModPropDesc Val)) (values : List (Name × Val)) : List CfgErr :=
  match ds.find? (fun d => d.mandatory && (lookup d.name values).isNone) with
  | some d => [.mandatory d.name]
  | none => []

/-- `aobj.checkProperties()` for every parameter: the datatype's own consistency (min ≤ max, …) -/
def checkDatatypes {DT Val : Type} (ops : Ops DT Val) (insts : List (PInst DT Val)) : List CfgErr :=
  insts.filterMap (fun p => match p.dt with
    | some dt => if ops.checkDT dt then none else some (.badDatatype p.name)
    | none => none)

/-- "… does not exist (use one of …)": one line for all names left over -/
def unknownErr (left : List Name) : List CfgErr :=
  match left with
  | [] => []
  | _ :: _ => [.unknownNames left]

/-- everything collected before the final checks -/
def phase1 {DT Val : Type} (ops : Ops DT Val) (c : ClassDesc DT Val) (cfg : Cfg Val) : List CfgErr :=
  (applyModProps c.modProps cfg).errs ++ (applyParams ops c.params cfg).errs ++
    (applyCommands ops c.otherNames cfg).errs ++ unknownErr (leftover c cfg)

/-- the final checks (only run when nothing was collected) -/
def phase2 {DT Val : Type} (ops : Ops DT Val) (c : ClassDesc DT Val) (cfg : Cfg Val) : List CfgErr :=
  checkMandatory c.modProps (applyModProps c.modProps cfg).values ++
    checkDatatypes ops (applyParams ops c.params cfg).insts

def applyConfig {DT Val : Type} (ops : Ops DT Val) (c : ClassDesc DT Val) (cfg : Cfg Val) :
    Except (List CfgErr) (Instance DT Val) :=
  if (applyModProps c.modProps cfg).raised || (applyParams ops c.params cfg).raised ||
      (applyCommands ops c.otherNames cfg).raised then .error [.raised] else
  match phase1 ops c cfg with
  | e :: es => .error (e :: es)
  | [] =>
    match phase2 ops c cfg with
    | e :: es => .error (e :: es)
    | [] => .ok ⟨(applyModProps c.modProps cfg).values, (applyParams ops c.params cfg).insts,
                 (applyParams ops c.params cfg).writes⟩

/-! ## the node (secnode.py:99-165) -/

structure NodeOut (DT Val : Type) where
  modules : List (Name × Instance DT Val)
  errors : List (Name × List CfgErr)      -- "error creating module <name>:" + its lines

def createStep {DT Val : Type} (ops : Ops DT Val) (acc : NodeOut DT Val)
    (m : Name × ClassDesc DT Val × Cfg Val) : NodeOut DT Val :=
  if (lookup m.1 acc.modules).isSome then acc else
  match applyConfig ops m.2.1 m.2.2 with
  | .ok i => { acc with modules := acc.modules ++ [(m.1, i)] }
  | .error es => { acc with errors := acc.errors ++ [(m.1, es)] }

def createNode {DT Val : Type} (ops : Ops DT Val) (mods : List (Name × ClassDesc DT Val × Cfg Val)) : NodeOut DT Val :=
  mods.foldl (createStep ops) ⟨[], []⟩

/-- `Server._processCfg`: any error → `sys.exit(1)` -/
def nodeStarts {DT Val : Type} (n : NodeOut DT Val) : Bool := n.errors.isEmpty

/-! ## poll thread prologue (modulebase.py:726-737, 797-821) -/

inductive Ev (Val : Type) where
  /-- `write_<p>(v)` called by the poll thread; `also`: the entries of `writeDict` which the call consumed besides
  its own (a common write handler pops the configured values of its siblings and sends everything at once) -/
  | write (p : Name) (v : Val) (also : List (Name × Val))
  | firstPoll                       -- first `read_*` / `doPoll` round

/-- what a call of `write_<p>(v)` pops from the rest of `writeDict` (names; names not present are of no effect).
A plain `write_<p>` consumes nothing; `rwhandler.CommonWriteHandler` consumes the keys its function asks for
(`WriteParameters.__missing__`); a hand-written method may pop anything -/
abbrev WriteOracle (Val : Type) := Name → Val → List (Name × Val) → List Name

/-- the loop of `writeInitParams` (modulebase.py:838-858):
`for pname in list(self.writeDict): value = self.writeDict.pop(pname, Done); if value is not Done: write_<pname>(value)`
— the names are a snapshot, the VALUES are taken from the live dict, an entry consumed meanwhile is skipped -/
def writeLoop {Val : Type} (consumes : WriteOracle Val) : List Name → List (Name × Val) → List (Ev Val)
  | [], _ => []
  | p :: rest, wd =>
    match lookup p wd with
    | none => writeLoop consumes rest wd                   -- a handler has already done it
    | some v =>
      let wd1 := wd.filter (fun kv => kv.1 != p)
      let gone := consumes p v wd1
      Ev.write p v (wd1.filter (fun kv => gone.contains kv.1)) ::
        writeLoop consumes rest (wd1.filter (fun kv => !gone.contains kv.1))

def writeInitParams {DT Val : Type} (consumes : WriteOracle Val) (i : Instance DT Val) : List (Ev Val) :=
  writeLoop consumes (i.writeDict.map (·.1)) i.writeDict

def prologue {DT Val : Type} (consumes : WriteOracle Val) (i : Instance DT Val) : List (Ev Val) :=
  writeInitParams consumes i ++ [Ev.firstPoll]

/-! ## optional accessibles (modulebase.py:405-411)

`for aname, aobj in accessibles.items(): if aobj.optional: continue; …; acfg = cfgdict.pop(aname, None); …`
— an accessible declared in a base class with `optional=True` and not implemented by the class is skipped BEFORE its
cfg entry is taken out of `cfgdict`: a cfg entry for it stays there and is reported as "does not exist". -/

/-- one entry of the class attribute `accessibles` as the loop of the constructor sees it -/
structure AccDecl (DT Val : Type) where
  desc : ParamDesc DT Val
  optional : Bool                -- declared `optional=True` and not implemented by this class

structure LoopOut (DT Val : Type) where
  out : ParamsOut DT Val
  popped : List Name             -- the names whose entry the loop took out of `cfgdict`

def accStep {DT Val : Type} (ops : Ops DT Val) (cfg : Cfg Val) (acc : LoopOut DT Val) (d : AccDecl DT Val) :
    LoopOut DT Val :=
  if d.optional then acc                                       -- `continue`: nothing popped
  else ⟨paramStep ops cfg acc.out d.desc, if acc.out.raised then acc.popped else acc.popped ++ [d.desc.name]⟩

def accLoop {DT Val : Type} (ops : Ops DT Val) (ds : List (AccDecl DT Val)) (cfg : Cfg Val) : LoopOut DT Val :=
  ds.foldl (accStep ops cfg) ⟨⟨[], [], [], false⟩, []⟩

/-- the accessibles the instance gets: the class description the rest of the model works with -/
def implemented {DT Val : Type} (ds : List (AccDecl DT Val)) : List (ParamDesc DT Val) :=
  (ds.filter (fun d => !d.optional)).map (·.desc)

/-! ## the configuration DSL (config.py:53-90): `Param`, `Group`, `Mod` -/

/-- a keyword argument of `Mod(name, cls, description, …)` as written in a configuration file -/
inductive DslArg (Val : Type) where
  | bare (v : Val)                                           -- `key=v`: "shortcut to only set value"
  | param (value : Option Val) (kwds : List (Name × Val))    -- `key=Param(v, k=…)` / `Param(k=…)`; `Command` is the same class
  | group (members : List Name)                              -- `key=Group('a', 'b')`

/-- `Param.__init__(self, value=Undef, **kwds)`: the keywords as written, then `value` when one was given.  `Undef` is a
sentinel class: ANY given value — `None`, `0`, `''`, `False` too — ends up in the dict -/
def paramDict {Val : Type} (value : Option Val) (kwds : List (Name × Val)) : List (Name × Val) :=
  match value with
  | some v => setKey "value" v kwds
  | none => kwds

/-- first loop of `Mod.__init__`: a `Param` is stored as it is, a bare value is wrapped, groups are kept for later -/
def modArgStep {Val : Type} (d : Cfg Val) (kv : Name × DslArg Val) : Cfg Val :=
  match kv.2 with
  | .bare v => setKey kv.1 (.acc (paramDict (some v) [])) d
  | .param value kwds => setKey kv.1 (.acc (paramDict value kwds)) d
  | .group _ => d

/-- `self[member]['group'] = group`: `KeyError` for a member without entry, `TypeError` for `description` (a str) -/
def setGroup {Val : Type} (mkStr : Name → Val) (g : Name) (d : Option (Cfg Val)) (member : Name) : Option (Cfg Val) :=
  match d with
  | none => none
  | some d =>
    match lookup member d with
    | some (.acc items) => some (setKey member (.acc (setKey "group" (mkStr g) items)) d)
    | _ => none

def groupsOf {Val : Type} (args : List (Name × DslArg Val)) : List (Name × List Name) :=
  args.filterMap fun kv => match kv.2 with
    | .group ms => some (kv.1, ms)
    | _ => none

/-- `Mod.__init__` without `name`/`cls` (taken out by `Config.__init__` / `get_module_instance`); `none`: an exception
leaves `exec` — the file is not loaded at all.  `description` is a plain string -/
def modDict {Val : Type} (mkStr : Name → Val) (description : Val) (args : List (Name × DslArg Val)) : Option (Cfg Val) :=
  (groupsOf args).foldl (fun d g => g.2.foldl (setGroup mkStr g.1) d)
    (some (args.foldl modArgStep [("description", .prop (.bare description))]))

/-! ## merging of config files (config.py:105-135, 186-215) -/

/-- one parsed file: equipment id of its node section and its modules (a dict: names unique) -/
structure CfgFile (M : Type) where
  equipmentId : Name
  modules : List (Name × M)

structure Merged (M : Type) where
  modules : List (Name × M × Option Name)   -- definition and origin (`original_id`) if merged in
  ambiguous : List Name

/-- `Config(node, modules)`: `{mod['name']: mod for mod in list}` — a later `Mod` of the same name replaces
the value, the position of the first one is kept -/
def fileDict {M : Type} (l : List (Name × M)) : List (Name × M) :=
  l.foldl (fun d kv => setKey kv.1 kv.2 d) []

def mergeStep {M : Type} (eq : Name) (acc : Merged M) (m : Name × M) : Merged M :=
  if (lookup m.1 acc.modules).isSome then acc
  else { acc with modules := acc.modules ++ [(m.1, m.2, some eq)] }

/-- `Config.merge_modules` -/
def mergeModules {M : Type} (acc : Merged M) (other : CfgFile M) : Merged M :=
  let amb := (other.modules.map (·.1)).filter (fun k => (lookup k acc.modules).isSome && !acc.ambiguous.contains k)
  other.modules.foldl (mergeStep other.equipmentId) { acc with ambiguous := acc.ambiguous ++ amb }

/-- `load_config` -/
def loadConfig {M : Type} : List (CfgFile M) → Merged M
  | [] => ⟨[], []⟩
  | f :: rest => rest.foldl mergeModules ⟨f.modules.map (fun m => (m.1, m.2, none)), []⟩

end Frappy.Config
